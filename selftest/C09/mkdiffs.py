"""build the mutation diffs of selftest/C09 from (file, old text, new text) triples; never touches /repo"""
import difflib
from pathlib import Path

REPO = Path("/repo")
OUT = Path(__file__).resolve().parent
MUTS = {
    # 1. swapped argument / extra call: the exclusion test now looks at the resolved path, so even `.` from inside a project
    #    that lives under build/ reports nothing
    "m1_exclusion_on_resolved_path": [("src/orchestrator/core.py",
        "        if _is_hardcoded_excluded(self._path_inside_project(file_path)):\n            return []\n\n        if self.ignore_parser",
        "        if _is_hardcoded_excluded(file_path.resolve()):\n            return []\n\n        if self.ignore_parser")],
    # 2. dropped branch: repo-level ignore patterns are never re-rooted (absolute targets stop honouring `src/*`)
    "m2_ignore_never_rerooted": [("src/linter_config/ignore.py",
        "            check_path = str(file_path.relative_to(self.project_root))\n",
        "            check_path = str(file_path) if file_path.is_absolute() else str(file_path.relative_to(self.project_root))\n")],
    # 3. changed operator: Python test-file detection by substring of the whole path instead of the file name
    "m3_py_test_file_on_full_path": [("src/linters/magic_numbers/context_analyzer.py",
        "    return file_path.name.startswith(\"test_\") or \"_test.py\" in file_path.name\n",
        "    return \"test_\" in str(file_path) or \"_test.py\" in file_path.name\n")],
    # 4. wrong variable: the project root is searched from the working directory instead of the first target
    "m4_root_from_cwd": [("src/cli/utils.py",
        "    first_path = path_objs[0] if path_objs else Path.cwd()\n",
        "    first_path = Path.cwd() if path_objs else path_objs[0]\n")],
    # 5. changed operator: per-linter ignore entries must START the path (Rust linters), so `tests/` works for `.` but not for absolute targets
    "m5_ignored_path_startswith": [("src/core/linter_utils.py",
        "    return any(ignored in file_path for ignored in ignore_patterns)\n",
        "    return any(file_path.startswith(ignored) for ignored in ignore_patterns)\n")],
    # 6. walk yields absolute paths: relative spellings now behave like absolute ones (not shape-checked by the translator: the
    #    correspondence check alone has to catch it)
    "m6_walk_resolves_paths": [("src/orchestrator/core.py",
        "    root_path = Path(root)\n",
        "    root_path = Path(root).resolve()\n")],
    # 7. TypeScript test-file markers looked up in the lower-cased *parent directory* string only (dropped the file name):
    #    a.test.ts is no longer exempt anywhere, and the location dependence stays
    "m7_ts_markers_on_parent_dir": [("src/linters/print_statements/linter.py",
        "        path_str = str(file_path)\n        return any(\n            pattern in path_str\n            for pattern in [\".test.\", \".spec.\", \"test_\", \"_test.\", \"/tests/\", \"/test/\"]",
        "        path_str = str(Path(str(file_path)).parent) + \"/\"\n        return any(\n            pattern in path_str\n            for pattern in [\".test.\", \".spec.\", \"test_\", \"_test.\", \"/tests/\", \"/test/\"]")],
    # ---- phase 3: cross-file rules, file-header, directive stores, dotted directory names
    # 8. DRY inline-ignore ranges are stored under the RESOLVED path but looked up under the path as spelled: `# dry: ignore-block` is
    #    honoured for absolute targets only (not shape-checked: the directive-carrying templates have to catch it)
    "m8_dry_inline_ranges_resolved_key": [("src/linters/dry/inline_ignore.py",
        "            self._ignore_ranges[str(file_path)] = ranges\n",
        "            self._ignore_ranges[str(file_path.resolve())] = ranges\n")],
    # 9. a target whose name has a "suffix" is taken for a file: the root search for the project directory service.v2 starts at its parent
    "m9_root_dotted_dir_is_file": [("src/cli/utils.py",
        "    search_start = first_path if first_path.is_dir() else first_path.parent\n",
        "    search_start = first_path.parent if first_path.suffix else first_path\n")],
    # 10. stringly-typed ignore list matched against the resolved path: `lib/` / `**/tests/**` above the project now silence relative
    #     spellings too and anchored patterns stop matching
    "m10_stringly_ignore_on_resolved_path": [("src/linters/stringly_typed/ignore_utils.py",
        "    path_str = str(file_path)\n",
        "    path_str = str(Path(file_path).resolve())\n")],
    # 11. file-header `**/dir/**` patterns looked up in the parts of the resolved path (a parent called docs / tests silences the project)
    "m11_file_header_dir_pattern_resolved": [("src/linters/file_header/linter.py",
        "            return dir_name in file_path.parts\n",
        "            return dir_name in file_path.resolve().parts\n")],
    # 12. the stringly-typed directive check reads the file under a re-spelled path (relative to the cwd's parent): the line directive is
    #     honoured only for absolute spellings
    "m12_stringly_directive_content_by_name": [("src/linters/stringly_typed/ignore_checker.py",
        "        file_content = self._get_file_content(violation.file_path)\n",
        "        file_content = self._get_file_content(violation.file_path if Path(violation.file_path).is_absolute() else Path(violation.file_path).name)\n")],
    # 13. stateless-class: a file directly inside a directory called tests is exempt, decided on the parent directory of the path as
    #     resolved (the project directory's own name / the directory above a top-level file decides)
    "m13_stateless_tests_dir_resolved_parent": [("src/linters/stateless_class/python_analyzer.py",
        "        \"/tests/\" in path_str\n",
        "        \"/tests/\" in path_str\n        or __import__(\"os\").path.realpath(path_str).rsplit(\"/\", 2)[-2] in (\"tests\", \"__tests__\")\n")],
    # 14. pipeline (collection-pipeline): the linter's ignore list is applied to the resolved path (a parent called lib/ silences relative
    #     spellings too; `**/mod.py` matches a top-level mod.py through the components above the project)
    "m14_pipeline_ignore_on_resolved_path": [("src/linters/collection_pipeline/linter.py",
        "        file_path = Path(context.file_path)\n        return any(self._matches_pattern(file_path, pattern) for pattern in config.ignore)\n",
        "        file_path = Path(context.file_path).resolve()\n        return any(self._matches_pattern(file_path, pattern) for pattern in config.ignore)\n")],
}

for name, edits in MUTS.items():
    chunks = []
    for rel, old, new in edits:
        src = (REPO / rel).read_text()
        assert src.count(old) == 1, (name, rel, src.count(old))
        dst = src.replace(old, new)
        chunks.append("".join(difflib.unified_diff(src.splitlines(True), dst.splitlines(True), "a/" + rel, "b/" + rel)))
    (OUT / f"{name}.diff").write_text("".join(chunks))
    print(name, "ok")
