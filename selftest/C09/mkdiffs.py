"""build the mutation diffs of selftest/C09 from (file, old text, new text) triples; never touches /repo"""
import difflib
from pathlib import Path

REPO = Path("/repo")
OUT = Path(__file__).resolve().parent
MUTS = {
    # 1. swapped argument / extra call: the exclusion test now looks at the resolved path, so even `.` from inside a project
    #    that lives under build/ reports nothing
    "m1_exclusion_on_resolved_path": [("src/orchestrator/core.py",
        "        if _is_hardcoded_excluded(self._path_inside_project(file_path)):\n            return []\n\n        if self.ignore_parser",
        "        if _is_hardcoded_excluded(file_path.resolve()):\n            return []\n\n        if self.ignore_parser")],
    # 2. dropped branch: repo-level ignore patterns are never re-rooted (absolute targets stop honouring `src/*`)
    "m2_ignore_never_rerooted": [("src/linter_config/ignore.py",
        "            check_path = str(file_path.relative_to(self.project_root))\n",
        "            check_path = str(file_path) if file_path.is_absolute() else str(file_path.relative_to(self.project_root))\n")],
    # 3. changed operator: Python test-file detection by substring of the whole path instead of the file name
    "m3_py_test_file_on_full_path": [("src/linters/magic_numbers/context_analyzer.py",
        "    return file_path.name.startswith(\"test_\") or \"_test.py\" in file_path.name\n",
        "    return \"test_\" in str(file_path) or \"_test.py\" in file_path.name\n")],
    # 4. wrong variable: the project root is searched from the working directory instead of the first target
    "m4_root_from_cwd": [("src/cli/utils.py",
        "    first_path = path_objs[0] if path_objs else Path.cwd()\n",
        "    first_path = Path.cwd() if path_objs else path_objs[0]\n")],
    # 5. changed operator: per-linter ignore entries must START the path (Rust linters), so `tests/` works for `.` but not for absolute targets
    "m5_ignored_path_startswith": [("src/core/linter_utils.py",
        "    return any(ignored in file_path for ignored in ignore_patterns)\n",
        "    return any(file_path.startswith(ignored) for ignored in ignore_patterns)\n")],
    # 6. walk yields absolute paths: relative spellings now behave like absolute ones (not shape-checked by the translator: the
    #    correspondence check alone has to catch it)
    "m6_walk_resolves_paths": [("src/orchestrator/core.py",
        "    root_path = Path(root)\n",
        "    root_path = Path(root).resolve()\n")],
    # 7. TypeScript test-file markers looked up in the lower-cased *parent directory* string only (dropped the file name):
    #    a.test.ts is no longer exempt anywhere, and the location dependence stays
    "m7_ts_markers_on_parent_dir": [("src/linters/print_statements/linter.py",
        "        path_str = str(file_path)\n        return any(\n            pattern in path_str\n            for pattern in [\".test.\", \".spec.\", \"test_\", \"_test.\", \"/tests/\", \"/test/\"]",
        "        path_str = str(Path(str(file_path)).parent) + \"/\"\n        return any(\n            pattern in path_str\n            for pattern in [\".test.\", \".spec.\", \"test_\", \"_test.\", \"/tests/\", \"/test/\"]")],
}

for name, edits in MUTS.items():
    chunks = []
    for rel, old, new in edits:
        src = (REPO / rel).read_text()
        assert src.count(old) == 1, (name, rel, src.count(old))
        dst = src.replace(old, new)
        chunks.append("".join(difflib.unified_diff(src.splitlines(True), dst.splitlines(True), "a/" + rel, "b/" + rel)))
    (OUT / f"{name}.diff").write_text("".join(chunks))
    print(name, "ok")
