"""ad-hoc probe used while building the C09 check (not part of the check)"""
import json
import sys
from pathlib import Path

sys.path.insert(0, "/verif")
from harness.common import parse_json_violations, run_cli, scratch_dir  # noqa: E402

FILES = {
    ".thailint.yaml": "magic-numbers:\n  enabled: true\n",
    "src/a.py": "def f(x):\n    print(x)\n    return x * 4242\n",
    "src/b.ts": "function f(x: number): number {\n  console.log(x);\n  return x * 4242;\n}\n",
    "src/c.rs": "fn f() -> i32 {\n    let v = foo().unwrap();\n    v * 4242\n}\n",
    "tests/b.ts": "function f(x: number): number {\n  console.log(x);\n  return x * 4242;\n}\n",
    "tests/c.rs": "fn f() -> i32 {\n    let v = foo().unwrap();\n    v * 4242\n}\n",
}


def mk(root: Path, files=FILES):
    for rel, txt in files.items():
        p = root / rel
        p.parent.mkdir(parents=True, exist_ok=True)
        p.write_text(txt)


def show(cmd, args, cwd, home):
    rc, so, se = run_cli([cmd, "--format", "json", *args], cwd=cwd, home=home)
    vs = parse_json_violations(so)
    if vs is None:
        return f"rc={rc} RAW {so[:200]} ERR {se[-300:]}"
    return f"rc={rc} " + str(sorted((v["rule_id"], v["file_path"], v["line"]) for v in vs))


if __name__ == "__main__":
    cmds = sys.argv[1:] or ["magic-numbers"]
    with scratch_dir("tv-c09p-") as d:
        home = d / "home"
        home.mkdir()
        for par in ["ok", "build", "tests", "test_data"]:
            mk(d / par / "proj")
        for cmd in cmds:
            for par in ["ok", "build", "tests", "test_data"]:
                P = d / par / "proj"
                print(f"== {cmd} {par} abs      ", show(cmd, [str(P)], home, home))
                print(f"== {cmd} {par} dot      ", show(cmd, ["."], P, home))
                print(f"== {cmd} {par} rel-gp   ", show(cmd, [f"{par}/proj"], d, home))
                print(f"== {cmd} {par} rel-par  ", show(cmd, ["proj"], d / par, home))
                print(f"== {cmd} {par} absfile  ", show(cmd, [str(P / "tests" / "b.ts"), str(P / "src" / "a.py")], home, home))
                print(f"== {cmd} {par} relfile  ", show(cmd, ["tests/b.ts", "src/a.py"], P, home))
