"""ad-hoc probe: which commands honour a configured per-linter ignore list"""
import sys
sys.path.insert(0, "/verif")
from harness.common import scratch_dir
from selftest.C09.probe import mk, show
from selftest.C09.probe3 import PY, TS, RS
CFG = '''nesting:
  max_nesting_depth: 2
  ignore: ["lib/"]
srp:
  max_methods: 1
  ignore: ["lib/"]
magic-numbers:
  ignore: ["lib/"]
print-statements:
  ignore: ["lib/"]
method-property:
  ignore: ["lib/"]
stateless-class:
  ignore: ["lib/"]
unwrap-abuse:
  ignore: ["lib/"]
clone-abuse:
  ignore: ["lib/"]
blocking-async:
  ignore: ["lib/"]
'''
FILES = {".thailint.yaml": CFG, "src/mod.py": PY, "src/mod.ts": TS, "src/lib.rs": RS, "lib/mod.py": PY, "lib/mod.ts": TS, "lib/lib.rs": RS,
         "tests/lib.rs": RS}
CMDS = ["magic-numbers", "print-statements", "nesting", "srp", "unwrap-abuse", "clone-abuse", "blocking-async", "method-property", "stateless-class"]
with scratch_dir("tv-c09p-") as d:
    home = d / "home"; home.mkdir()
    P = d / "ok" / "proj"
    mk(P, FILES)
    for cmd in CMDS:
        print(f"== {cmd}: ", show(cmd, [str(P)], home, home).replace(str(P) + "/", ""))
