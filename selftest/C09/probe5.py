import sys
sys.path.insert(0, "/verif")
from harness.common import scratch_dir, run_cli
from selftest.C09.probe import mk, show
from selftest.C09.probe3 import PY, TS, RS
CFG = '''file-placement:
  directories:
    src:
      deny:
        - pattern: ".*"
          reason: "no files here"
    "lib/":
      deny:
        - pattern: ".*"
          reason: "no files here"
'''
FILES = {".thailint.yaml": CFG, "src/mod.py": PY, "src/mod.ts": TS, "lib/lib.rs": RS, "srcx/a.py": PY, "top.py": PY}
with scratch_dir("tv-c09p-") as d:
    home = d / "home"; home.mkdir()
    P = d / "ok" / "proj"
    mk(P, FILES)
    print("abs ", show("file-placement", [str(P)], home, home).replace(str(P) + "/", ""))
    print("dot ", show("file-placement", ["."], P, home))
    print("rel ", show("file-placement", ["proj"], P.parent, home))
    print("relf ", show("file-placement", ["src/mod.py", "top.py"], P, home))
    rc, so, se = run_cli(["file-placement", "--format", "json", str(P)], cwd=home, home=home)
    print(so[:600])
