"""ad-hoc probe: which commands report what on the candidate templates"""
import sys

sys.path.insert(0, "/verif")
from harness.common import scratch_dir  # noqa: E402
from selftest.C09.probe import mk, show  # noqa: E402

PY = '''class Helper:
    def get_value(self):
        return self._value


class Util:
    def alpha(self, x):
        return x + 1

    def beta(self, x):
        return x - 1


def compute(x, items):
    print(x)
    total = 4242 * x
    for a in items:
        if a:
            for b in a:
                if b:
                    total += 1
    return total
'''
TS = '''function compute(x: number): number {
  console.log(x);
  return x * 4242;
}
'''
RS = '''fn compute() -> i32 {
    let v = foo().unwrap();
    v * 4242
}

async fn load() {
    let s = std::fs::read_to_string("x");
}

fn dup(items: &Vec<String>) {
    for i in items {
        let c = i.clone();
    }
}
'''
CFG = '''nesting:
  max_nesting_depth: 2
srp:
  max_methods: 1
dry:
  enabled: true
  min_duplicate_lines: 3
  cache_enabled: false
'''
FILES = {".thailint.yaml": CFG, "src/mod.py": PY, "src/mod.ts": TS, "src/lib.rs": RS, "lib/mod.py": PY, "lib/mod.ts": TS, "lib/lib.rs": RS}
CMDS = ["magic-numbers", "print-statements", "nesting", "srp", "unwrap-abuse", "clone-abuse", "blocking-async", "method-property",
        "stateless-class", "dry", "file-placement", "stringly-typed", "cqs", "pipeline", "perf", "lbyl", "file-header", "lazy-ignores"]

if __name__ == "__main__":
    cmds = sys.argv[1:] or CMDS
    with scratch_dir("tv-c09p-") as d:
        home = d / "home"
        home.mkdir()
        P = d / "ok" / "proj"
        mk(P, FILES)
        for cmd in cmds:
            print(f"== {cmd}: ", show(cmd, [str(P)], home, home).replace(str(P) + "/", ""))
        import os
        print(sorted(os.listdir(P)))
