"""ad-hoc probe: does the working directory's own ignore file influence the result?"""
import sys

sys.path.insert(0, "/verif")
from harness.common import scratch_dir  # noqa: E402
from selftest.C09.probe import mk, show  # noqa: E402

if __name__ == "__main__":
    cmds = sys.argv[1:] or ["magic-numbers"]
    with scratch_dir("tv-c09p-") as d:
        home = d / "home"
        home.mkdir()
        P = d / "ok" / "proj"
        mk(P)
        Q = d / "other"
        Q.mkdir()
        (Q / ".thailintignore").write_text("*.py\n")
        Q2 = d / "other2"
        Q2.mkdir()
        (Q2 / ".thailint.yaml").write_text("ignore:\n  - '*.ts'\nmagic-numbers:\n  allowed_numbers: [4242]\n")
        for cmd in cmds:
            print(f"== {cmd} abs from home   ", show(cmd, [str(P)], home, home))
            print(f"== {cmd} abs from Q(.thailintignore *.py)  ", show(cmd, [str(P)], Q, home))
            print(f"== {cmd} abs from Q2(.thailint.yaml ignore *.ts, allowed 4242)  ", show(cmd, [str(P)], Q2, home))
            print(f"== {cmd} rel from Q   ", show(cmd, ["../ok/proj"], Q, home))
