#!/bin/bash
# selftest/C11/run.sh <name-of-diff-without-.diff> : like tools/trymut_wt.sh, but keeps the replay files under /tmp/c11-selftest/<name>
name="$1"; patch="/verif/selftest/C11/$name.diff"
id=$$; wt=/tmp/wt-mut-$id; cq=/tmp/coq-mut-$id; out=/tmp/c11-selftest/$name
rm -rf "$out"; mkdir -p "$out"
git -C /repo worktree add --detach -q "$wt" HEAD || exit 9
( cd "$wt" && git apply "$patch" ) || { echo "patch does not apply"; git -C /repo worktree remove --force "$wt"; exit 9; }
cp -a /verif/coq "$cq"
( cd /verif && VERIF_REPO="$wt" VERIF_COQ_DIR="$cq" VERIF_OUT_DIR="$out" ./check C11 2>&1 | grep -v "^KNOWN-FINDING" | cut -c1-300 | tail -4 )
git -C /repo worktree remove --force "$wt"; rm -rf "$cq"
python3 - "$out" <<'PY'
import json,sys,glob
for r in glob.glob(sys.argv[1]+'/replays/*.json'):
    d=json.load(open(r))
    vs=[d.get('violation') or {}]+d.get('other_violations',[])
    for v in vs[:6]:
        c=v.get('case') or {}
        print('  violation:', str(v.get('reason') or d.get('note'))[:150], '|', v.get('key'), '|', c.get('part'), c.get('id'), c.get('kind'), c.get('name'))
    for b in (d.get('broken_obligations') or d.get('no_longer_checks') or [])[:3]: print('  broken:', b[:160])
PY
