"""Coq side of the harness: regenerate Gen/, build the proof cone, evaluate cases with vm_compute.

Build state lives in /verif/coq (ignored by git); concurrent checks serialise on a flock.
Every coqc/make invocation runs under a shell timeout.
"""
from __future__ import annotations

import fcntl
import json
import os
import re
import subprocess
import sys
from concurrent.futures import ThreadPoolExecutor
from pathlib import Path

from harness.common import NPROC, VERIF

import os as _os
COQ = Path(_os.environ.get("VERIF_COQ_DIR") or (VERIF / "coq"))
TH = COQ / "theories"
LOCK = COQ / ".build.lock"
THEOREM_RE = re.compile(r"^\s*(Theorem|Lemma|Corollary|Example|Fact|Proposition)\s+([A-Za-z0-9_']+)", re.M)
FORBIDDEN_RE = re.compile(
    r"\b(Admitted|admit|Axiom|Axioms|Parameter|Parameters|Conjecture|Admit Obligations|Unset Guard Checking|"
    r"bypass_check|Unset Positivity Checking|Unset Universe Checking|type-in-type|impredicative-set|native_compute)\b")


def _strip_comments(text: str) -> str:
    out, depth, i = [], 0, 0
    while i < len(text):
        if text.startswith("(*", i):
            depth += 1
            i += 2
        elif text.startswith("*)", i) and depth:
            depth -= 1
            i += 2
        else:
            if not depth:
                out.append(text[i])
            i += 1
    return "".join(out)


def forbidden_scan(files: list[str] | None = None) -> list[str]:
    """grep gate: no Admitted/admit/Axiom/Parameter/... in the given files (default: the whole development)"""
    hits = []
    for p in (sorted(TH.rglob("*.v")) if files is None else [COQ / f for f in files]):
        body = _strip_comments(p.read_text())
        # string literals may legitimately contain such words (rule names etc.)
        body = re.sub(r'"(?:[^"]|"")*"', '""', body)
        for m in FORBIDDEN_RE.finditer(body):
            hits.append(f"{p.relative_to(COQ)}: {m.group(0)}")
        if re.search(r"^\s*(Variable|Variables|Hypothesis|Hypotheses|Context)\b", body, re.M):
            # allowed only inside a Section: check crude nesting
            depth = 0
            for line in body.splitlines():
                if re.match(r"\s*Section\s", line):
                    depth += 1
                elif re.match(r"\s*End\s", line) and depth:
                    depth -= 1
                elif re.match(r"\s*(Variable|Variables|Hypothesis|Hypotheses|Context)\b", line) and depth == 0:
                    hits.append(f"{p.relative_to(COQ)}: {line.strip()} outside a section")
    return hits


def write_coqproject() -> None:
    files = sorted(str(p.relative_to(COQ)) for p in TH.rglob("*.v"))
    text = "-Q theories TL\n-arg -w -arg -notation-overridden,-deprecated-hint-without-locality,-deprecated-instance-without-locality\n" + "\n".join(files) + "\n"
    cp = COQ / "_CoqProject"
    if not cp.exists() or cp.read_text() != text:
        cp.write_text(text)
        subprocess.run(["coq_makefile", "-f", "_CoqProject", "-o", "Makefile"], cwd=COQ, capture_output=True, timeout=120)
    elif not (COQ / "Makefile").exists():
        subprocess.run(["coq_makefile", "-f", "_CoqProject", "-o", "Makefile"], cwd=COQ, capture_output=True, timeout=120)


def cone(target_v: str) -> list[str]:
    """the .v files (relative to coq/) that target_v transitively depends on, itself included"""
    seen, todo = [], [target_v]
    while todo:
        f = todo.pop()
        if f in seen or not (COQ / f).exists():
            continue
        seen.append(f)
        text = _strip_comments((COQ / f).read_text())
        for m in re.finditer(r"(?:From\s+TL\s+)?Require\s+(?:Import\s+|Export\s+)?(.*?)\.(?=\s|$)", text, re.S):
            for mod in m.group(1).split():
                mod = mod[3:] if mod.startswith("TL.") else mod
                todo.append("theories/" + mod.replace(".", "/") + ".v")
    return sorted(seen)


def direct_deps(rel_v: str) -> list[str]:
    text = _strip_comments((COQ / rel_v).read_text())
    out = []
    for m in re.finditer(r"(?:From\s+TL\s+)?Require\s+(?:Import\s+|Export\s+)?(.*?)\.(?=\s|$)", text, re.S):
        for mod in m.group(1).split():
            mod = mod[3:] if mod.startswith("TL.") else mod
            f = "theories/" + mod.replace(".", "/") + ".v"
            if (COQ / f).exists():
                out.append(f)
    return out


def theorems_in(rel_v: str) -> list[str]:
    return [n for n, _ in theorems_with_lines(rel_v)]


def theorems_with_lines(rel_v: str) -> list[tuple[str, int]]:
    text = (COQ / rel_v).read_text()
    # keep line numbers: blank out comments instead of deleting them
    out, depth, i, buf = [], 0, 0, []
    while i < len(text):
        if text.startswith("(*", i):
            depth += 1
            buf.append("  ")
            i += 2
        elif text.startswith("*)", i) and depth:
            depth -= 1
            buf.append("  ")
            i += 2
        else:
            buf.append(text[i] if (not depth or text[i] == "\n") else " ")
            i += 1
    clean = "".join(buf)
    for m in THEOREM_RE.finditer(clean):
        out.append((m.group(2), clean.count("\n", 0, m.start(2)) + 1))
    return out


class BuildResult:
    def __init__(self):
        self.gen_status: dict = {}
        self.failed: dict[str, str] = {}      # rel .v -> error text
        self.compiled: list[str] = []
        self.assumptions: dict[str, str] = {}  # theorem -> Print Assumptions text
        self.forbidden: list[str] = []
        self.log = ""

    def broken_gen_items(self, gen_files: list[str]) -> list[str]:
        out = []
        for gf, st in self.gen_status.get("files", {}).items():
            if gen_files and gf not in gen_files:
                continue
            for item, s in st["items"].items():
                if s != "ok":
                    out.append(f"Gen:{gf}.{item} ({s})")
        return out


def regen_and_build(targets_v: list[str], timeout: int = 1500) -> BuildResult:
    """regenerate Gen/ from /repo, then make the .vo of each target (full build of its cone)"""
    sys.path.insert(0, str(VERIF))
    from translator import run as trun
    res = BuildResult()
    COQ.mkdir(exist_ok=True)
    with open(LOCK, "w") as lk:
        fcntl.flock(lk, fcntl.LOCK_EX)
        res.gen_status = trun.generate()
        write_coqproject()
        scan = set()
        for t in targets_v:
            scan.update(cone(t))
        res.forbidden = forbidden_scan(sorted(scan))
        vos = [t[:-2] + ".vo" for t in targets_v]
        p = subprocess.run(["timeout", str(timeout), "make", "-k", f"-j{NPROC}", *vos], cwd=COQ, capture_output=True, text=True)
        res.log = p.stdout + p.stderr
        files = set()
        for t in targets_v:
            files.update(cone(t))
        # a file is discharged iff coqc accepted it in this state: its .vo is newer than its source and than the
        # .vo of every dependency, no error was logged for it, and every dependency is discharged
        status: dict[str, str] = {}

        def check(f: str) -> str:
            if f in status:
                return status[f]
            status[f] = "ok"  # cycle guard
            why = ""
            for d in direct_deps(f):
                if check(d) != "ok":
                    why = f"not built: dependency {d} failed"
                    break
            if not why:
                vo = COQ / (f[:-2] + ".vo")
                m = re.search(r'File "\./' + re.escape(f) + r'", line (\d+)[^\n]*\n((?:.|\n)*?)(?=\nmake|\nFile|\Z)', res.log)
                if m and "Error" in m.group(2):
                    why = f"line {m.group(1)}: {m.group(2).strip()[:600]}"
                elif not vo.exists():
                    why = "no .vo produced (timeout?)"
                else:
                    t = vo.stat().st_mtime
                    if t < (COQ / f).stat().st_mtime or any(t < (COQ / (d[:-2] + ".vo")).stat().st_mtime for d in direct_deps(f)):
                        why = "stale .vo (not rebuilt)"
            status[f] = why or "ok"
            return status[f]

        for f in sorted(files):
            if check(f) == "ok":
                res.compiled.append(f)
            else:
                res.failed[f] = status[f]
    return res


def capture_assumptions(props_v: str, timeout: int = 600) -> dict[str, str]:
    """compile a Props file alone (dependencies are built) and parse its Print Assumptions output"""
    import tempfile
    with tempfile.TemporaryDirectory(prefix="tv-pa-") as td:
        p = subprocess.run(["timeout", str(timeout), "coqc", "-Q", "theories", "TL", "-w", "-notation-overridden", props_v,
                            "-o", str(Path(td) / (Path(props_v).stem + ".vo"))], cwd=COQ, capture_output=True, text=True)
    out = p.stdout
    names = [m.group(1) for m in re.finditer(r"Print Assumptions\s+([A-Za-z0-9_']+)", _strip_comments((COQ / props_v).read_text()))]
    blocks = re.split(r"(?=Closed under the global context|Axioms:)", out)
    blocks = [b.strip() for b in blocks if b.strip()]
    res = {}
    for n, b in zip(names, blocks):
        res[n] = b
    return res


def run_coqchk(props_v: str, timeout: int = 1800):
    """re-check the compiled property file and everything it depends on with the independent checker;
    -o prints the axioms the loaded libraries rely on"""
    mod = "TL." + props_v.replace("theories/", "")[:-2].replace("/", ".")
    p = subprocess.run(["timeout", str(timeout), "coqchk", "-silent", "-o", "-Q", "theories", "TL", mod],
                       cwd=COQ, capture_output=True, text=True)
    out = (p.stdout + p.stderr).strip()
    return p.returncode == 0, out


# ------------------------------------------------------------------ evaluation of cases
def coq_string(s: str) -> str:
    b = s.encode("utf-8")
    if all(32 <= c < 127 for c in b):
        return '"' + s.replace('"', '""') + '"'
    return "(bytes_to_string [" + ";".join(str(c) for c in b) + "])"


def coq_list(items) -> str:
    return "[" + "; ".join(items) + "]"


def coq_bool(b: bool) -> str:
    return "true" if b else "false"


def coq_option(x, f=str) -> str:
    return "None" if x is None else f"(Some {f(x)})"


def _run_shard(args):
    path, timeout = args
    p = subprocess.run(["timeout", str(timeout), "coqc", "-Q", str(TH), "TL", "-w", "-notation-overridden,-abstract-large-number",
                        str(path)], capture_output=True, text=True, cwd=str(path.parent))
    return p.returncode, p.stdout, p.stderr


def parse_nat_lists(out: str) -> list:
    """every `= <term> : <type>` block printed by Eval, parsed as nested lists of naturals"""
    res = []
    for m in re.finditer(r"^\s*=\s((?:.|\n)*?)\n\s*:\s", out, re.M):
        txt = m.group(1)
        txt = re.sub(r"%\w+", "", txt)
        txt = txt.replace(";", ",").replace("(", "[").replace(")", "]")
        txt = txt.replace("true", "1").replace("false", "0")
        try:
            res.append(json.loads(txt))
        except json.JSONDecodeError as e:
            raise RuntimeError(f"cannot parse Coq output: {txt[:300]}") from e
    return res


def eval_shards(workdir: Path, header: str, shards: list[str], timeout: int = 600) -> list[list]:
    """each shard is Coq text containing Eval commands; returns per shard the parsed outputs"""
    workdir.mkdir(parents=True, exist_ok=True)
    jobs = []
    for i, body in enumerate(shards):
        p = workdir / f"cases_{i}.v"
        p.write_text(header + "\n" + body + "\n")
        jobs.append((p, timeout))
    with ThreadPoolExecutor(max_workers=NPROC) as ex:
        outs = list(ex.map(_run_shard, jobs))
    results = []
    for (rc, so, se), (p, _) in zip(outs, jobs):
        if rc != 0:
            raise RuntimeError(f"coqc failed on {p.name} (rc={rc}): {se[-1500:]}")
        results.append(parse_nat_lists(so))
    return results
