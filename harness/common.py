"""Shared harness facilities: paths, scratch space, seeded randomness, implementation runners.

The harness runs under /venv/bin/python with PYTHONPATH=/repo so that `import src` is the
working tree of /repo.  Nothing here writes under /repo or keeps state under /tmp that a
registered command needs.
"""
from __future__ import annotations

import contextlib
import hashlib
import json
import logging
import os
import random
import shutil
import subprocess
import sys
import tempfile
import time
from pathlib import Path

VERIF = Path(__file__).resolve().parent.parent
REPO = Path(os.environ.get("VERIF_REPO", "/repo"))
PY = "/venv/bin/python"
HOOK_GUARD = "THAILINT_VERIF"
NPROC = min(16, os.cpu_count() or 4)


def ensure_repo_on_path() -> None:
    if str(REPO) not in sys.path:
        sys.path.insert(0, str(REPO))
    os.environ["PYTHONPATH"] = str(REPO)
    os.environ.setdefault("PYTHONHASHSEED", "0")


def seed_from_env() -> int:
    try:
        return int(os.environ.get("VERIF_SEED", "20261001"))
    except ValueError:
        return 20261001


def rng_for(seed: int, *tags) -> random.Random:
    h = hashlib.sha256(("|".join([str(seed), *map(str, tags)])).encode()).digest()
    return random.Random(int.from_bytes(h[:8], "big"))


@contextlib.contextmanager
def scratch_dir(prefix: str = "tv-"):
    base = "/dev/shm" if os.path.isdir("/dev/shm") and os.access("/dev/shm", os.W_OK) else tempfile.gettempdir()
    d = Path(tempfile.mkdtemp(prefix=prefix, dir=base))
    try:
        yield d
    finally:
        shutil.rmtree(d, ignore_errors=True)


def clean_env(home: Path) -> dict:
    env = {k: v for k, v in os.environ.items() if not k.startswith("CONDA")}
    env.update({
        "PYTHONPATH": str(REPO), "PYTHONHASHSEED": os.environ.get("PYTHONHASHSEED", "0"), "HOME": str(home),
        "XDG_CONFIG_HOME": str(home / ".config"), "NO_COLOR": "1", "PYTHONDONTWRITEBYTECODE": "1",
        "PIP_NO_INDEX": "1", HOOK_GUARD: "1",
    })
    return env


def run_cli(args: list[str], cwd: Path, home: Path | None = None, timeout: float = 120, env_extra: dict | None = None):
    """run `thailint <args>` from the working tree; returns (exit, stdout, stderr)"""
    home = home or cwd
    env = clean_env(home)
    if env_extra:
        env.update(env_extra)
    # a run that times out on a busy machine gets one patient retry (3x the time) before it counts as a hang (rc 124)
    for attempt, limit in enumerate((timeout, timeout * 3)):
        try:
            p = subprocess.run([PY, "-P", "-m", "src.cli_main", *args], cwd=str(cwd), env=env, capture_output=True, timeout=limit)
            return p.returncode, p.stdout.decode("utf-8", "replace"), p.stderr.decode("utf-8", "replace")
        except subprocess.TimeoutExpired as e:
            last = e
    return 124, (last.stdout or b"").decode("utf-8", "replace"), "TIMEOUT"


def parse_json_violations(stdout: str):
    """violations from `--format json` output; None when the output is not the expected document"""
    try:
        doc = json.loads(stdout)
    except json.JSONDecodeError:
        i = stdout.find("{")
        if i < 0:
            return None
        try:
            doc = json.loads(stdout[i:])
        except json.JSONDecodeError:
            return None
    if not isinstance(doc, dict) or "violations" not in doc:
        return None
    return doc["violations"]


# ------------------------------------------------------------------ in-process implementation
_failure_records: list[dict] = []


class _FailTap(logging.Handler):
    """records swallowed rule failures (logger.exception in the orchestrator) during in-process runs"""

    def emit(self, record):
        if record.levelno >= logging.ERROR:
            _failure_records.append({"msg": record.getMessage(), "exc": repr(record.exc_info[1]) if record.exc_info else None})


_tap_installed = False


def install_failure_tap():
    global _tap_installed
    if not _tap_installed:
        lg = logging.getLogger("src.orchestrator.core")
        lg.addHandler(_FailTap())
        lg.propagate = False
        _tap_installed = True


def drain_failures() -> list[dict]:
    out = list(_failure_records)
    _failure_records.clear()
    return out


def make_orchestrator(root: Path, config: dict):
    ensure_repo_on_path()
    install_failure_tap()
    from src.orchestrator.core import Orchestrator
    return Orchestrator(project_root=root, config=config)


def viol_tuple(v) -> dict:
    return {"rule_id": v.rule_id, "file": str(v.file_path), "line": v.line, "column": v.column, "message": v.message}


def pool_map(fn, items, procs: int | None = None, chunks: int | None = None):
    """fork-based parallel map preserving order (fn must be a module-level function)"""
    import multiprocessing as mp
    items = list(items)
    procs = min(procs or NPROC, max(1, len(items)))
    if procs <= 1 or len(items) <= 1:
        return [fn(x) for x in items]
    ctx = mp.get_context("fork")
    with ctx.Pool(procs) as pool:
        return pool.map(fn, items, chunksize=chunks or max(1, len(items) // (procs * 4)))


class Timer:
    def __init__(self):
        self.t0 = time.time()

    def s(self) -> float:
        return round(time.time() - self.t0, 2)
