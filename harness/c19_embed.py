"""C19 helpers: text-level embeddings of an example (contexts, copies, renaming), the image of a Python parse
tree as a Coq term (Model/Embed.v: ast), contexts as Coq terms (Model/Embed.v: ctx) and a seeded generator of
small Python fragments aimed at the two modelled detectors (print calls / string concatenation in loops)."""
from __future__ import annotations

import ast
import builtins
import io
import keyword
import re
import tokenize

from harness.coq import coq_list, coq_string

IND = 4


# ------------------------------------------------------------------ parse tree -> Coq term
def _is_ident_ascii(s: str) -> bool:
    return s.isascii()


class NonAscii(Exception):
    pass


def conv(n: ast.AST, role: str, pl: int, pc: int, bl: int = 0, bc: int = 0) -> str:
    """Node term for n; positions relative to the frame (bl, bc); position-less nodes take their parent's position"""
    l = getattr(n, "lineno", None)
    c = getattr(n, "col_offset", None)
    if l is None or c is None:
        l, c = pl, pc
    cls = type(n).__name__
    sval, ckind, extra = "", "", []
    if isinstance(n, ast.Constant):
        v = n.value
        ckind = type(v).__name__
        if isinstance(v, str) and len(v) <= 60 and v.isascii() and v.isprintable():
            sval = v
    else:
        first = True
        for f in n._fields:
            v = getattr(n, f, None)
            if isinstance(v, str):
                if not v.isascii():
                    raise NonAscii(v)
                if first:
                    sval, first = v, False
                else:
                    extra.append((f, v))
            elif isinstance(v, list) and v and all(isinstance(x, str) for x in v):
                for x in v:
                    if not x.isascii():
                        raise NonAscii(x)
                    extra.append((f, x))
    kids = [conv(k, f, l, c, bl, bc) for f, k in child_nodes(n)]
    kids += [f"N {coq_string(f)} \"@str\" {l - bl} {c - bc} {coq_string(x)} \"\" []" for f, x in extra]
    return f"N {coq_string(role)} {coq_string(cls)} {l - bl} {c - bc} {coq_string(sval)} {coq_string(ckind)} {coq_list(kids)}"


def child_nodes(n: ast.AST):
    """(field, child) in ast.iter_child_nodes order, expr_context nodes dropped"""
    for f in n._fields:
        v = getattr(n, f, None)
        if isinstance(v, ast.AST):
            if not isinstance(v, ast.expr_context):
                yield f, v
        elif isinstance(v, list):
            for x in v:
                if isinstance(x, ast.AST) and not isinstance(x, ast.expr_context):
                    yield f, x


def forest(text: str) -> str:
    """the module body of `text` as a Coq list of nodes"""
    mod = ast.parse(text)
    return coq_list(["(" + conv(st, "body", 0, 0) + ")" for st in mod.body])


def node_count(text: str) -> int:
    return sum(1 for _ in ast.walk(ast.parse(text)))


# ------------------------------------------------------------------ contexts (text level)
# ("hole",) | ("wrap", header lines, footer lines, inner) | ("seq", lines before, inner, lines after)
def hole():
    return ("hole",)


def wrap(header, inner, footer=()):
    return ("wrap", list(header), list(footer), inner)


def seq(pre, inner, post=()):
    return ("seq", list(pre), inner, list(post))


# primitive wrappers: (header lines, footer lines); the hole is one indentation level below the LAST header line's level
PRIM = {
    "fn": (["def _tv_wrap(_tv_a, _tv_b=None):"], []),
    "fn2": (["def _tv_inner(_tv_c):"], []),
    "afn": (["async def _tv_awrap(_tv_a):"], []),
    "cls": (["class _TvWrap:"], []),
    "cls2": (["class _TvInner:"], []),
    "holder": (["class _TvHolder:"], []),
    "meth": (["def _tv_method(self, _tv_a):"], []),
    "if": (["if _tv_mode == 'on':"], []),
    "nameif": (['if __name__ == "_tv_not_main_":'], []),
    "verboseif": (["if _tv_cfg.verbose:"], []),
    "elif": (["if _tv_mode == 'on':", "    _tv_skip()", "elif _tv_mode == 'off':"], []),
    "else": (["if _tv_mode == 'on':", "    _tv_skip()", "else:"], []),
    "for": (["for _tv_i in _tv_xs:"], []),
    "forelse": (["for _tv_i in _tv_xs:", "    _tv_skip(_tv_i)", "else:"], []),
    "while": (["while _tv_cond():"], []),
    "whileelse": (["while _tv_cond():", "    _tv_skip()", "else:"], []),
    "try": (["try:"], ["except _TvErr:", "    raise"]),
    "except": (["try:", "    _tv_skip()", "except _TvErr:"], []),
    "tryelse": (["try:", "    _tv_skip()", "except _TvErr:", "    raise", "else:"], []),
    "finally": (["try:", "    _tv_skip()", "finally:"], []),
    "with": (["with _tv_cm() as _tv_h:"], []),
    "match": (["match _tv_mode:"], []),
    "case": (["case 'on':"], []),
    "asyncfor": (["async for _tv_i in _tv_src():"], []),
    "asyncwith": (["async with _tv_cm() as _tv_h:"], []),
}
# every statement position CPython has, as one context class each (outermost primitive first)
PY_LAYERS = {
    "InFn": ["fn"], "InAsyncFn": ["afn"], "InNestedFn": ["fn", "fn2"], "InMethod": ["holder", "meth"],
    "InClassBody": ["cls"], "InClassInClass": ["cls", "cls2"],
    "InIf": ["if"], "InNameIf": ["nameif"], "InElif": ["elif"], "InElse": ["else"],
    "InFor": ["for"], "InForElse": ["forelse"], "InWhile": ["while"], "InWhileElse": ["whileelse"],
    "InTry": ["try"], "InExcept": ["except"], "InTryElse": ["tryelse"], "InFinally": ["finally"],
    "InWith": ["with"], "InMatchCase": ["match", "case"],
    "InAsyncFor": ["afn", "asyncfor"], "InAsyncWith": ["afn", "asyncwith"],
}
# wrappers that are legitimately not neutral for one rule: applied only where a corpus file asks for them
CORPUS_ONLY_LAYERS = {"InVerboseIf": ["verboseif"]}
LOOP_CLASSES = ("InFor", "InWhile", "InAsyncFor", "InDoWhile", "InForElse", "InWhileElse")   # a loop statement around a fragment (body or else clause) is not neutral for loop rules
CLASS_BODY_CLASSES = ("InClassBody", "InClassInClass")

TS_PRIM = {
    "fn": (["function _tvWrap(_tvA) {"], ["}"]),
    "arrow": (["const _tvCb = (_tvA) => {"], ["};"]),
    "holder": (["class _TvHolder {"], ["}"]),
    "meth": (["_tvMethod(_tvA) {"], ["}"]),
    "if": (["if (_tvMode === 'on') {"], ["}"]),
    "else": (["if (_tvMode === 'on') {", "    _tvSkip();", "} else {"], ["}"]),
    "for": (["for (const _tvI of _tvXs) {"], ["}"]),
    "while": (["while (_tvCond()) {"], ["}"]),
    "dowhile": (["do {"], ["} while (_tvCond());"]),
    "try": (["try {"], ["} catch (_tvE) {", "    throw _tvE;", "}"]),
    "catch": (["try {", "    _tvSkip();", "} catch (_tvE) {"], ["}"]),
    "finally": (["try {", "    _tvSkip();", "} finally {"], ["}"]),
    "switch": (["switch (_tvMode) {"], ["}"]),
    "case": (["case 'on': {"], ["}"]),
    "namespace": (["namespace _TvNs {"], ["}"]),
}
TS_LAYERS = {
    "InFn": ["fn"], "InArrow": ["arrow"], "InMethod": ["holder", "meth"], "InIf": ["if"], "InElse": ["else"],
    "InFor": ["for"], "InWhile": ["while"], "InDoWhile": ["dowhile"], "InTry": ["try"], "InCatch": ["catch"],
    "InFinally": ["finally"], "InSwitchCase": ["switch", "case"], "InNamespace": ["namespace"],
}


def layer(name, inner, lang="py"):
    layers, prim = ({**PY_LAYERS, **CORPUS_ONLY_LAYERS}, PRIM) if lang == "py" else (TS_LAYERS, TS_PRIM)
    for p in reversed(layers[name]):
        h, f = prim[p]
        inner = wrap(h, inner, f)
    return inner


def render(ctx, body: list[str], indent: int = 0):
    """-> (lines, hole_line (1-based line of the first body line), hole_indent)"""
    pad = " " * indent
    if ctx[0] == "hole":
        return [(pad + b) if b.strip() else "" for b in body], 1, indent
    if ctx[0] == "wrap":
        _, header, footer, inner = ctx
        il, hl, hi = render(inner, body, indent + IND)
        return [pad + h for h in header] + il + [pad + f for f in footer], len(header) + hl, hi
    _, pre, inner, post = ctx
    il, hl, hi = render(inner, body, indent)
    return [pad + p if p.strip() else "" for p in pre] + il + [pad + p if p.strip() else "" for p in post], len(pre) + hl, hi


def wrapper_lines(ctx, h: int) -> tuple[set, dict]:
    """with a body of h lines: (1-based lines that belong to wrapper headers/footers, filler line ranges)"""
    lines, hl, _ = render(ctx, ["pass"] * h)
    wl, fill = set(), {}
    _collect(ctx, h, 0, wl, fill)
    return wl, fill


def _collect(ctx, h, base, wl, fill):
    """returns number of lines of this ctx rendered with an h-line body"""
    if ctx[0] == "hole":
        return h
    if ctx[0] == "wrap":
        _, header, footer, inner = ctx
        for i in range(len(header)):
            wl.add(base + i + 1)
        n = _collect(inner, h, base + len(header), wl, fill)
        for i in range(len(footer)):
            wl.add(base + len(header) + n + i + 1)
        return len(header) + n + len(footer)
    _, pre, inner, post = ctx
    if pre:
        fill[(base + 1, base + len(pre))] = pre
    n = _collect(inner, h, base + len(pre), wl, fill)
    if post:
        fill[(base + len(pre) + n + 1, base + len(pre) + n + len(post))] = post
    return len(pre) + n + len(post)


def ctx_to_coq(ctx, h: int) -> str:
    """the context as a Model/Embed.v term, read off the parse of the context rendered around h placeholder lines"""
    lines, hl, hi = render(ctx, ["pass"] * h)
    mod = ast.parse("\n".join(lines) + "\n")
    lo, hi_l = hl, hl + h - 1

    hole_role = []

    def in_hole(n):
        return isinstance(n, ast.Pass) and lo <= n.lineno <= hi_l

    def contains(n):      # by descent, not by position: match_case, withitem ... carry no position
        return not in_hole(n) and any(in_hole(x) for x in ast.walk(n))

    def nodes_term(ns, pl, pc, bl, bc, roles=None):
        return coq_list(["(" + conv(n, (roles[i] if roles else "body"), pl, pc, bl, bc) + ")" for i, n in enumerate(ns)])

    def mk_list(ns, roles, pl, pc, bl, bc):
        idx = [i for i, n in enumerate(ns) if in_hole(n)]
        if idx:
            a, b = idx[0], idx[-1] + 1
            if b - a != h:
                raise ValueError("placeholder run broken")
            pre, post = ns[:a], ns[b:]
            if not pre and not post and bl == lo - 1:
                return "Hole"
            return (f"(Seq {nodes_term(pre, pl, pc, bl, bc, roles[:a])} {lo - 1 - bl} Hole "
                    f"{nodes_term(post, pl, pc, bl, bc, roles[b:])})")
        ws = [i for i, n in enumerate(ns) if contains(n)]
        if len(ws) != 1:
            raise ValueError("hole not found")
        a = ws[0]
        inner = mk_wrap(ns[a], roles[a], pl, pc, bl, bc)
        if a == 0 and len(ns) == 1:
            return inner
        return (f"(Seq {nodes_term(ns[:a], pl, pc, bl, bc, roles[:a])} 0 {inner} "
                f"{nodes_term(ns[a + 1:], pl, pc, bl, bc, roles[a + 1:])})")

    def mk_wrap(w, role, pl, pc, bl, bc):
        kids = list(child_nodes(w))
        hit = [f for f, k in kids if in_hole(k) or contains(k)]
        if not hit:
            raise ValueError("hole not under wrapper")
        f0 = hit[0]
        hole_role.append(f0)
        a = min(i for i, (f, _) in enumerate(kids) if f == f0)
        b = max(i for i, (f, _) in enumerate(kids) if f == f0) + 1
        region = [k for _, k in kids[a:b]]
        wl, wc = getattr(w, "lineno", pl), getattr(w, "col_offset", pc)
        nbl, nbc = getattr(region[0], "lineno", wl) - 1, getattr(region[0], "col_offset", wc)
        info = conv_info(w, role, bl, bc, wl, wc)
        pre = coq_list(["(" + conv(k, f, wl, wc, bl, bc) + ")" for f, k in kids[:a]])
        post_nodes = ["(" + conv(k, f, wl, wc, bl, bc) + ")" for f, k in kids[b:]]
        post_nodes += _extra_terms(w, wl, wc, bl, bc)
        return (f"(Wrap ({info}) {pre} {coq_list(post_nodes)} {nbl - bl} {nbc - bc} "
                f"{mk_list(region, [f0] * len(region), wl, wc, nbl, nbc)})")

    return mk_list(list(mod.body), ["body"] * len(mod.body), 0, 0, 0, 0), (hole_role[-1] if hole_role else "body")


def conv_info(n, role, bl, bc, l=None, c=None) -> str:
    sval = ""
    for f in n._fields:
        v = getattr(n, f, None)
        if isinstance(v, str):
            sval = v
            break
    l = n.lineno if l is None else l
    c = n.col_offset if c is None else c
    return f"I {coq_string(role)} {coq_string(type(n).__name__)} {l - bl} {c - bc} {coq_string(sval)} \"\""


def _extra_terms(n, l, c, bl, bc):
    out, first = [], True
    for f in n._fields:
        v = getattr(n, f, None)
        if isinstance(v, str):
            if first:
                first = False
            else:
                out.append(f"(N {coq_string(f)} \"@str\" {l - bl} {c - bc} {coq_string(v)} \"\" [])")
    return out


# ------------------------------------------------------------------ renaming
_BUILTINS = set(dir(builtins))


def rename_plan(text: str) -> dict:
    """old name -> new name for the identifiers the fragment itself binds (defs, classes, parameters, assigned names)"""
    tree = ast.parse(text)
    bound, imported = set(), set()
    for n in ast.walk(tree):
        if isinstance(n, (ast.FunctionDef, ast.AsyncFunctionDef, ast.ClassDef)):
            bound.add(n.name)
        elif isinstance(n, ast.arg):
            bound.add(n.arg)
        elif isinstance(n, ast.Name) and isinstance(n.ctx, (ast.Store, ast.Del)):
            bound.add(n.id)
        elif isinstance(n, (ast.Import, ast.ImportFrom)):
            for a in n.names:
                imported.add((a.asname or a.name).split(".")[0])
                imported.add(a.name.split(".")[-1])
            if isinstance(n, ast.ImportFrom) and n.module:
                imported.update(n.module.split("."))
    plan = {}
    for x in sorted(bound):
        if x in imported or x in ("self", "cls", "_") or x in _BUILTINS or keyword.iskeyword(x) or (x.startswith("__") and x.endswith("__")):
            continue
        if not x.isascii():
            continue
        plan[x] = x + ("_RN" if x.isupper() else ("Rn" if x[:1].isupper() else "_rn"))
    return {k: v for k, v in plan.items() if v not in bound}


# identifiers that linters are known to key on, embedded as prefix / infix / suffix, per identifier kind
RN_TOKENS = ["test", "Test", "mixin", "Mixin", "util", "Utils", "helper", "Helper", "manager", "Manager", "verbose", "debug", "log", "tmp"]
RN_KINDS = ["cls", "fn", "var"]
LETTERS = {"var": list("sqwzkjvugh"), "fn": list("qwzkjvughs"), "cls": list("QWZKJVUGH")}


def rename_classes() -> list[str]:
    out = [f"Rn:{k}:{p}:{t}" for k in RN_KINDS for p in ("pre", "in", "suf") for t in RN_TOKENS]
    out += [f"Rn:{k}:{p}:_" for k in RN_KINDS for p in ("pre", "suf")]
    out += [f"Rn:{k}:pre:__" for k in RN_KINDS] + ["Rn:fn:both:__", "Rn:var:both:__"]
    out += [f"Rn:{k}:whole:letter" for k in RN_KINDS] + ["Rn:var:whole:UPPER", "Rn:fn:whole:UPPER"]
    return out + ["Rename"]


import functools


@functools.lru_cache(maxsize=4096)
def bound_names(text: str) -> dict:
    """identifiers the fragment itself binds, by kind; plus every identifier-like string it mentions"""
    tree = ast.parse(text)
    cls, fn, var, imported, mentioned = set(), set(), set(), set(), set()
    for n in ast.walk(tree):
        if isinstance(n, ast.ClassDef):
            cls.add(n.name)
        elif isinstance(n, (ast.FunctionDef, ast.AsyncFunctionDef)):
            fn.add(n.name)
        elif isinstance(n, ast.arg):
            var.add(n.arg)
        elif isinstance(n, ast.Name):
            mentioned.add(n.id)
            if isinstance(n.ctx, (ast.Store, ast.Del)):
                var.add(n.id)
        elif isinstance(n, ast.Attribute):
            mentioned.add(n.attr)
        elif isinstance(n, ast.keyword) and n.arg:
            mentioned.add(n.arg)
        elif isinstance(n, (ast.Import, ast.ImportFrom)):
            for a in n.names:
                imported.add((a.asname or a.name).split(".")[0])
                imported.add(a.name.split(".")[-1])
            if isinstance(n, ast.ImportFrom) and n.module:
                imported.update(n.module.split("."))
    var -= cls | fn

    def ok(x):
        return not (x in imported or x in ("self", "cls", "_") or x in _BUILTINS or keyword.iskeyword(x)
                    or (x.startswith("__") and x.endswith("__")) or not x.isascii())
    return {"cls": sorted(x for x in cls if ok(x)), "fn": sorted(x for x in fn if ok(x)), "var": sorted(x for x in var if ok(x)),
            "all": cls | fn | var | mentioned | imported}


def _affix(old: str, kind: str, pos: str, tok: str, rank: int) -> str | None:
    lead = old[:len(old) - len(old.lstrip("_"))]
    core = old[len(lead):]
    if tok == "_":
        return "_" + old if pos == "pre" else old + "_"
    if tok == "__":
        if pos == "pre":
            return None if old.startswith("__") else "__" + core
        return "__" + core.strip("_") + "__"
    if tok == "letter":
        pool = LETTERS[kind]
        return pool[rank] if rank < len(pool) else None
    if tok == "UPPER":
        return old.upper() if old.upper() != old else None
    if kind == "cls":
        if pos == "pre":
            return lead + tok + core
        if pos == "suf":
            return old + tok
        cut = next((i for i in range(1, len(core)) if core[i].isupper()), max(1, len(core) // 2))
        return lead + core[:cut] + tok + core[cut:]
    if pos == "pre":
        return lead + tok + "_" + core
    if pos == "suf":
        return old + "_" + tok
    if "_" in core.strip("_"):
        i = core.index("_", 1)
        return lead + core[:i] + "_" + tok + core[i:]
    cut = max(1, len(core) // 2)
    return lead + core[:cut] + tok + core[cut:]


def spec_keeps(spec: dict, name: str, kind: str = "var") -> bool:
    """the identifier is one the document defines a pattern or an exemption by: it keeps its name"""
    low = name.lower()
    if low in spec.get("keep_exact_lower", ()) or any(t in low for t in spec.get("keep_contains_lower", ())):
        return True
    if kind == "fn":
        bare = name.lstrip("_")
        if any(bare.startswith(pfx) for pfx in spec.get("fn_forbid_prefixes", ())):
            return True
        if name in spec.get("fn_forbid_names", ()) or bare in spec.get("fn_forbid_names", ()):
            return True
    return False


def spec_forbids(spec: dict, kind: str, new: str) -> str | None:
    low = new.lower()
    if low in spec.get("forbid_exact_lower", ()):
        return f"`{new}` is one of the names the document defines the pattern by"
    for t in spec.get("forbid_contains_lower", ()):
        if t in low:
            return f"`{new}` contains `{t}`, by which the document defines the pattern"
    if kind == "fn":
        bare = new.lstrip("_")
        for pfx in spec.get("fn_forbid_prefixes", ()):
            if bare.startswith(pfx):
                return f"`{new}` starts with the documented excluded prefix `{pfx}`"
        if new in spec.get("fn_forbid_names", ()) or bare in spec.get("fn_forbid_names", ()):
            return f"`{new}` is a documented excluded method name"
        if spec.get("fn_forbid_dunder") and new.startswith("__") and new.endswith("__"):
            return f"`{new}` is a dunder method, a documented exclusion"
    return None


def rename_plan_for(text: str, cls: str, spec: dict):
    """-> (plan, None) or (None, why not).  `Rename` renames everything the fragment binds with a neutral suffix; the
    Rn:<kind>:<pos>:<token> classes rename the identifiers of one kind, embedding the token at the position."""
    b = bound_names(text)
    if cls == "Rename":
        todo = [(k, x) for k in RN_KINDS for x in b[k]]
        mk = lambda k, x, r: x + ("_RN" if x.isupper() else ("Rn" if x[:1].isupper() else "_rn"))   # noqa: E731
    else:
        _, kind, pos, tok = cls.split(":")
        todo = [(kind, x) for x in b[kind]]
        mk = lambda k, x, r: _affix(x, k, pos, tok, r)   # noqa: E731
    plan, taken, skipped = {}, set(b["all"]), "no identifier of that kind to rename"
    for rank, (k, x) in enumerate(todo):
        if spec_keeps(spec, x, k):
            skipped = f"`{x}` is part of the documented pattern and keeps its name"
            continue
        new = mk(k, x, rank)
        if new is None or new == x:
            continue
        if not new.isidentifier() or keyword.iskeyword(new) or new in _BUILTINS or new in taken or new in plan.values():
            skipped = f"`{new}` collides with an identifier in use"
            continue
        why = spec_forbids(spec, k, new)
        if why:
            skipped = "excluded by the documented name rules: " + why
            continue
        plan[x] = new
    if not plan:
        return None, skipped
    return plan, None


def rename_text(text: str, plan: dict):
    """-> (renamed text, colmap) where colmap[line] = sorted [(old col of a renamed token, growth)]"""
    lines = text.split("\n")
    per_line: dict[int, list] = {}
    for tok in tokenize.generate_tokens(io.StringIO(text).readline):
        if tok.type == tokenize.NAME and tok.string in plan and tok.start[0] == tok.end[0]:
            per_line.setdefault(tok.start[0], []).append((tok.start[1], tok.end[1], plan[tok.string]))
    colmap = {}
    for ln, toks in per_line.items():
        s = lines[ln - 1]
        for a, b, new in sorted(toks, reverse=True):
            s = s[:a] + new + s[b:]
        lines[ln - 1] = s
        colmap[ln] = sorted((a, len(new) - (b - a)) for a, b, new in toks)
    return "\n".join(lines), colmap


def col_after_rename(colmap: dict, line: int, col: int) -> int:
    return col + sum(g for a, g in colmap.get(line, []) if a < col)


def rename_message(msg: str, plan: dict) -> str:
    return re.sub(r"[A-Za-z_][A-Za-z0-9_]*", lambda m: plan.get(m.group(0), m.group(0)), msg)


# ------------------------------------------------------------------ fillers
FILLER_CLOSED = [
    "def _tv_helper(_tv_p, _tv_q=0):",
    "    _tv_acc = [_tv_p]",
    "    if _tv_q:",
    "        _tv_acc.append(_tv_q)",
    "    return _tv_acc",
    "",
    "",
    "class _TvRecord:",
    "    def __init__(self, _tv_v):",
    "        self._tv_v = _tv_v",
    "",
    "    def _tv_bump(self, _tv_d):",
    "        self._tv_v = self._tv_v + _tv_d",
    "        return self._tv_v",
    "",
    "",
]
FILLER_LOCAL_RE = [
    "def _tv_patterns(_tv_src):",
    "    import re as _tv_re",
    "    re = _tv_re.compile(_tv_src)",
    "    return re",
    "",
    "",
]
FILLER_OPEN = [
    "import os as _tv_os",
    "",
    "_tv_limit = _tv_os.environ.get('TV_LIMIT')",
    "_tv_names = sorted(_tv_os.environ)",
    "",
    "",
]


@functools.lru_cache(maxsize=8192)
def _names_filler(text: str, kind: str) -> tuple:
    return tuple(_names_filler_raw(text, kind))


def names_filler(text: str, kind: str) -> list[str]:
    return list(_names_filler(text, kind))


def _names_filler_raw(text: str, kind: str) -> list[str]:
    if kind == "class":      # an unrelated function that defines local test classes with the fragment's own class names
        tree = ast.parse(text)
        names = []
        for n in ast.walk(tree):
            if isinstance(n, ast.ClassDef) and n.name not in names and n.name.isascii():
                names.append(n.name)
        if not names:
            return []
        out = ["def _tv_other_class(_tv_p):"]
        for x in names[:4]:
            out += [f"    class {x}(_tv_p.TestCase):", "        pass", ""]
        out += ["    return _tv_p", "", ""]
        return out
    """an unrelated function that happens to use the fragment's own variable names as its locals"""
    tree = ast.parse(text)
    names = []
    for n in ast.walk(tree):
        if isinstance(n, ast.Name) and isinstance(n.ctx, ast.Store) and n.id not in names and n.id.isascii():
            names.append(n.id)
    names = [x for x in names if not keyword.iskeyword(x)][:6] or ["result"]
    val = {"list": "[]", "num": "0", "str": "''"}[kind]
    out = [f"def _tv_other_{kind}(_tv_p):"]
    for x in names:
        out.append(f"    {x} = {val}")
    out.append(f"    return _tv_p, {names[0]}")
    out += ["", ""]
    return out


# ------------------------------------------------------------------ generated fragments for the modelled detectors
VARS = ["result", "output", "msg", "text", "s", "acc", "total", "items", "buf", "line", "Data", "count", "parts", "name"]
VALS_STR = ['""', "''", 'f"{x}"', '"a" + x', "str(x)", 'f"<{x}>"']
VALS_OTHER = ["x", "x + y", "[x]", "1", "2.5", "True", "x.name", "fmt(x)", "x + 'k'", "(x)", "len(x)"]
INITS = ['""', "''", "[]", "{}", "set()", "0", "1.5", "None", 'f"{x}"', "x", "{1}", "True"]


LOG_CALLS = ["logger.debug(x)", "logger.info('got %s', x)", "log.warning(x)", "self.logger.error(x)", "logging.critical(x)", "logger.trace(x)",
             "debug(x)", "logger.log(10, x)", "y = logger.exception(x)", "fmt(logger.info(x))", "logger.debug"]
VERBOSE_HDRS = ["if verbose:", "if verbose:", "if self.verbose:", "if opts['debug']:", 'if ctx.obj.get("verbose"):', "if cfg.get('quiet'):",
                "if not verbose:", "if is_debug:", "if VERBOSE:", "if verbose and y:", "if opts[debug]:", "if cfg.get('debug', False):",
                "if cfg.fetch('verbose'):", "if get('verbose'):", "if self.Verbose:", "if opts['DEBUG']:", 'if ctx.get("Is_Debug"):', "if opts[0]:", "if Is_Verbose:", "while verbose:", "if verbosity:"]


REGEX_STMTS = ["re.match('a', x)", "m = re.search(p, x)", "pat.match(x)", "rx.sub('a', 'b', x)", "match(x)", "y = find('a', x)", "re.compile('a').match(x)",
               "y = re.findall(p, x)", "re.escape(x)", "fmt(re.split(',', x))", "x.re.match(y)", "rx.fullmatch(p, x)", "y = [re.subn(p, '', z) for z in x]",
               "import re", "import re as rx", "import os, re as rx", "from re import match", "from re import search as find, escape", "from rex import match",
               "pat = re.compile('a')", "pat: object = rx.compile('b')", "rx = rx.compile('b')", "re = rx.compile(p)", "pat = rex.compile('a')", "pat = compile('a')"]


def gen_fragment(r) -> str:
    """a small module: functions with loops, augmented assignments, prints, main blocks"""
    out = []
    for fi in range(r.randint(1, 3)):
        top = r.random() < 0.25
        pad = "" if top else "    "
        if not top:
            out.append(f"def f{fi}(xs, y=None):")
        body = []
        for _ in range(r.randint(1, 3)):
            body += _gen_block(r, 0)
        if r.random() < 0.5:
            body.append("print(xs)" if r.random() < 0.7 else "builtins.print(xs)")
        out += [pad + b for b in body]
        if not top:
            out.append(pad + "return y")
        out.append("")
    if r.random() < 0.4:
        out.append('if __name__ == "__main__":' if r.random() < 0.8 else r.choice(['if "__main__" == __name__:', 'if __name__ == "main":', 'if __name__ != "__main__":']))
        out.append("    print('run')")
        if r.random() < 0.5:
            out += ["    for a in range(3):", "        print(a)"]
        if r.random() < 0.3:
            out += ["else:", "    print('imported')"]
        out.append("")
    return "\n".join(out).rstrip("\n") + "\n"


def _gen_block(r, depth) -> list[str]:
    v = r.choice(VARS)
    k = r.random()
    if k < 0.25:
        ann = r.random() < 0.2
        return [f"{v}: str = {r.choice(INITS)}" if ann else f"{v} = {r.choice(INITS)}"]
    if k < 0.32:
        return [f"print({v})"]
    if k < 0.38:
        return [r.choice(LOG_CALLS)]
    if k < 0.45:
        return [r.choice(REGEX_STMTS)]
    if k < 0.52 or depth >= 3:
        return [f"{v} {r.choice(['+=', '+=', '+=', '-=', '*='])} {r.choice(VALS_STR + VALS_OTHER)}"]
    hdr = r.choice(["for x in xs:", "for x in xs:", "while y:", "if y:", "try:", "with y as x:", "async_for"] + [r.choice(VERBOSE_HDRS)] * 3)
    if hdr == "async_for":
        hdr = "for x, z in xs:"
    body = []
    for _ in range(r.randint(1, 3)):
        body += _gen_block(r, depth + 1)
    if r.random() < 0.6:
        body.append(f"{r.choice(VARS)} += {r.choice(VALS_STR + VALS_OTHER)}")
    if r.random() < 0.15:
        body.insert(0, r.choice(VARS) + " = " + r.choice(['""', 'f"{x}"', '[]']))
    out = [hdr] + ["    " + b for b in body]
    if hdr == "try:":
        out += ["except KeyError:", f"    {r.choice(VARS)} = ''", "finally:", "    pass"] if r.random() < 0.5 else ["except KeyError:", "    pass"]
    elif hdr == "if y:" and r.random() < 0.4:
        out += ["else:", f"    {r.choice(VARS)} = {r.choice(INITS)}"]
    elif hdr.startswith("if ") and r.random() < 0.4:
        out += r.choice([["else:", f"    {r.choice(LOG_CALLS)}"], ["elif debug:", f"    {r.choice(LOG_CALLS)}"], ["elif y:", "    pass", "else:", f"    {r.choice(LOG_CALLS)}"]])
    elif hdr.startswith("for") and r.random() < 0.15:
        out += ["else:", f"    {r.choice(VARS)} += 'z'"]
    return out
