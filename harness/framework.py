"""The decision procedure shared by all property checks (DESIGN.md section 5).

A property module builds a `Check`, registers proof obligations (from the Coq build), feeds it
judged cases and calls `finish()`, which prints KNOWN-FINDING / VIOLATION lines, writes the
evidence file and returns the exit status.
"""
from __future__ import annotations

import hashlib
import json
import time
from pathlib import Path

from harness import coq
from harness.common import REPO, VERIF

KNOWN_FILE = VERIF / "known_findings.json"
import os as _os
_OUT = Path(_os.environ.get("VERIF_OUT_DIR") or VERIF)
EVIDENCE = _OUT / "evidence"
REPLAYS = _OUT / "replays"
FP_EXPECTED = VERIF / "coq" / "Gen.expected" / "fingerprints.json"

TRUSTED_BASE_COMMON = [
    "Coq 8.16.1 kernel and its vm_compute machine (no native_compute); coqchk in the thorough tier",
    "translator/ (fail-closed Python-ast -> Coq tables/leaf predicates), re-run on every check",
    "harness generators, renderers, canonicaliser and the in-process/CLI implementation runner (correspondence check = differential testing, not proof)",
    "parsers and libraries are oracles: CPython ast, tree-sitter grammars, re, fnmatch, PyYAML/json/tomllib, click, the OS",
]


def load_known(prop_id: str) -> dict:
    data = json.loads(KNOWN_FILE.read_text()) if KNOWN_FILE.exists() else {"findings": []}
    out = {"known": {}, "fixed": {}}
    for f in data.get("findings", []):
        if f.get("property") != prop_id:
            continue
        if f.get("status") == "known":
            out["known"][f["key"]] = f
        elif str(f.get("status", "")).startswith("fixed"):
            out["fixed"][f["key"]] = f
    return out


def case_hash(obj) -> str:
    return hashlib.sha256(json.dumps(obj, sort_keys=True, default=str).encode()).hexdigest()[:16]


class Check:
    def __init__(self, prop_id: str, tier: str, seed: int, level: str = "proof"):
        self.id, self.tier, self.seed, self.level = prop_id, tier, seed, level
        self.t0 = time.time()
        self.known = load_known(prop_id)
        self.obligations: list[str] = []
        self.broken: list[str] = []           # proof / generated-layer obligations that no longer check
        self.corr_broken: list[dict] = []     # correspondence disagreements (model vs implementation)
        self.violations: list[dict] = []      # unexplained oracle failures (with replay payload)
        self.known_seen: dict[str, dict] = {}  # key -> first case
        self.evaluations = 0
        self.nontrivial_hashes: set[str] = set()
        self.samples: list = []
        self.distribution: dict = {}
        self.notes: list[str] = []
        self.assumptions: dict[str, str] = {}
        self.traces_validated = 0
        self.rule = ""
        self.extra_cov: dict = {}
        self.trusted_base = list(TRUSTED_BASE_COMMON)
        self.checker_cmd = ""
        self.fingerprint_changed: list[str] = []

    # ---------------------------------------------------------------- proof side
    def build(self, props_v: list[str], gen_files: list[str], known_v: list[str] | None = None) -> coq.BuildResult:
        """regenerate Gen/, build the cone of the property's Props files, register obligations.
        known_v: files holding only `_refuted` witnesses of listed findings; when one stops compiling the
        defect it witnesses is no longer reproduced by the model, which is recorded, not alarmed on."""
        known_v = known_v or []
        res = coq.regen_and_build(props_v + known_v)
        for kf in known_v:
            if kf in res.failed:
                self.notes.append(f"refutation file {kf} no longer checks ({res.failed[kf][:200]}): a listed finding is no longer reproduced by the model")
                del res.failed[kf]
            else:
                self.extra_cov.setdefault("refutation_theorems_checked", []).extend(coq.theorems_in(kf))
        self.checker_cmd = (f"cd /verif/coq && python3 ../translator/run.py && coq_makefile -f _CoqProject -o Makefile && "
                            f"make {' '.join(p[:-2] + '.vo' for p in props_v)}  (coqc 8.16.1, full .vo build)")
        for f in sorted(set().union(*[coq.cone(p) for p in props_v]) if props_v else []):
            names = coq.theorems_with_lines(f)
            fail_line = None
            if f in res.failed:
                import re as _re
                mm = _re.match(r"line (\d+):", res.failed[f])
                fail_line = int(mm.group(1)) if mm else 0
            for idx, (n, ln) in enumerate(names):
                ob = f"Thm:{f.replace('theories/', '')}:{n}"
                self.obligations.append(ob)
                if fail_line is None:
                    continue
                nxt = names[idx + 1][1] if idx + 1 < len(names) else 10 ** 9
                if fail_line and nxt <= fail_line:
                    continue  # coqc accepted this one before reaching the failing proof
                if fail_line and ln <= fail_line < nxt:
                    self.broken.append(f"{ob} [{res.failed[f][:300]}]")
                else:
                    self.broken.append(f"{ob} [not checked: {res.failed[f][:120]}]")
        for gf, st in res.gen_status.get("files", {}).items():
            if gf not in gen_files:
                continue
            for item, s in st["items"].items():
                ob = f"Gen:{gf}.{item}"
                self.obligations.append(ob)
                if s != "ok":
                    self.broken.append(f"{ob} [{s}]")
        for h in res.forbidden:
            self.broken.append(f"Gate:forbidden construct {h}")
        for p in props_v:
            if p in res.compiled:
                try:
                    self.assumptions.update(coq.capture_assumptions(p))
                except Exception as e:  # noqa: BLE001
                    self.notes.append(f"Print Assumptions capture failed for {p}: {e}")
        for name, txt in self.assumptions.items():
            if not txt.startswith("Closed under the global context"):
                self.notes.append(f"{name} depends on: {txt[:400]}")
        if self.tier == "thorough":
            for p in props_v:
                if p in res.compiled:
                    ok, txt = coq.run_coqchk(p)
                    self.extra_cov.setdefault("coqchk", {})[p] = txt[-1500:]
                    if not ok:
                        self.broken.append(f"Coqchk:{p} [independent checker rejected the compiled file: {txt[-300:]}]")
        # hand-modelled code whose source fingerprint changed => ask for a larger correspondence budget
        try:
            exp = json.loads(FP_EXPECTED.read_text()) if FP_EXPECTED.exists() else {}
        except json.JSONDecodeError:
            exp = {}
        mine = set()
        for gf, st in res.gen_status.get("files", {}).items():
            if gf in gen_files:
                mine.update(st.get("fingerprints", []))
        for k, v in res.gen_status.get("fingerprints", {}).items():
            if k in mine and k in exp and exp[k] != v:
                self.fingerprint_changed.append(k)
        self.build_result = res
        return res

    def budget_scale(self) -> int:
        """larger search when something no longer checks or hand-modelled source changed"""
        s = 1
        if self.fingerprint_changed:
            s = 3
        if self.broken:
            s = 4
        return s

    # ---------------------------------------------------------------- case side
    def count(self, case_obj, nontrivial: bool):
        self.evaluations += 1
        if nontrivial:
            self.nontrivial_hashes.add(case_hash(case_obj))

    def sample(self, obj, limit=5):
        if len(self.samples) < limit:
            self.samples.append(obj)

    def dist(self, key, n=1):
        self.distribution[key] = self.distribution.get(key, 0) + n

    def known_finding(self, key: str, case: dict):
        """an oracle failure fully explained by listed finding `key`"""
        if key in self.known["known"]:
            self.known_seen.setdefault(key, case)
        elif key in self.known["fixed"]:
            self.violation({"reason": f"finding {key} is recorded as fixed but was observed again", **case})
        else:
            self.violation({"reason": f"failure attributed to unlisted defect class {key}", **case})

    def violation(self, payload: dict):
        self.violations.append(payload)

    def correspondence_broken(self, payload: dict):
        self.corr_broken.append(payload)

    # ---------------------------------------------------------------- decision
    def finish(self) -> int:
        REPLAYS.mkdir(parents=True, exist_ok=True)
        EVIDENCE.mkdir(parents=True, exist_ok=True)
        rc = 0
        for key in sorted(self.known_seen):
            f = self.known["known"][key]
            print(f"KNOWN-FINDING: property={self.id} {key}: {f.get('what_fails', '')}")
        unseen = sorted(set(self.known["known"]) - set(self.known_seen))
        if unseen:
            self.notes.append("listed findings not observed in this run: " + ", ".join(unseen))
        if self.violations:
            rc = 1
            v = self.violations[0]
            path = REPLAYS / f"{self.id}-{self.seed}-{case_hash(v)}.json"
            path.write_text(json.dumps({"property": self.id, "seed": self.seed, "tier": self.tier, "violation": v,
                                        "other_violations": self.violations[1:6], "broken_obligations": self.broken,
                                        "correspondence_disagreements": self.corr_broken[:5]}, indent=1, default=str))
            print(f"VIOLATION property={self.id} replay={path}")
        elif self.broken or self.corr_broken:
            rc = 1
            path = REPLAYS / f"{self.id}-{self.seed}-unproved.json"
            path.write_text(json.dumps({"property": self.id, "seed": self.seed, "tier": self.tier,
                                        "no_longer_checks": self.broken,
                                        "correspondence_disagreements": self.corr_broken[:10],
                                        "searched": {"evaluations": self.evaluations, "distribution": self.distribution},
                                        "note": "a proof obligation, generated-layer item or the model/implementation correspondence no longer checks; "
                                                "the search found no input on which the property fails"}, indent=1, default=str))
            print(f"VIOLATION property={self.id} replay={path} no-failing-input-found")
        self.write_evidence(rc)
        return rc

    def write_evidence(self, rc: int):
        n_ob = len(self.obligations)
        n_broken = len({b.split(" [")[0] for b in self.broken if b.startswith(("Thm:", "Gen:"))})
        cov = {
            "obligations": n_ob, "discharged": max(0, n_ob - n_broken),
            "checker_cmd": self.checker_cmd, "trusted_base": self.trusted_base,
            "evaluations": self.evaluations, "distinct_nontrivial": len(self.nontrivial_hashes),
            "rule": self.rule, "samples": self.samples or ["(no case was generated)"],
            "traces_validated_against_impl": self.traces_validated,
            "input_distribution": self.distribution,
            "axioms_reported_by_Print_Assumptions": self.assumptions,
            "broken_obligations": self.broken, "correspondence_disagreements": len(self.corr_broken),
            "known_findings_observed": sorted(self.known_seen), "notes": self.notes,
            "hand_modelled_source_changed": self.fingerprint_changed,
            "repo_head": _repo_head(),
        }
        cov.update(self.extra_cov)
        ev = {"property_id": self.id, "tier": self.tier, "seed": self.seed, "level": self.level, "coverage": cov,
              "assumptions": ["theorems are about the Coq model; the tie to /repo is the regenerated Gen/ layer plus the correspondence check of this run",
                              *self.notes[:10]],
              "wall_s": round(time.time() - self.t0, 2), "violations": len(self.violations) + (1 if rc and not self.violations else 0)}
        (EVIDENCE / f"{self.id}.json").write_text(json.dumps(ev, indent=1, default=str))


def _repo_head() -> str:
    import subprocess
    try:
        h = subprocess.run(["git", "-C", str(REPO), "rev-parse", "--short", "HEAD"], capture_output=True, text=True, timeout=20).stdout.strip()
        d = subprocess.run(["git", "-C", str(REPO), "status", "--porcelain", "--untracked-files=no"], capture_output=True, text=True, timeout=20).stdout.strip()
        return h + ("+dirty" if d else "")
    except Exception:  # noqa: BLE001
        return "unknown"
