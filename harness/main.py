"""entry point: ./check Cxx [--tier quick|thorough] [--replay file]"""
from __future__ import annotations

import argparse
import importlib
import os
import sys
import traceback

from harness.common import ensure_repo_on_path, seed_from_env


def main() -> int:
    ap = argparse.ArgumentParser()
    ap.add_argument("prop")
    ap.add_argument("--tier", default=os.environ.get("VERIF_TIER", "quick"), choices=["quick", "thorough"])
    ap.add_argument("--replay")
    a = ap.parse_args()
    ensure_repo_on_path()
    mod = importlib.import_module(f"harness.props.{a.prop.lower()}")
    return mod.run(a.tier, seed_from_env(), a.replay)


if __name__ == "__main__":
    try:
        sys.exit(main())
    except SystemExit:
        raise
    except BaseException:  # a crashing check must not look like a pass
        traceback.print_exc()
        sys.exit(3)
