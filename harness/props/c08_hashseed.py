"""C08 hash-seed stream, interpreter side: `python -P -m harness.props.c08_hashseed <base>` lints every project directory
<base>/p*/proj through the library API in THIS interpreter (whose PYTHONHASHSEED the caller chose) and prints, per project,
the canonical violations (every field, messages and suggestions included) of
  dir    Linter.lint(project root)                       (directory walk, all rules, finalize once)
  files  Orchestrator.lint_files(files in the order of <base>/p*/order.json)   (explicit list in a caller-chosen order)
as one JSON document.  The str hash of an interpreter is fixed at start-up: iteration orders of sets / dicts of strings can only
be varied by starting separate processes, which is what the caller does (harness/props/c08.py: hashseed_jobs)."""
from __future__ import annotations

import json
import os
import sys
from pathlib import Path


def main(base: str) -> int:
    from harness.props import orchhist_common as oc
    out = {"hashseed": os.environ.get("PYTHONHASHSEED"), "projects": {}}
    for pd in sorted(Path(base).glob("p*")):
        root = pd / "proj"
        rec = {"dir": None, "files": None, "error": None}
        try:
            os.chdir(root)
            lin = oc.fresh_linter(root)
            rec["dir"] = sorted((list(oc.canon_violation(v, root)) for v in lin.lint(root)), key=repr)
            del lin
            order = json.loads((pd / "order.json").read_text())
            lin = oc.fresh_linter(root)
            rec["files"] = sorted((list(oc.canon_violation(v, root)) for v in lin.orchestrator.lint_files([root / p for p in order])), key=repr)
            del lin
        except Exception as e:  # noqa: BLE001
            rec["error"] = f"{type(e).__name__}: {e}"
        out["projects"][pd.name] = rec
    sys.stdout.write(json.dumps(out))
    return 0


if __name__ == "__main__":
    sys.exit(main(sys.argv[1]))
