"""C12 — stream `lazy`: the lazy-ignores line scanner against its model (Model/LocLazy.v, Proofs/LocLazy.v).

Generated Python files carry suppression directives (noqa, type: ignore, pylint, nosec, pyright, thailint, dry) and pytest
skips at random lines / indentations, inside and outside triple-quoted regions (module and function docstrings in both quote
styles, one-line docstrings, escaped triple quotes, a directive mentioned in a docstring), inside string literals, behind
non-ASCII text, with and without inline justifications or a Suppressions header, with CRLF, without final newline, and with
the characters str.splitlines() also splits at (FF page breaks, VT, FS/GS/RS, NEL, U+2028/9 in comments and strings).

Three levels are compared inside coqc (judge_lazy / judge_lazy_rule):
  * PythonIgnoreDetector.find_ignores(content)  = lazy_scan true  (list equality: line, column, raw text)
  * TestSkipDetector.find_skips(content)        = lazy_scan true
  * every `lazy-ignores.unjustified` violation of the Orchestrator run is one of those directives
and the reports are judged against the property (lrep_ok over the file's own lines).  The per-line regex search is the ORACLE
of the model: the table handed to Coq is computed here with the implementation's regex tables (PATTERNS, the string-literal
test, the skip patterns) applied to every distinct line of both line lists - match.start() and the raw text are recomputed here,
not taken from the directives."""
from __future__ import annotations

import re

from harness import coq
from harness.common import rng_for

PROP = "C12"
KEY = "splitlines_numbering[lazy-ignores]"
LAZY_HEADER = "From TL Require Import Lib.Base Model.LocTypes Gen.LocGen Model.Loc Model.LocLazyTypes Gen.LocLazyGen Model.LocLazy.\n"
LAZY_CONE = [("Model", "LocTypes.v"), ("Gen", "LocGen.v"), ("Model", "Loc.v"), ("Model", "LocLazyTypes.v"), ("Gen", "LocLazyGen.v"), ("Model", "LocLazy.v")]
EXOTIC = ["\x0c", "\x0b", "\x1c", "\x1d", "\x1e", "\x85", "\u2028", "\u2029"]

DIRECTIVES = [
    "# noqa", "# noqa: E501", "#noqa:F401,E402", "#  NOQA", "# type: ignore", "# type: ignore[arg-type]", "# pylint: disable=too-many-locals",
    "# pylint: disable=invalid-name,line-too-long", "# nosec", "# nosec B101", "# pyright: ignore[reportGeneralTypeIssues]", "# pyright: ignore",
    "# thailint: ignore", "# thailint: ignore[nesting]", "# thailint: ignore-file[dry]", "# thailint: ignore-next-line[srp]",
    "# thailint: ignore-start[magic-numbers]", "# dry: ignore-block", "# noqa  # type: ignore",
]
JUSTIFY = ["", "", "", " - generated code, reviewed by hand", " - ok", " - third-party stubs are missing here"]
CODE = ["x = compute(1)", "import os", "value = items[0]", "result = call(a, b)", "total += step", "name = 'café → bar'", "flag = not flag",
        "label = \"it's\"", "path = 'a\"b'"]


def _directive_line(r, indent=""):
    d = r.choice(DIRECTIVES) + r.choice(JUSTIFY)
    kind = r.random()
    if kind < 0.55:
        return indent + r.choice(CODE) + " " * r.choice([1, 2, 2, 4]) + d
    if kind < 0.8:
        return indent + d
    if kind < 0.9:
        return indent + f's = "{d}"'                       # inside a string literal: not a directive
    return indent + f"t = 'x'  {d}"


def _docstring(r, indent, quote):
    """a triple-quoted region; may mention a directive (must not be reported); may hold an escaped triple quote"""
    n = r.choice([0, 1, 2, 3])
    if n == 0:
        return [indent + quote + "One line." + quote]
    body = []
    for _ in range(n):
        body.append(indent + r.choice(["Text of the docstring.", "Do not write # noqa without a reason.", "Example:  x = 1  # type: ignore",
                                       "An escaped \\" + quote + " stays inside.", "", "@pytest.mark.skip", "Suppressions:", "    noqa: legacy module"]))
    first = indent + quote + r.choice(["Summary line.", ""])
    return [first] + body + [indent + quote]


def s_lazy(seed, i):
    from harness.props.c12 import mk_doc, t_crlf, t_nonl
    r = rng_for(seed, PROP, "lazy", i)
    lines = []
    if r.random() < 0.6:
        lines += _docstring(r, "", r.choice(['"""', '"""', "'''"]))
    lines += ["import pytest", ""]
    for _ in range(r.choice([2, 3, 4, 6])):
        k = r.random()
        if k < 0.35:
            lines.append(_directive_line(r))
        elif k < 0.6:
            ind = "    "
            deco = r.choice(["@pytest.mark.skip", "@pytest.mark.skip()", "@pytest.mark.skip(reason='flaky on CI')", "@pytest.mark.skipif(True, reason='never')", None, None])
            if deco:
                lines.append(deco + r.choice(["", "  # noqa"]))
            lines.append(f"def test_case_{len(lines)}(arg):")
            if r.random() < 0.6:
                lines += _docstring(r, ind, r.choice(['"""', "'''"]))
            for _ in range(r.choice([1, 2, 3])):
                lines.append(_directive_line(r, ind) if r.random() < 0.5 else ind + r.choice(CODE + ["pytest.skip()", "pytest.skip('not yet')"]))
            lines.append(ind + "return arg")
            lines.append("")
        elif k < 0.75:
            q = r.choice(['"""', "'''"])
            lines.append(f"TEXT_{len(lines)} = {q}first")
            lines.append(r.choice(["middle  # noqa", "# type: ignore", "plain"]))
            lines.append(f"last{q}" + r.choice(["", "  # nosec"]))
        elif k < 0.85:
            lines.append("s = \"a \\\"\\\"\\\" b\"  # noqa: Q000")       # escaped triple quote: does not open a region
        else:
            lines.append(r.choice(CODE))
    tags = []
    if r.random() < 0.45:
        for _ in range(r.choice([1, 1, 2])):
            ch = r.choice(EXOTIC)
            at = r.randrange(0, len(lines) + 1)
            kind = r.choice(["comment", "pagebreak", "string", "tail"])
            # only between top-level statements / at the end of an existing line, never inside a triple-quoted region's text by design
            if kind == "comment":
                lines.insert(at, f"# section{ch}break")
            elif kind == "pagebreak":
                lines.insert(at, "\x0c")
            elif kind == "string":
                lines.insert(at, f'tv_{len(lines)} = "a{ch}b"')
            elif lines:
                j = r.randrange(len(lines))
                if "#" in lines[j]:
                    lines[j] = lines[j] + f" {ch}more"
                else:
                    lines.insert(at, f"# tail{ch}")
        tags.append("exotic-line-chars")
    doc = mk_doc("py", f"src/lazy_mod_{i}.py", lines, [], "lazy")
    doc["tags"] += tags
    if r.random() < 0.2:
        t_crlf(doc, r)
    if r.random() < 0.25:
        t_nonl(doc, r)
    return {"id": f"lazy{i}", "stream": "lazy", "docs": [doc], "config": {}}


# ---------------------------------------------------------------------- implementation side (runs inside the case's process)
def detector_views(path):
    """the two scanners on the content the rule sees, plus the per-line oracle tables"""
    from harness.common import ensure_repo_on_path
    ensure_repo_on_path()
    from src.linters.lazy_ignores import python_analyzer as pa
    from src.linters.lazy_ignores import skip_detector as sd
    content = path.read_text(encoding="utf-8-sig")           # what FileLintContext.file_content holds
    det, sk = pa.PythonIgnoreDetector(), sd.TestSkipDetector()
    ign = [[d.line, d.column, d.raw_text] for d in det.find_ignores(content, path)]
    skp = [[d.line, d.column, d.raw_text] for d in sk.find_skips(content, path, "python")]
    distinct = []
    for l in content.splitlines() + content.split("\n"):
        if l not in distinct:
            distinct.append(l)
    t_ign, t_skip = [], []
    for l in distinct:
        hits = []
        for _t, pat in det.PATTERNS.items():
            m = pat.search(l)
            if m and not pa._is_pattern_in_string_literal(l, m.start()):
                hits.append([m.start(), l[m.start():].strip()])
        if hits:
            t_ign.append([l, hits])
        hits = []
        if not (sd._is_comment_line(l) or sk._is_justified_python_skip(l)):
            for _t, pat in sk.PYTHON_VIOLATION_PATTERNS.items():
                m = pat.search(l)
                if m:
                    hits.append([m.start(), m.group(0).strip()])
            m = sk.PYTEST_SKIP_CALL_PATTERN.search(l)
            if m:
                hits.append([m.start(), m.group(0).strip()])
        if hits:
            t_skip.append([l, hits])
    return {"content": content, "ign": ign, "skip": skp, "t_ign": t_ign, "t_skip": t_skip}


# ---------------------------------------------------------------------- Coq side
def _cstr(s: str) -> str:
    return coq.coq_string(s)


def _tbl(t) -> str:
    return coq.coq_list([f"({_cstr(l)}, {coq.coq_list([f'({c}, {_cstr(x)})' for c, x in hs])})" for l, hs in t])


def _reps(rs) -> str:
    return coq.coq_list([f"({l}, {c}, {_cstr(t)})" for l, c, t in rs])


def lazy_jobs(cases, impls, unjustified_re):
    """(case index, file, views, rule-level reports, Coq command)"""
    jobs = []
    for ci, (case, im) in enumerate(zip(cases, impls)):
        if "error" in im or not im.get("lazy"):
            continue
        for rel, vw in im["lazy"].items():
            rule_vs = []
            for rule, f, line, col, msg in im["v"]:
                if f == rel and rule == "lazy-ignores.unjustified" and isinstance(line, int) and isinstance(col, int) and line >= 0 and col >= 0:
                    mm = unjustified_re.match(msg)
                    rule_vs.append((line, col, mm.group("raw_text") if mm else "\x00unparsed"))
            ti, ts, tx = _tbl(vw["t_ign"]), _tbl(vw["t_skip"]), _cstr(vw["content"])
            cmd = (f"Eval vm_compute in (judge_lazy {ti} {tx} {_reps(vw['ign'])} ++ judge_lazy {ts} {tx} {_reps(vw['skip'])} "
                   f"++ judge_lazy_rule {ti} {ts} {tx} {_reps(rule_vs)}).")
            jobs.append((ci, rel, vw, rule_vs, cmd))
    return jobs


def decide(chk, cases, jobs, outs, slim):
    """outs[j] = list of booleans of job j"""
    mismatches, all_ideal = [], True
    for (ci, rel, vw, rule_vs, _cmd), bits in zip(jobs, outs):
        case = cases[ci]
        bits = [bool(b) for b in bits]
        for name, b, impl in (("find_ignores", bits[0:4], vw["ign"]), ("find_skips", bits[4:8], vw["skip"])):
            eq_actual, eq_ideal, impl_ok, ideal_ok = b
            chk.traces_validated += 1
            chk.dist("lazy-model:" + name)
            chk.dist("lazy-model:directives", len(impl))
            all_ideal = all_ideal and eq_ideal
            payload = {"file": rel, "scanner": name, "directives": impl[:6], "case": slim(case)}
            if not ideal_ok:
                chk.violation({"reason": "lazy-ignores: the ideal scanner model (the file's own lines) does not satisfy the location property on this file: "
                                         "the per-line oracle returned a match that does not lie on its line", **payload})
                continue
            if eq_actual and impl_ok:
                continue
            if eq_actual and not impl_ok:
                # explained by the listed deviation iff switching the flag off changes the model's output (it does: the ideal one is ok)
                chk.dist("lazy-model:splitlines-deviation")
                chk.known_finding(KEY, {**payload, "detail": "reports equal the faithful model (str.splitlines numbering) and violate the property; "
                                                             "the ideal model (the file's lines) satisfies it"})
                continue
            mismatches.append((eq_ideal, impl_ok, payload))
        for (l, c, t), ok in zip(rule_vs, bits[8:]):
            chk.traces_validated += 1
            chk.dist("lazy-model:rule-violation")
            if not ok:
                chk.violation({"reason": "a lazy-ignores.unjustified violation is not (line, column, text) of a directive the scanner model finds in this file",
                               "violation": [l, c, t[:200]], "file": rel, "case": slim(case)})
    if mismatches:
        if all_ideal:
            chk.notes.append("lazy-ignores: the scanners no longer match the faithful model (str.splitlines numbering) but match the ideal model on every file: "
                             f"the listed deviation {KEY} is no longer observed")
        else:
            for eq_ideal, impl_ok, payload in mismatches[:10]:
                if not impl_ok:
                    chk.violation({"reason": "lazy-ignores: the scanner's reports differ from the model and violate the location property "
                                             "(line outside the file / column outside the line / quoted directive not on the line)", **payload})
                else:
                    chk.correspondence_broken({"level": "lazy-ignores scanner", "detail": "reports differ from what the scanner model (Model/LocLazy.v) computes", **payload})
