"""C03 — DRY / duplicate code: sound, mutual, complete, exact occurrence count.

Generated projects (harness/props/c03_gen.py) are rendered to a scratch directory and linted with a FRESH
Orchestrator (lint_files / lint_directory, a few through `thailint dry --format json`).  Every verdict is
computed inside coqc by Model/DryRun.v `judge`; c03_pymodel.py is only used to shrink and to label cases.
"""
from __future__ import annotations

import json
import os
import re
from pathlib import Path

from harness import coq
from harness.common import (drain_failures, make_orchestrator, parse_json_violations, pool_map, rng_for, run_cli,
                            scratch_dir)
from harness.framework import Check
from harness.props import c03_gen, c03_pymodel as pm

PROP = "C03"
FLAGS = ["q_strip_in_code", "q_block_comment_kept", "q_overlap_asym"]
HEADER = ("From TL Require Import Lib.Base Lib.GenTypes Model.DryBase Model.DryPipe Gen.DryGen Model.Dry Model.DrySpec "
          "Model.DryRun Actual.DryActual.\n"
          "From Coq Require Import NArith.\n"
          "Definition L := Build_aline.\nDefinition F := Build_afile.\nDefinition n := N.to_nat.\n"
          # numbers are sent in binary (N): a unary nat literal costs its value in term size at type-checking time
          "Definition V (f l c cnt occ : N) (refs : list (N * N * N)) : viol :=\n"
          "  Build_viol (n f) (n l) (n c) (n cnt) (n occ) (map (fun r => let '(a, b, d) := r in (n a, n b, n d)) refs).\n"
          "Definition RIn (tbl : list string) (f s e : N) (ids : list N) : row := RI tbl (n f) (n s) (n e) (map n ids).\n"
          "Definition KW (fi : N) (calls : list (N * N)) (tests : list (N * N * N)) : nat * list (nat * nat) * list (nat * nat * nat) :=\n"
          "  (n fi, map (fun c => (n (fst c), n (snd c))) calls, map (fun t => let '(s, e, b) := t in (n s, n e, n b)) tests).\n"
          "Definition j1 q exact (W k : N) := judge1 q exact (n W) (n k).\n"
          "Definition j2 q exact (W k : N) := judge2 q exact (n W) (n k).\n"
          "Open Scope N_scope.\n")
JUDGE1_BITS, JUDGE2_BITS = 11, 6
MSG_RE = re.compile(r"^Duplicate code \((\d+) lines, (\d+) occurrences\)(?:\. Also found in: (.*))?$", re.S)
RULE_ID = "dry.duplicate-code"
CORPUS = Path(__file__).resolve().parent.parent.parent / "corpus" / PROP


# ------------------------------------------------------------------ cases
def gen_cases(seed: int, n_ord: int, n_flt: int, tempfile_share: float = 0.0):
    cases = []
    for i in range(n_ord + n_flt):
        r = rng_for(seed, PROP, i)
        stream = "ord" if i < n_ord else "flt"
        proj = c03_gen.gen_project(r, stream)
        via = "api"
        x = r.random()
        if x < 0.07:
            via = "cli"
        elif x < 0.35:
            via = "dir"
        case = {"i": i, "stream": stream, "via": via, "order_seed": r.randint(0, 10 ** 6), **proj}
        if r.random() < tempfile_share:
            case["storage_mode"] = "tempfile"
        # dry.filters: switches of the block-filter registry (only the Python analyzer honours them)
        if r.random() < (0.3 if stream == "flt" else 0.1):
            names = [n for n, _ in FILTER_BITS] + ["no_such_filter"]
            case["filters"] = {n: r.random() < 0.4 for n in r.sample(names, r.randint(1, 3))}
        # CLI: the documented threshold override `--min-lines W` next to a --config file that holds ANOTHER value
        if via == "cli" and r.random() < 0.6:
            case["cli_min_lines"] = case["W"] + 1 if case["W"] < 6 else case["W"] - 1   # the decoy written to the file
        cases.append(case)
    return cases


def corpus_cases():
    out = []
    for p in sorted(CORPUS.glob("*.json")):
        c = json.loads(p.read_text())
        c.setdefault("stream", "ord")
        c.setdefault("via", "api")
        c.setdefault("order_seed", 0)
        c["i"] = "corpus:" + p.stem
        c["files"] = sorted(c["files"], key=lambda f: f["name"])
        out.append(c)
    return out


def dry_config(case) -> dict:
    return {"dry": {"enabled": True, "min_duplicate_lines": case["W"], "min_occurrences": case["k"],
                    "storage_mode": case.get("storage_mode", "memory"), "detect_duplicate_constants": False,
                    "ignore": list(case.get("ignore", [])), **({"filters": dict(case["filters"])} if case.get("filters") else {})}}


# ------------------------------------------------------------------ implementation
def _parse_viols(vs, index: dict):
    """[(file idx, line, col, count, occ, refs, raw message)] sorted; unparsable things are kept visible"""
    out, junk = [], []
    for v in vs:
        if v["rule_id"] != RULE_ID:
            if str(v["rule_id"]).startswith("dry"):
                junk.append(f"unexpected rule id {v['rule_id']}")
            continue
        m = MSG_RE.match(v["message"])
        fi = index.get(str(v["file"]))
        if not m or fi is None:
            junk.append(f"unparsable violation {v['file']}:{v['line']} {v['message'][:120]}")
            continue
        refs = []
        if m.group(3):
            for part in m.group(3).split(", "):
                mm = re.fullmatch(r"(.*):(\d+)-(\d+)", part, re.S)
                if not mm or mm.group(1) not in index:
                    junk.append(f"unparsable location {part[:80]}")
                    continue
                refs.append([index[mm.group(1)], int(mm.group(2)), int(mm.group(3))])
        out.append([fi, v["line"], v["column"], int(m.group(1)), int(m.group(2)), refs, v["message"]])
    return sorted(out, key=lambda t: (t[0], t[1], t[2], t[3], t[4], t[5])), junk


def _find_dry_rule(orch):
    for rule in orch.registry.list_all():
        if getattr(rule, "rule_id", None) == RULE_ID:
            return rule
    return None


def _stored_rows(rule, index):
    """rows of the code_blocks table (internal API, looked up defensively): [[file idx, start, end, snippet]] or None"""
    try:
        st = rule._storage  # noqa: SLF001
        if st is None:
            return []
        db = st._cache.db  # noqa: SLF001
        rows = db.execute("SELECT file_path, start_line, end_line, snippet FROM code_blocks").fetchall()
        return sorted([index[a], b, c, s] for a, b, c, s in rows)
    except Exception:  # noqa: BLE001
        return None


FILTER_BITS = [("keyword_argument_filter", 1), ("import_group_filter", 2), ("logger_call_filter", 4), ("exception_reraise_filter", 8)]


def _probe_ranges(case, fi, f, nlines):
    """line ranges on which the real filters are asked: the model's windows, and 1/2/3-line ranges (the logger and the
    except/raise filter only ever fire on ranges with one / two non-blank lines)"""
    out = [(s, e) for _, s, e, _ in pm.windows(pm.ACTUAL, case["W"], fi, f)[:20]]
    step = max(1, nlines // 14)
    for s in range(1, nlines + 1, step):
        out += [(s, s), (s, s + 1), (s, s + 2)]
    # every line that looks like a logger call / an except header: the short ranges around it
    for i, l in enumerate(f["lines"], start=1):
        if l[0] == "C" and (l[2].startswith(("log", "self.log")) or l[2].startswith("except ") or l[2].startswith(("import ", "from "))):
            out += [(i, i), (i, i + 1), (i - 1, i), (i, i + 2)]
    seen, uniq = set(), []
    for s, e in out:
        if s >= 1 and (s, e) not in seen:
            seen.add((s, e))
            uniq.append((s, e))
    return uniq[:60]


def _filter_unit(case, paths, cfg):
    """unit level (internal names looked up defensively): the four real block filters and the real registries (the
    configured one of the Python analyzer, the default one of the TypeScript analyzer) on line ranges of every file.
    [(file index, multi-line ast.Call spans, [(start, end, answer mask)])] or None when the internals are not there"""
    try:
        import ast
        import types
        from src.linters.dry.config import DRYConfig
        from src.linters.dry.file_analyzer import FileAnalyzer
        fa = FileAnalyzer(DRYConfig.from_dict(cfg["dry"]))
        regs = {"py": fa._python_analyzer._filter_registry, "ts": fa._typescript_analyzer._filter_registry}  # noqa: SLF001
        byname = {lang: {flt.name: flt for flt in reg._filters} for lang, reg in regs.items()}  # noqa: SLF001
        if any(set(d) != {n for n, _ in FILTER_BITS} for d in byname.values()):
            return None
    except Exception:  # noqa: BLE001
        return None
    out = []
    for fi, f in enumerate(case["files"]):
        lang = "py" if f["lang"] == "py" else "ts"
        content = pm.render_file(f)
        try:   # what KeywordArgumentFilter._is_inside_function_call sees (Python's ast, whatever the file's language)
            calls = sorted({(nd.lineno, nd.end_lineno) for nd in ast.walk(ast.parse(content)) if isinstance(nd, ast.Call) and nd.lineno < nd.end_lineno})
        except SyntaxError:
            calls = []
        tests = []
        for s, e in _probe_ranges(case, fi, f, len(f["lines"]) + 1):
            blk = types.SimpleNamespace(file_path=paths[fi], start_line=s, end_line=e, snippet="", hash_value=0)
            m = sum(bit for name, bit in FILTER_BITS if byname[lang][name].should_filter(blk, content))
            m += 16 if regs[lang].should_filter_block(blk, content) else 0
            tests.append((s, e, m))
        out.append((fi, calls, tests))
    return out


def run_impl(case):
    import random
    with scratch_dir("tv-c03-") as root:
        d = root / "proj"
        d.mkdir()
        paths = []
        for f in case["files"]:
            p = d / f["name"]
            p.parent.mkdir(parents=True, exist_ok=True)
            p.write_bytes(pm.render_file(f).encode("utf-8"))
            paths.append(p)
        order = list(paths)
        random.Random(case["order_seed"]).shuffle(order)
        cfg = dry_config(case)
        res = {"failures": [], "junk": [], "rows": None, "note": None}
        # (1) instrumented run: lint_file per file, read the stored rows, then finalize (what lint_files does)
        index = {str(p): i for i, p in enumerate(paths)}
        orch = make_orchestrator(d, cfg)
        vs = []
        for p in order:
            vs.extend(orch.lint_file(p))
        rule = _find_dry_rule(orch)
        rows = _stored_rows(rule, index) if rule is not None else None
        for r in orch.registry.list_all():
            vs.extend(r.finalize())
        inst, junk = _parse_viols([{"rule_id": v.rule_id, "file": v.file_path, "line": v.line, "column": v.column, "message": v.message} for v in vs], index)
        res["failures"] += drain_failures()
        # (2) the observable run
        if case["via"] == "cli":
            cfg_file, extra = json.loads(json.dumps(cfg)), []
            if case.get("cli_min_lines"):
                cfg_file["dry"]["min_duplicate_lines"] = case["cli_min_lines"]
                extra = ["--min-lines", str(case["W"])]
            (d / "cfg.yaml").write_text(json.dumps(cfg_file))
            rel = [str(p.relative_to(d)) for p in order]
            rc, so, se = run_cli(["dry", "--format", "json", "--config", "cfg.yaml", *extra, *rel], cwd=d, home=root)
            vs2 = parse_json_violations(so)
            if vs2 is None or rc not in (0, 1):
                res["junk"].append(f"CLI run failed rc={rc} stdout={so[:200]} stderr={se[-300:]}")
                vs2 = []
            index2 = {str(p.relative_to(d)): i for i, p in enumerate(paths)}
            obs, junk2 = _parse_viols([{"rule_id": v.get("rule_id"), "file": v.get("file_path"), "line": v.get("line"), "column": v.get("column"),
                                        "message": v.get("message", "")} for v in vs2], index2)
            if (rc == 1) != bool(obs):
                res["junk"].append(f"CLI exit status {rc} with {len(obs)} dry violations")
            res["paths"] = [str(p.relative_to(d)) for p in paths]
        else:
            orch2 = make_orchestrator(d, cfg)
            vs2 = orch2.lint_directory(d) if case["via"] == "dir" else orch2.lint_files(order)
            obs, junk2 = _parse_viols([{"rule_id": v.rule_id, "file": v.file_path, "line": v.line, "column": v.column, "message": v.message} for v in vs2], index)
            res["failures"] += drain_failures()
            res["paths"] = [str(p) for p in paths]
        res["junk"] += junk2
        res["viols"] = obs
        res["kw"] = _filter_unit(case, paths, cfg) if (case["stream"] == "flt" or case["order_seed"] % 4 == 0) else []
        if [t[:6] for t in obs] == [t[:6] for t in inst] and not junk:
            res["rows"] = rows
        else:
            res["note"] = "instrumented run (lint_file + finalize) and observable run disagree; stored rows not used"
        # absolute paths are long; the model gets them with the scratch root cut off (same order, same text otherwise)
        if case["via"] != "cli":
            pre = str(d) + os.sep
            res["paths"] = [p[len(pre):] for p in res["paths"]]
            for t in res["viols"]:
                t[6] = t[6].replace(pre, "")
        return res


# ------------------------------------------------------------------ Coq encoding
def cs(s: str) -> str:
    """Coq string literal; bytes outside printable ASCII through bytes_to_string (numbers are N in the case files)"""
    b = s.encode("utf-8")
    if all(32 <= c < 127 for c in b):
        return '"' + s.replace('"', '""') + '"'
    return "(bytes_to_string (map n [" + ";".join(str(c) for c in b) + "]))"


def coq_line(l) -> str:
    kind, indent, code, cmt = l
    c = "CNone" if cmt is None else (f"(CLine {cs(cmt[1])})" if cmt[0] == "L" else f"(CBlock {cs(cmt[1])})")
    return f"L {'true' if kind == 'D' else 'false'} {cs(indent)} {cs(code)} {c}"


def coq_files(files) -> str:
    return coq.coq_list(["F " + ("DPy" if f["lang"] == "py" else "DTs") + " " + coq.coq_list([coq_line(l) for l in f["lines"]]) for f in files])


def coq_viol(t) -> str:
    fi, line, col, count, occ, refs = t[:6]
    return f"V {fi} {line} {col} {count} {occ} {coq.coq_list([f'({a}, {b}, {c})' for a, b, c in refs])}"


def coq_case(case, impl, phase: int) -> str:
    """stored rows are sent compressed: snippet lines as indices into a table of the distinct lines"""
    viols = coq.coq_list([coq_viol(t) for t in impl["viols"]])
    # raw message texts are costly to type-check: a sample per case (first 4, the 4 with most locations)
    vs = impl["viols"]
    pick = sorted(set(list(range(min(4, len(vs)))) + sorted(range(len(vs)), key=lambda i: -len(vs[i][5]))[:4]))
    msgs = coq.coq_list([f"({coq_viol(vs[i])}, {cs(vs[i][6])})" for i in pick])
    tbl: dict[str, int] = {}
    if impl["rows"] is None:
        rows = "None"
    else:
        items = []
        for a, b, c, s in impl["rows"]:
            ids = [tbl.setdefault(x, len(tbl)) for x in s.split(chr(10))]
            items.append(f"RIn tbl {a} {b} {c} {coq.coq_list([str(i) for i in ids])}")
        rows = "(Some " + coq.coq_list(items) + ")"
    exact = "true" if case["stream"] == "ord" else "false"
    head = f"let tbl := {coq.coq_list([cs(x) for x in tbl])} in "
    kw = coq.coq_list(["KW %d %s %s" % (fi, coq.coq_list([f"({a}, {b})" for a, b in calls]),
                                        coq.coq_list([f"({s}, {e}, {b})" for s, e, b in tests]))
                       for fi, calls, tests in (impl.get("kw") or [])])
    pats = coq.coq_list([cs(p) for p in case.get("ignore", [])])
    custom = coq.coq_list([f"({cs(k)}, {'true' if v else 'false'})" for k, v in sorted(case.get("filters", {}).items())])
    paths = coq.coq_list([cs(p) for p in impl["paths"]])
    if phase == 1:
        return head + f"j1 dry_actual {exact} {case['W']} {case['k']} {coq_files(case['files'])} {pats} {paths} {viols} {msgs} {rows} {custom} {kw}"
    return head + f"j2 dry_actual {exact} {case['W']} {case['k']} {coq_files(case['files'])} {pats} {paths} {viols} {rows}"


def eval_shards_robust(workdir: Path, shards: list[str], procs: int = 8, timeout: int = 900) -> list[list]:
    """like coq.eval_shards, with bounded parallelism and one sequential retry of shards whose coqc was
    killed (the machine is shared: an out-of-memory kill of one coqc must not void the whole run)"""
    from concurrent.futures import ThreadPoolExecutor
    workdir.mkdir(parents=True, exist_ok=True)
    jobs = []
    for i, body in enumerate(shards):
        p = workdir / f"cases_{i}.v"
        p.write_text(HEADER + "\n" + body + "\n")
        jobs.append((p, timeout))
    with ThreadPoolExecutor(max_workers=procs) as ex:
        outs = list(ex.map(coq._run_shard, jobs))  # noqa: SLF001
    results = []
    for (rc, so, se), job in zip(outs, jobs):
        if rc != 0 and rc != 1:      # killed / timed out: try once more, alone
            rc, so, se = coq._run_shard(job)  # noqa: SLF001
        if rc != 0:
            raise RuntimeError(f"coqc failed on {job[0].name} (rc={rc}): {se[-1500:]}")
        results.append(coq.parse_nat_lists(so))
    return results


def case_weight(case, impl) -> int:
    n = sum(len(f["lines"]) for f in case["files"])
    return 30 + n * n // 60 + 3 * len(impl["viols"])


def judge(cases, impls, workdir: Path, phase: int, todo=None, budget=6000):
    """shards of roughly equal estimated cost (the model is quadratic in the number of stored windows)"""
    todo = list(range(len(cases))) if todo is None else list(todo)
    verdicts = [None] * len(cases)
    if not todo:
        return verdicts
    order = sorted(todo, key=lambda j: -case_weight(cases[j], impls[j]))
    nsh = max(1, min(len(order), max(16, sum(case_weight(cases[j], impls[j]) for j in order) // budget)))
    bins = [[] for _ in range(nsh)]
    load = [0] * nsh
    for j in order:
        b = load.index(min(load))
        bins[b].append(j)
        load[b] += case_weight(cases[j], impls[j])
    bins = [b for b in bins if b]
    shards = ["\n".join(f"Eval vm_compute in ({coq_case(cases[j], impls[j], phase)})." for j in b) for b in bins]
    outs = eval_shards_robust(workdir / f"phase{phase}", shards)
    want = JUDGE1_BITS if phase == 1 else JUDGE2_BITS
    for b, out in zip(bins, outs):
        if len(out) != len(b):
            raise RuntimeError(f"expected {len(b)} results, got {len(out)}")
        for j, o in zip(b, out):
            if len(o) != want:
                raise RuntimeError(f"expected {want} bits, got {len(o)}")
            verdicts[j] = [bool(x) for x in o]
    return verdicts


# ------------------------------------------------------------------ shrinking (python mirror only proposes; Coq re-judges)
def shrink(case, still_fails):
    """greedy deletion of files and lines while `still_fails(case)` holds"""
    cur = json.loads(json.dumps(case))
    changed = True
    while changed:
        changed = False
        for fi in range(len(cur["files"]) - 1, -1, -1):
            if len(cur["files"]) <= 1:
                break
            t = json.loads(json.dumps(cur))
            del t["files"][fi]
            if still_fails(t):
                cur, changed = t, True
        for fi in range(len(cur["files"])):
            i = len(cur["files"][fi]["lines"]) - 1
            while i >= 0:
                t = json.loads(json.dumps(cur))
                del t["files"][fi]["lines"][i]
                if _valid(t["files"][fi]) and still_fails(t):
                    cur, changed = t, True
                i -= 1
    return cur


def _valid(f) -> bool:
    if f["lang"] != "py":
        return True
    import ast
    try:
        ast.parse(pm.render_file(f))
        return True
    except SyntaxError:
        return False


def _mirror_unexplained(case, impl) -> list:
    """Python-mirror verdict (used while shrinking, and to name a failing input when the Coq model cannot be
    built at all): clauses the implementation's output violates, unless the listed defects explain the failure"""
    rep = sorted((t[0], t[1], t[2], t[3], t[4], [tuple(r) for r in t[5]]) for t in impl["viols"])
    W, k, files = case["W"], case["k"], case["files"]
    exact = case["stream"] == "ord"
    rows = None if exact or impl["rows"] is None else [tuple(r) for r in impl["rows"]]
    pats, paths = case.get("ignore", []), impl["paths"]
    bad = pm.spec_check(W, k, files, rep, complete=exact, rows=rows, patterns=pats, paths=paths)
    if not bad:
        return []
    mrows = pm.all_rows(pm.ACTUAL, W, files)
    in_class = (any(l[0] == "C" and ("#" in l[2] or "//" in l[2]) for f in files for l in f["lines"])
                or any(l[0] == "C" and l[3] is not None and l[3][0] == "B" for f in files for l in f["lines"])
                or any(r[2] - r[1] + 1 != W for r in mrows))
    if exact:
        explained = (rep == pm.model(pm.ACTUAL, W, k, files, pats, paths) and in_class
                     and not pm.spec_check(W, k, files, pm.model(pm.IDEAL, W, k, files, pats, paths), patterns=pats, paths=paths))
    else:
        explained = (rows is not None and in_class
                     and rep == [v for v in pm.report(pm.ACTUAL, k, rows) if not pm.suppressed(files, pats, paths, v[0], v[1], v[3])])
    return [] if explained else bad


def _py_fails(case) -> bool:
    return bool(_mirror_unexplained(case, run_impl({**case, "via": "api"})))


# ------------------------------------------------------------------ main
def run(tier: str, seed: int, replay: str | None = None) -> int:
    chk = Check(PROP, tier, seed)
    chk.rule = ("seeded random multi-file projects (1-8 files, Python or TypeScript/JavaScript or mixed) built from a small statement pool "
                "with 1-3 planted runs (length W-1..3W, whole / sliced / self-overlapping / with a comment-marker twin substituted) placed in "
                "function, method and module bodies at varying indentation, with interleaved blank lines, line comments, /* */ comments, "
                "docstrings/JSDoc, imports and compound-statement headers; in mixed projects semicolon-free .js files share the Python statement text "
                "(cross-language duplicates); about 30% of the projects carry suppressions (a dry.ignore path pattern, `# dry: ignore-block/-next`, "
                "thailint ignore-file / ignore / ignore-next-line / ignore-start..end in fixed spellings, as comment lines or trailing comments); W in 2..6, min_occurrences in 2..4; about 7% of the projects are linted through `thailint dry --format json --config cfg.yaml`, most of them with the documented override `--min-lines W` while the file holds another threshold (the CLI value must win); stream `ord` uses only constructs "
                "no AST block filter applies to (model = implementation exactly, all clauses judged), stream `flt` adds class fields, decorators, "
                "multi-line calls/literals, logger calls, except/raise pairs, interfaces (stored rows must be a subset of the model's, report = "
                "model on the stored rows; soundness, mutuality and count judged; no stored row may be one the model's filter registry drops); about 30% of the `flt` and 10% of the `ord` projects configure dry.filters (1-3 switches, incl. an unknown name); "
                "on every `flt` project and a quarter of the `ord` projects the four real block filters and the real registries are asked about up to 60 line ranges "
                "per file (windows, 1-3 line ranges, ranges around logger calls / except headers / imports) and must answer like the model and like the documented reference.  A case is non-trivial when the implementation reports at "
                "least one duplicate-code violation; distinct = distinct abstract project")
    chk.trusted_base += [
        "hash(snippet) is modelled as the snippet itself: injectivity of CPython's 64-bit str hash on the windows of one project is assumed, not proved",
        "SQLite (GROUP BY / HAVING / ORDER BY file_path, start_line) is an oracle: the model receives files in file_path order; the SQL text is pinned by Gen",
        "which lines are docstring/JSDoc lines (ast / tree-sitter) and that no AST-based block filter fires on ordinary statements is parser behaviour, validated by the stored-rows comparison of every ordinary-stream case, not proved",
        "str.split() / str.strip() whitespace set (ASCII part), str.index/slicing and sep.join are modelled in Model/DryBase.v / DryFilter.v and validated by correspondence",
        "block filters: the two regular expressions (keyword-argument line, logger call) are hand-written matchers for pattern texts pinned by Gen, validated against `re` on generated lines; the multi-line ast.Call spans handed to the keyword-argument filter are parser output (Python's ast on the file text, whatever its language)",
        "suppression: which directive a comment carries is decided for a fixed table of spellings (Model/DryPipe.v spellings); the general spelling -> directive relation (regexes, rule lists, aliases) is property C04's subject and is only validated here for these spellings; dry.ignore patterns are matched against the path with the scratch root removed",
        "min_duplicate_lines = 1 and min_occurrences = 1 are outside the checked domain (W >= 2 for the statement detectors, k >= 2 for `names another location`)",
    ]
    chk.build(["theories/Props/C03.v"], ["DryGen"], known_v=["theories/Props/C03Known.v"])
    # budget: larger when an obligation broke or the hand-modelled DRY sources changed (other linters' fingerprints are ignored)
    scale = 4 if chk.broken else (3 if any("linters/dry/" in k for k in chk.fingerprint_changed) else 1)
    n_ord, n_flt = ((230, 90) if tier == "quick" else (2400, 900))
    n_ord, n_flt = n_ord * scale, n_flt * scale
    if os.environ.get("VERIF_C03_N"):   # development aid
        n_ord, n_flt = (int(x) for x in os.environ["VERIF_C03_N"].split(","))
    if replay:
        v = json.loads(Path(replay).read_text())["violation"]
        cases = [v["case"]] if "case" in v else []
    else:
        cases = corpus_cases() + gen_cases(seed, n_ord, n_flt, 0.0 if tier == "quick" else 0.3)
    impls = pool_map(run_impl, cases, procs=8)
    with scratch_dir("tv-c03-coq-") as wd:
        try:
            v1 = judge(cases, impls, wd, 1)
            # phase 2 (all candidate vectors, the ideal model against the clauses) where phase 1 leaves a question
            need = [j for j, b in enumerate(v1) if b is not None and (not all(b[2:6]) or not b[6])]
            if any(b is not None and not b[6] for b in v1):
                need = [j for j, b in enumerate(v1) if b is not None]
            v2 = judge(cases, impls, wd, 2, need)
        except RuntimeError as e:
            chk.broken.append(f"Model:evaluation of the DRY model failed ({str(e)[:400]})")
            v1, v2 = [None] * len(cases), [None] * len(cases)
    verdicts = []
    for b1, b2 in zip(v1, v2):
        if b1 is None:
            verdicts.append(None)
        else:
            # layout used below: 0 parse 1 lit 2-5 clauses 6 ideal_ok 7-11 candidates 12-14 classes
            b2 = b2 if b2 is not None else [True, b1[6], True, True, True, True]
            verdicts.append(b1[:6] + b2 + b1[7:10] + b1[10:11])
    chk.extra_cov["phase2_cases"] = sum(1 for b in v2 if b is not None)
    if cases and all(b is None for b in verdicts):
        # the Coq model could not be evaluated (a generated item failed closed / the model no longer compiles): the run
        # fails anyway; use the Python mirror only to NAME a failing input for the replay
        for case, impl in zip(cases, impls):
            if impl["failures"] or impl["junk"]:
                continue
            for fi, calls, tests in (impl.get("kw") or []):
                f = case["files"][fi]
                raw = pm.render_file(f).split("\n")
                off = [(s, e, m, pm.doc_filter_mask(f["lang"] == "py", case.get("filters", {}), calls, raw, s, e)) for s, e, m in tests]
                off = [t for t in off if t[2] != t[3]]
                if off:
                    chk.violation({"reason": "a block filter or the filter registry answers against its documented behaviour (docs/dry-linter.md `Available Filters`, "
                                             "dry.filters) on a line range of this project (verdict of the Python mirror: the Coq model could not be built/evaluated, "
                                             "see broken_obligations); entries: start, end, real answers, documented answers (1 kwarg, 2 import, 4 logger, 8 reraise, 16 registry)",
                                   "file": f["name"], "ranges": off[:5],
                                   "case": {k: case[k] for k in ("W", "k", "stream", "via", "order_seed", "storage_mode", "ignore", "filters", "cli_min_lines", "files") if k in case}})
                    break
            if chk.violations:
                break
            bad = _mirror_unexplained(case, impl)
            if bad:
                chk.violation({"reason": "duplicate-code report violates: " + ", ".join(bad) + " (verdict of the Python mirror of the model: "
                                         "the Coq model could not be built/evaluated, see broken_obligations)",
                               "case": {k: case[k] for k in ("W", "k", "stream", "via", "order_seed", "storage_mode", "ignore", "filters", "cli_min_lines", "files") if k in case},
                               "impl": [t[:7] for t in impl["viols"]]})
                break
    cands_all = None
    for case, impl, bits in zip(cases, impls, verdicts):
        nviol = len(impl["viols"])
        chk.count([case["W"], case["k"], case["stream"], case["files"]], nviol > 0)
        chk.dist("stream:" + case["stream"])
        chk.dist("via:" + case["via"])
        chk.dist(f"W:{case['W']}")
        chk.dist(f"k:{case['k']}")
        chk.dist("files:" + str(len(case["files"])))
        chk.dist("langs:" + "+".join(sorted({f["lang"] for f in case["files"]})))
        chk.dist("violations:" + ("0" if nviol == 0 else "1-4" if nviol < 5 else "5-19" if nviol < 20 else "20+"))
        chk.sample({"W": case["W"], "k": case["k"], "stream": case["stream"],
                    "files": {f["name"]: pm.render_file(f)[:400] for f in case["files"][:3]},
                    "impl": [t[6][:160] for t in impl["viols"][:4]]}, 3)
        slim = {k: case[k] for k in ("W", "k", "stream", "via", "order_seed", "storage_mode", "ignore", "filters", "cli_min_lines", "files") if k in case}
        if any((case["files"][t[0]]["lang"] == "py") != (case["files"][rf]["lang"] == "py") for t in impl["viols"] for rf, _, _ in t[5]):
            chk.dist("cross-language duplicate reported")
        if case.get("ignore"):
            chk.dist("suppression:dry.ignore pattern")
        if case.get("filters"):
            chk.dist("dry.filters configured")
        if case.get("cli_min_lines"):
            chk.dist("via:cli with --min-lines overriding the --config file")
        for kind in sorted({pm.directive_of(f["lang"], l) for f in case["files"] for l in f["lines"]} - {None}):
            chk.dist("suppression:" + kind)
        chk.dist("storage:" + case.get("storage_mode", "memory"))
        if impl["failures"]:
            chk.violation({"reason": "a rule failed internally (swallowed exception) during the run", "failures": impl["failures"][:3], "case": slim})
            continue
        if impl["junk"]:
            chk.violation({"reason": "output of the dry rule could not be interpreted: " + "; ".join(impl["junk"][:3]), "case": slim})
            continue
        if impl["note"]:
            chk.notes.append(f"case {case.get('i')}: {impl['note']}")
        if bits is None:
            continue
        chk.traces_validated += 1
        nkw = sum(len(t[2]) for t in (impl.get("kw") or []))
        if nkw:
            chk.dist("block-filter unit answers", nkw)
            for name, bit in FILTER_BITS + [("registry", 16)]:
                chk.dist("block-filter unit answers:" + name + " fired", sum(1 for t in impl["kw"] for x in t[2] if x[2] & bit))
        if impl.get("kw") is None and not any(b.startswith("Unit:") for b in chk.broken):
            chk.broken.append("Unit:the block filters / registries of src/linters/dry could not be reached (FileAnalyzer, _filter_registry, _filters): their unit-level correspondence cannot run")
        parse_ok, lit_ok = bits[0], bits[1]
        clauses = dict(zip(["sound", "mutual-unless-suppressed", "complete-unless-suppressed", "count/nothing-suppressed-reported/stored-rows-well-formed"], bits[2:6]))
        ideal_ok, cand, cls = bits[6], bits[7:12], bits[12:15]
        for name, c in zip(FLAGS, cls):
            if c:
                chk.dist("defect-class:" + name)
        info = {"case": slim, "impl": [t[:7] for t in impl["viols"]], "clauses": clauses}
        if not parse_ok:
            chk.violation({"reason": "a violation message is not the documented rendering of its fields (or the line count cannot be read back)", **info})
            continue
        if not bits[15]:
            chk.violation({"reason": "a block filter (keyword-argument, import-group, logger-call, exception-reraise) or the filter registry answers against "
                                     "its documented behaviour (docs/dry-linter.md `Available Filters`, dry.filters) on a line range of this project: "
                                     "windows are dropped or kept that the documentation says otherwise",
                           "filter_answers": [[fi, [list(x) for x in tests]] for fi, _, tests in (impl.get("kw") or [])][:4], **info})
            continue
        if not lit_ok:
            chk.correspondence_broken({"level": "leaf", "detail": "decomposed normalisation differs from normalize_line on the rendered line, a stray directive keyword occurs, the model of a block filter / of the filter registry and the real one disagree on a line range, or a stored row is one the model's registry drops", "case": slim})
        cands_all = cand if cands_all is None else [a and b for a, b in zip(cands_all, cand)]
        failed = [k for k, ok in clauses.items() if not ok]
        if not failed:
            if not cand[0]:
                chk.correspondence_broken({"level": "observable", "detail": "implementation output satisfies the property but differs from the model under the claimed quirk vector", **info})
            continue
        info["reason"] = "duplicate-code report violates: " + ", ".join(failed)
        changed = [FLAGS[i] for i in range(3) if not cand[1 + i]]
        relevant = [f for f in changed if cls[FLAGS.index(f)]]
        if cand[0] and ideal_ok and not changed:
            relevant = [f for f, c in zip(FLAGS, cls) if c]   # defects compensating one another: all classes the input is in
        if cand[0] and ideal_ok and relevant:
            for f in relevant:
                chk.known_finding(f, {"W": case["W"], "k": case["k"], "files": {x["name"]: pm.render_file(x) for x in case["files"]},
                                      "impl": [t[6] for t in impl["viols"]], "violated": failed})
        else:
            info["model_actual_matches_impl"] = cand[0]
            info["model_ideal_satisfies_property"] = ideal_ok
            info["flags_whose_removal_changes_the_model"] = changed
            info["in_defect_class"] = dict(zip(FLAGS, cls))
            chk.violation(info)
    if chk.violations and not replay:
        # minimise the first failing input (mirror-guided, confirmed by the failing predicate on the implementation)
        v = chk.violations[0]
        if "case" in v and "clauses" in v and "filter_answers" not in v:   # (the mirror that guides shrinking knows no block filters)
            try:
                small = shrink(v["case"], _py_fails)
                if _py_fails(small):
                    v["shrunk_case"] = small
                    v["shrunk_files"] = {f["name"]: pm.render_file(f) for f in small["files"]}
            except Exception as e:  # noqa: BLE001
                v["shrink_error"] = repr(e)
    if cands_all is not None and not cands_all[0]:
        alt = [i for i, ok in enumerate(cands_all) if ok]
        if alt:
            names = ["actual"] + [f"actual without {f}" for f in FLAGS] + ["ideal"]
            chk.notes.append("implementation no longer matches the claimed quirk vector but matches: " + names[alt[0]] +
                             " (a listed defect is no longer observed; the theorems hold for every vector)")
            chk.corr_broken.clear()
        elif not chk.corr_broken:
            chk.correspondence_broken({"level": "observable", "detail": "Model/Dry.v under Actual/DryActual.v disagrees with the implementation and no candidate quirk vector matches all cases"})
    return chk.finish()
