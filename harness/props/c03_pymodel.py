"""Python mirror of coq/theories/Model/Dry.v — NEVER used for verdicts.

It exists for (a) shrinking failing cases quickly, (b) labelling the input distribution (which
cases exercise which defect class).  Every verdict of the C03 check is computed by the Coq model
inside coqc (Model/DryRun.v).  Keep the two in step; a divergence only makes shrinking worse.
"""
from __future__ import annotations

WS = set("\t\n\x0b\x0c\r\x1c\x1d\x1e\x1f ")
MARKERS = ["#", "//"]
IMPORT_PREFIXES = ("import ", "from ", "export ")
IMPORT_TOKENS = ("{", "}", "} from")
LINE_MARK = {"py": "#", "ts": "//", "js": "//"}


def render_line(lang: str, l) -> str:
    kind, indent, code, cmt = l
    if kind == "D":
        return indent + code
    sep = "  " if code else ""
    if cmt is None:
        return indent + code
    if cmt[0] == "L":
        return indent + code + sep + LINE_MARK[lang] + cmt[1]
    return indent + code + sep + "/* " + cmt[1] + " */"


def render_file(f) -> str:
    return "\n".join(render_line(f["lang"], l) for l in f["lines"]) + "\n"


def ws_norm(s: str) -> str:
    out, cur = [], []
    for ch in s:
        if ch in WS:
            if cur:
                out.append("".join(cur))
                cur = []
        else:
            cur.append(ch)
    if cur:
        out.append("".join(cur))
    return " ".join(out)


def strip_text(s: str) -> str:
    for m in MARKERS:
        if m in s:
            s = s[: s.index(m)]
    return s


def has_marker(s: str) -> bool:
    return any(m in s for m in MARKERS)


def render_cmt(lang, code, cmt) -> str:
    sep = "  " if code else ""
    if cmt is None:
        return ""
    if cmt[0] == "L":
        return sep + LINE_MARK[lang] + cmt[1]
    return sep + "/* " + cmt[1] + " */"


def norm(q, lang, l) -> str:
    """q = (strip_in_code, block_kept, overlap_asym)"""
    _, _indent, code, cmt = l
    block = cmt is not None and cmt[0] == "B"
    if q[0]:
        if block and not q[1]:
            return ws_norm(strip_text(code))
        return ws_norm(strip_text(code + render_cmt(lang, code, cmt)))
    if block and q[1]:
        return ws_norm(code + ("  " if code else "") + strip_text("/* " + cmt[1] + " */"))
    return ws_norm(code)


def is_import(line: str) -> bool:
    return line.startswith(IMPORT_PREFIXES) or line in IMPORT_TOKENS


def skip_step(line: str, st: bool):
    if is_import(line) and "(" in line and ")" not in line:
        return True, True
    if st:
        return (")" not in line), True
    if is_import(line):
        return False, True
    return False, False


def tokenize(q, f):
    out, st = [], False
    for i, l in enumerate(f["lines"], start=1):
        if l[0] == "D":
            continue
        n = norm(q, f["lang"], l)
        if not n:
            continue
        st, skip = skip_step(n, st)
        if skip:
            continue
        out.append((i, n))
    return out


def windows(q, W, fi, f):
    st = tokenize(q, f)
    return [(fi, st[i][0], st[i + W - 1][0], "\n".join(c for _, c in st[i:i + W])) for i in range(len(st) - W + 1)] if W >= 1 else []


def all_rows(q, W, files):
    rows = []
    for fi, f in enumerate(files):
        rows.extend(windows(q, W, fi, f))
    return rows


def greedy(ovl, l):
    kept = []
    for x in l:
        if not any(ovl(x, k) for k in kept):
            kept.append(x)
    return kept


def blk_ovl(b, k):
    return b[0] == k[0] and b[1] <= k[2] and k[1] <= b[2]


def places(s, rows):
    return greedy(blk_ovl, [r for r in rows if r[3] == s])


def report(q, k, rows):
    """rows sorted by (file, start); returns sorted list of (file, line, col, count, occ, refs)"""
    cnt = {}
    for r in rows:
        cnt[r[3]] = cnt.get(r[3], 0) + 1
    raw = []
    for s in [s for s, c in cnt.items() if c >= 2]:
        ps = places(s, rows)
        if len(ps) == 0 or not len(ps) >= k:
            continue
        for b in ps:
            refs = [(d[0], d[1], d[2]) for d in ps if d[0] != b[0] or d[1] != b[1]]
            raw.append((b[0], b[1], 1, b[2] - b[1] + 1, len(ps), refs))
    out = []
    for f in sorted({v[0] for v in raw}):
        vs = sorted([v for v in raw if v[0] == f], key=lambda v: v[1])
        if q[2]:
            kept = greedy(lambda v1, v2: v1[1] < v2[1] + v1[3], vs)
        else:
            kept = greedy(lambda v1, v2: v1[1] < v2[1] + v2[3], vs)
        out.extend(kept)
    return sorted(out)


def model(q, W, k, files, patterns=(), paths=None):
    rep = report(q, k, all_rows(q, W, files))
    return [v for v in rep if not suppressed(files, patterns, paths, v[0], v[1], v[3])]


# ------------------------------------------------------------------ suppression (mirror of Model/DryPipe.v stage C)
SPELL = {" dry: ignore-block": "DryBlock", " dry: ignore-next": "DryNext", " thailint: ignore-file dry": "File",
         " thailint: ignore-file[dry]": "File", " thailint: ignore dry": "Line", " thailint: ignore[dry]": "Line",
         " thailint: ignore-next-line[dry]": "NextLine", " thailint: ignore-start dry": "Start", " thailint: ignore-end": "End"}
HEADER_SCAN_LINES = 10


def directive_of(lang, l):
    if l[0] != "C" or l[3] is None or l[3][0] != "L":
        return None
    k = SPELL.get(l[3][1])
    if k in ("DryBlock", "DryNext") and lang != "py":
        return None          # the dry: forms are only recognised behind `#`
    return k


def file_dirs(f):
    return [(i, directive_of(f["lang"], l), l[2] == "") for i, l in enumerate(f["lines"], start=1) if directive_of(f["lang"], l)]


def suppressed(files, patterns, paths, fi, line, count) -> bool:
    if paths is not None and any(p in paths[fi] for p in patterns):
        return True
    f = files[fi]
    dirs = file_dirs(f)
    total = len(f["lines"]) + 1
    end = line + count - 1
    for i, k, _ in dirs:
        if k == "DryBlock" and line <= min(i + 10, total) and end >= i + 1:
            return True
        if k == "DryNext" and line <= i + 1 and end >= i + 1:
            return True
        if k == "File" and i <= HEADER_SCAN_LINES:
            return True
        if k == "Line" and i == line:
            return True
        if k == "NextLine" and i == line - 1 and line > 1:
            return True
    in_block = False
    for i, k, empty in dirs:
        if i >= line:
            break
        if k == "Start" and empty:
            in_block = True
        elif k == "End" and empty:
            in_block = False
    marker_here = any(i == line and k in ("Start", "End") and empty for i, k, empty in dirs)
    return in_block and not marker_here


ACTUAL = (True, True, False)   # overlap test repaired by fix f9c5945
IDEAL = (False, False, False)


def message(paths, v) -> str:
    f, line, col, count, occ, refs = v
    m = f"Duplicate code ({count} lines, {occ} occurrences)"
    if refs:
        m += ". Also found in: " + ", ".join(f"{paths[rf]}:{s}-{e}" for rf, s, e in refs)
    return m


# ------------------------------------------------------------------ property oracle (mirror of Model/DrySpec.v)
def spec_stream(f):
    return tokenize(IDEAL, f)


def canon_range(f, s, e):
    return [c for ln, c in spec_stream(f) if s <= ln <= e]


def spec_check(W, k, files, rep, rows=None, complete=True, patterns=(), paths=None):
    """list of failed clauses of the property on a report (ideal normalisation)"""
    bad = []
    srows = all_rows(IDEAL, W, files) if rows is None else rows

    def excused(f, s, e):
        return any(r[0] == f and r[1] <= e and s <= r[2] and suppressed(files, patterns, paths, r[0], r[1], r[2] - r[1] + 1) for r in srows)
    for v in rep:
        f, line, col, count, occ, refs = v
        mine = canon_range(files[f], line, line + count - 1) if f < len(files) else None
        if not refs:
            bad.append("no-other-location")
        if mine is None or len(mine) < W:
            bad.append("block-shorter-than-W")
        for rf, s, e in refs:
            if (rf, s) == (f, line):
                bad.append("names-itself")
            if rf >= len(files) or canon_range(files[rf], s, e) != mine:
                bad.append("not-identical")
            if not any(v2[0] == rf and v2[1] <= e and s <= v2[1] + v2[3] - 1 for v2 in rep) and not excused(rf, s, e):
                bad.append("not-mutual")
        if f < len(files) and suppressed(files, patterns, paths, f, line, count):
            bad.append("suppressed-but-reported")
        me = [r for r in srows if r[0] == f and r[1] == line and r[2] == line + count - 1]
        if not me:
            bad.append("block-not-a-window")
        elif occ != len(places(me[0][3], srows)):
            bad.append("count")
    if complete:
        cnt = {}
        for r in srows:
            cnt[r[3]] = cnt.get(r[3], 0) + 1
        for s, c in cnt.items():
            if c < 2:
                continue
            ps = places(s, srows)
            if len(ps) < k:
                continue
            for b in ps:
                if not any(v2[0] == b[0] and v2[1] <= b[2] and b[1] <= v2[1] + v2[3] - 1 for v2 in rep) and not excused(b[0], b[1], b[2]):
                    bad.append("incomplete")
    return sorted(set(bad))


# ------------------------------------------------------------------ the documented block filters (docs/dry-linter.md
# "Available Filters"), Python mirror of Model/DryFilter.v *_ref: only used to NAME a failing input when the Coq model
# cannot be built (a generated item failed closed); every regular verdict is computed inside coqc
import re as _re

_KWARG = _re.compile(r"^\s*\w+\s*=\s*.+,?\s*$")
_LOGGER = _re.compile(r"^\s*(self\.)?(logger|logging|log)\.(debug|info|warning|error|critical|exception|log)\s*\(")
DOC_DEFAULT_FILTERS = {"keyword_argument_filter": True, "import_group_filter": True}


def doc_filter_mask(configured: bool, custom: dict, calls, raw: list, s: int, e: int) -> int:
    lines = raw[s - 1:e]
    ne = [t for l in lines if (t := l.strip())]
    kw = bool(lines) and 5 * sum(1 for l in lines if _KWARG.match(l)) >= 4 * len(lines) and any(a < b and a <= s and e <= b for a, b in calls)
    imp = all(t.startswith(("import ", "from ")) for t in ne)
    lg = len(ne) == 1 and bool(_LOGGER.match(ne[0]))
    rr = len(ne) == 2 and ne[0].startswith("except ") and ne[0].endswith(":") and ne[1].startswith("raise ") and " from " in ne[1]
    on = {**DOC_DEFAULT_FILTERS, **custom} if configured else {}
    reg = any(ans and on.get(name, True) for name, ans in (("keyword_argument_filter", kw), ("import_group_filter", imp),
                                                           ("logger_call_filter", lg), ("exception_reraise_filter", rr)))
    return kw * 1 + imp * 2 + lg * 4 + rr * 8 + reg * 16
