"""Python mirror of coq/theories/Model/Dry.v — NEVER used for verdicts.

It exists for (a) shrinking failing cases quickly, (b) labelling the input distribution (which
cases exercise which defect class).  Every verdict of the C03 check is computed by the Coq model
inside coqc (Model/DryRun.v).  Keep the two in step; a divergence only makes shrinking worse.
"""
from __future__ import annotations

WS = set("\t\n\x0b\x0c\r\x1c\x1d\x1e\x1f ")
MARKERS = ["#", "//"]
IMPORT_PREFIXES = ("import ", "from ", "export ")
IMPORT_TOKENS = ("{", "}", "} from")
LINE_MARK = {"py": "#", "ts": "//", "js": "//"}


def render_line(lang: str, l) -> str:
    kind, indent, code, cmt = l
    if kind == "D":
        return indent + code
    sep = "  " if code else ""
    if cmt is None:
        return indent + code
    if cmt[0] == "L":
        return indent + code + sep + LINE_MARK[lang] + cmt[1]
    return indent + code + sep + "/* " + cmt[1] + " */"


def render_file(f) -> str:
    return "\n".join(render_line(f["lang"], l) for l in f["lines"]) + "\n"


def ws_norm(s: str) -> str:
    out, cur = [], []
    for ch in s:
        if ch in WS:
            if cur:
                out.append("".join(cur))
                cur = []
        else:
            cur.append(ch)
    if cur:
        out.append("".join(cur))
    return " ".join(out)


def strip_text(s: str) -> str:
    for m in MARKERS:
        if m in s:
            s = s[: s.index(m)]
    return s


def has_marker(s: str) -> bool:
    return any(m in s for m in MARKERS)


def render_cmt(lang, code, cmt) -> str:
    sep = "  " if code else ""
    if cmt is None:
        return ""
    if cmt[0] == "L":
        return sep + LINE_MARK[lang] + cmt[1]
    return sep + "/* " + cmt[1] + " */"


def norm(q, lang, l) -> str:
    """q = (strip_in_code, block_kept, overlap_asym)"""
    _, _indent, code, cmt = l
    block = cmt is not None and cmt[0] == "B"
    if q[0]:
        if block and not q[1]:
            return ws_norm(strip_text(code))
        return ws_norm(strip_text(code + render_cmt(lang, code, cmt)))
    if block and q[1]:
        return ws_norm(code + ("  " if code else "") + strip_text("/* " + cmt[1] + " */"))
    return ws_norm(code)


def is_import(line: str) -> bool:
    return line.startswith(IMPORT_PREFIXES) or line in IMPORT_TOKENS


def skip_step(line: str, st: bool):
    if is_import(line) and "(" in line and ")" not in line:
        return True, True
    if st:
        return (")" not in line), True
    if is_import(line):
        return False, True
    return False, False


def tokenize(q, f):
    out, st = [], False
    for i, l in enumerate(f["lines"], start=1):
        if l[0] == "D":
            continue
        n = norm(q, f["lang"], l)
        if not n:
            continue
        st, skip = skip_step(n, st)
        if skip:
            continue
        out.append((i, n))
    return out


def windows(q, W, fi, f):
    st = tokenize(q, f)
    return [(fi, st[i][0], st[i + W - 1][0], "\n".join(c for _, c in st[i:i + W])) for i in range(len(st) - W + 1)] if W >= 1 else []


def all_rows(q, W, files):
    rows = []
    for fi, f in enumerate(files):
        rows.extend(windows(q, W, fi, f))
    return rows


def greedy(ovl, l):
    kept = []
    for x in l:
        if not any(ovl(x, k) for k in kept):
            kept.append(x)
    return kept


def blk_ovl(b, k):
    return b[0] == k[0] and b[1] <= k[2] and k[1] <= b[2]


def places(s, rows):
    return greedy(blk_ovl, [r for r in rows if r[3] == s])


def report(q, k, rows):
    """rows sorted by (file, start); returns sorted list of (file, line, col, count, occ, refs)"""
    cnt = {}
    for r in rows:
        cnt[r[3]] = cnt.get(r[3], 0) + 1
    raw = []
    for s in [s for s, c in cnt.items() if c >= 2]:
        ps = places(s, rows)
        if len(ps) == 0 or not len(ps) >= k:
            continue
        for b in ps:
            refs = [(d[0], d[1], d[2]) for d in ps if d[0] != b[0] or d[1] != b[1]]
            raw.append((b[0], b[1], 1, b[2] - b[1] + 1, len(ps), refs))
    out = []
    for f in sorted({v[0] for v in raw}):
        vs = sorted([v for v in raw if v[0] == f], key=lambda v: v[1])
        if q[2]:
            kept = greedy(lambda v1, v2: v1[1] < v2[1] + v1[3], vs)
        else:
            kept = greedy(lambda v1, v2: v1[1] < v2[1] + v2[3], vs)
        out.extend(kept)
    return sorted(out)


def model(q, W, k, files):
    return report(q, k, all_rows(q, W, files))


ACTUAL = (True, True, True)
IDEAL = (False, False, False)


def message(paths, v) -> str:
    f, line, col, count, occ, refs = v
    m = f"Duplicate code ({count} lines, {occ} occurrences)"
    if refs:
        m += ". Also found in: " + ", ".join(f"{paths[rf]}:{s}-{e}" for rf, s, e in refs)
    return m


# ------------------------------------------------------------------ property oracle (mirror of Model/DrySpec.v)
def spec_stream(f):
    return tokenize(IDEAL, f)


def canon_range(f, s, e):
    return [c for ln, c in spec_stream(f) if s <= ln <= e]


def spec_check(W, k, files, rep, rows=None, complete=True):
    """list of failed clauses of the property on a report (ideal normalisation)"""
    bad = []
    srows = all_rows(IDEAL, W, files) if rows is None else rows
    for v in rep:
        f, line, col, count, occ, refs = v
        mine = canon_range(files[f], line, line + count - 1) if f < len(files) else None
        if not refs:
            bad.append("no-other-location")
        if mine is None or len(mine) < W:
            bad.append("block-shorter-than-W")
        for rf, s, e in refs:
            if (rf, s) == (f, line):
                bad.append("names-itself")
            if rf >= len(files) or canon_range(files[rf], s, e) != mine:
                bad.append("not-identical")
            if not any(v2[0] == rf and v2[1] <= e and s <= v2[1] + v2[3] - 1 for v2 in rep):
                bad.append("not-mutual")
        me = [r for r in srows if r[0] == f and r[1] == line and r[2] == line + count - 1]
        if not me:
            bad.append("block-not-a-window")
        elif occ != len(places(me[0][3], srows)):
            bad.append("count")
    if complete:
        cnt = {}
        for r in srows:
            cnt[r[3]] = cnt.get(r[3], 0) + 1
        for s, c in cnt.items():
            if c < 2:
                continue
            ps = places(s, srows)
            if len(ps) < k:
                continue
            for b in ps:
                if not any(v2[0] == b[0] and v2[1] <= b[2] and b[1] <= v2[1] + v2[3] - 1 for v2 in rep):
                    bad.append("incomplete")
    return sorted(set(bad))
