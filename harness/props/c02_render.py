"""C02 abstract programs: literal / site / scope / file data, renderers to Python, TypeScript/JavaScript and Rust,
and the Coq term encoder (Model/Magic.v).

file  = {"lang": "py"|"ts"|"js"|"rs", "name": "/dir/stem.ext", "scopes": [scope]}
scope = {"kind": "Top"|"Func"|"Method"|"Nested"|"Class", "mod_attrs": None | [attr text], "attrs": [attr text], "sites": [site]}
site  = {"ctx": <ctx>, "name": identifier used by the template, "lits": [lit], "line": filled in by the renderer}
lit   = ["Int", radix, [[digit]], upper, suffix] | ["Float", [digit], [digit], None | [neg, [digit]], suffix]
        | ["Bool", b] | ["Str", text] | ["Ident", name]
radix = "Dec" | "Hex" | "Oct" | "Bin" | "HexU" | "OctU" | "BinU" (upper-case prefix); exponent = [negative, [digit], upper-case E]
"""
from __future__ import annotations

from harness.coq import coq_bool, coq_list, coq_string

EXT = {"py": ".py", "ts": ".ts", "js": ".js", "rs": ".rs"}
COQ_LANG = {"py": "Py", "ts": "Ts", "js": "Ts", "rs": "Rs"}
BASE = {"Dec": 10, "Hex": 16, "Oct": 8, "Bin": 2, "HexU": 16, "OctU": 8, "BinU": 2}
PREFIX = {"Dec": "", "Hex": "0x", "Oct": "0o", "Bin": "0b", "HexU": "0X", "OctU": "0O", "BinU": "0B"}

# same-line comments: (text after the comment leader, rules the ignore parser reads: None = no directive, [] = bare ignore)
DIR_POOL = [
    ("thailint: ignore[magic-numbers]", ["magic-numbers"]),
    ("thailint: ignore[magic-numbers] - Industry standard timeout", ["magic-numbers"]),
    ("thailint: ignore[nesting]", ["nesting"]),
    ("thailint: ignore[nesting,magic-numbers]", ["nesting", "magic-numbers"]),
    ("thailint: ignore[magic-numbers, dry]", ["magic-numbers", "dry"]),
    ("thailint: ignore[magic-numbers.numeric-literal]", ["magic-numbers.numeric-literal"]),
    ("thailint: ignore", []),
    ("just a note about 42", None),
]


def coq_dirs(f) -> str:
    out = []
    for sc in f["scopes"]:
        for s in sc["sites"]:
            if s.get("dir") is not None:
                text, rules = DIR_POOL[s["dir"]]
                rs = "None" if rules is None else "(Some " + coq_list([coq_string(r) for r in rules]) + ")"
                out.append(f"({s['line']}, mk_dir {coq_string(text)} {rs})")
    return coq_list(out)


MULTI = {"Arg", "Elts", "UpperTuple", "UpperBinop", "TsEnum", "DictKeys", "Range", "Decorator", "Nested", "Macro", "RsEnum"}
CTXS = {
    "py": ["Assign", "Arg", "Return", "Default", "Elts", "Compare", "Binop", "Mul", "Neg", "Upper", "UpperNeg", "UpperAnn",
           "UpperTuple", "UpperBinop", "Range", "Enumerate", "EnumerateKw", "StrRepeatL", "StrRepeatR", "DictKeys",
           "Interp", "Decorator", "Nested", "Match", "Kwarg", "Index", "Lambda"],
    "ts": ["Assign", "Arg", "Return", "Default", "Elts", "Compare", "Binop", "Mul", "Neg", "Upper", "UpperNeg", "UpperAnn",
           "UpperTuple", "UpperBinop", "TsEnum", "Interp", "Nested", "Match", "Index", "Lambda", "TsField"],
    "rs": ["Assign", "Arg", "Return", "Elts", "Compare", "Binop", "Mul", "Neg", "Upper", "UpperNeg", "UpperTuple", "UpperBinop", "RsStatic",
           "Macro", "Nested", "Match", "Index", "Lambda", "RsEnum"],
}
JS_EXCLUDED = {"UpperAnn", "TsEnum", "TsField"}
ITEM_CTXS = {"Upper", "UpperNeg", "UpperTuple", "UpperBinop", "RsStatic"}          # Rust items: allowed at module level


def ctx_ok(lang: str, scope_kind: str, ctx: str) -> bool:
    if ctx not in CTXS["ts" if lang == "js" else lang] or (lang == "js" and ctx in JS_EXCLUDED):
        return False
    if ctx == "Return":
        return scope_kind in ("Func", "Method", "Nested")
    if ctx == "TsEnum":
        return scope_kind == "Top"
    if lang == "rs" and scope_kind == "Top":
        return ctx in ITEM_CTXS or ctx == "RsEnum"
    if lang == "rs" and scope_kind == "Class":
        return ctx in ITEM_CTXS
    if lang in ("ts", "js"):
        return (ctx == "TsField") == (scope_kind == "Class")
    return True


# ------------------------------------------------------------------ literals
def digit_char(d: int, upper: bool) -> str:
    return "0123456789ABCDEF"[d] if upper else "0123456789abcdef"[d]


def lit_text(lang: str, lit) -> str:
    k = lit[0]
    if k == "Int":
        _, radix, groups, upper, suffix = lit
        return PREFIX[radix] + "_".join("".join(digit_char(d, upper) for d in g) for g in groups) + suffix
    if k == "Float":
        _, ip, fp, ex, suffix = lit
        s = "".join(map(str, ip))
        if fp:
            s += "." + "".join(map(str, fp))
        if ex is not None:
            s += ("E" if len(ex) > 2 and ex[2] else "e") + ("-" if ex[0] else "") + "".join(map(str, ex[1]))
        return s + suffix
    if k == "Bool":
        return ("True" if lit[1] else "False") if lang == "py" else ("true" if lit[1] else "false")
    if k == "Str":
        return '"' + lit[1] + '"'
    return lit[1]


def lit_is_numeric(lit) -> bool:
    return lit[0] in ("Int", "Float")


def lit_value(lit):
    """exact value as (mantissa, exponent): mantissa * 10**exponent"""
    if lit[0] == "Int":
        v = 0
        for g in lit[2]:
            for d in g:
                v = v * BASE[lit[1]] + d
        return (v, 0)
    _, ip, fp, ex, _ = lit
    m = int("".join(map(str, ip + fp)) or "0")
    ev = 0 if ex is None else int("".join(map(str, ex[1])))
    e = -len(fp) + (0 if ex is None else (-ev if ex[0] else ev))
    return (m, e)


def norm(m: int, e: int):
    if m == 0:
        return (0, 0)
    while m % 10 == 0:
        m //= 10
        e += 1
    return (m, e)


# ------------------------------------------------------------------ rendering
def _stmt(lang: str, site, k: int):
    """the statement of a site: one line, or (lines, index of the line holding the literals)"""
    c, nm = site["ctx"], site.get("name") or "v"
    ls = [lit_text(lang, l) for l in site["lits"]]
    one, many = ls[0], ", ".join(ls)
    prod = " * ".join(ls) if len(ls) > 1 else f"x * {one}"          # UpperBinop: one product (at most two literals)
    if lang == "py":
        return {
            "Assign": f"{nm} = {one}", "Arg": f"{nm}({many})", "Return": f"return {one}",
            "Default": f"def g{k}(a={one}): pass", "Elts": f"{nm} = [{many}]", "Compare": f"if x > {one}: pass",
            "Binop": f"{nm} = x + {one}", "Mul": f"{nm} = x * {one}", "Neg": f"{nm} = -{one}",
            "Upper": f"{nm} = {one}", "UpperNeg": f"{nm} = -{one}", "UpperAnn": f"{nm}: int = {one}",
            "UpperTuple": f"{nm} = ({many},)", "UpperBinop": f"{nm} = {prod}", "Range": f"for i in range({many}): pass",
            "Enumerate": f"for i, w in enumerate(xs, {one}): pass",
            "EnumerateKw": f"for i, w in enumerate(xs, start={one}): pass",
            "StrRepeatL": f's{k} = "-" * {one}', "StrRepeatR": f's{k} = {one} * "-"',
            "DictKeys": f"{nm} = {{" + ", ".join(f'{t}: "k{j}"' for j, t in enumerate(ls)) + "}",
            "Interp": f"{nm} = f'v{{{one}}}'", "Decorator": ([f"@{nm}({many})", f"def g{k}(): pass"], 0),
            "Nested": f"{nm} = [[{many}]]", "Match": (["match x:", f"    case {one}: pass"], 1),
            "Kwarg": f"{nm}(key={one})", "Index": f"{nm} = x[{one}]", "Lambda": f"{nm} = lambda y: y + {one}",
        }[c]
    if lang in ("ts", "js"):
        ann = ": number" if lang == "ts" else ""
        return {
            "Assign": f"let {nm} = {one};", "Arg": f"{nm}({many});", "Return": f"return {one};",
            "Default": f"function g{k}(a = {one}) {{}}", "Elts": f"let {nm} = [{many}];", "Compare": f"if (x > {one}) {{}}",
            "Binop": f"let {nm} = x + {one};", "Mul": f"let {nm} = x * {one};", "Neg": f"let {nm} = -{one};",
            "Upper": f"const {nm} = {one};", "UpperNeg": f"const {nm} = -{one};", "UpperAnn": f"const {nm}{ann} = {one};",
            "UpperTuple": f"const {nm} = [{many}];", "UpperBinop": f"const {nm} = {prod};",
            "TsEnum": f"enum E{k} {{ " + ", ".join(f"M{j} = {t}" for j, t in enumerate(ls)) + " }",
            "Interp": f"let {nm} = `v${{{one}}}`;", "Nested": f"let {nm} = [[{many}]];",
            "Match": f"switch (x) {{ case {one}: break; }}", "Index": f"let {nm} = x[{one}];",
            "Lambda": f"let {nm} = (y) => y + {one};", "TsField": f"static readonly {nm} = {one};",
        }[c]
    return {
        "Assign": f"let {nm} = {one};", "Arg": f"{nm}({many});", "Return": f"return {one};",
        "Elts": f"let {nm} = [{many}];", "Compare": f"if x > {one} {{}}",
        "Binop": f"let {nm} = x + {one};", "Mul": f"let {nm} = x * {one};", "Neg": f"let {nm} = -{one};",
        "Upper": f"const {nm}: i64 = {one};", "UpperNeg": f"const {nm}: i64 = -{one};",
        "UpperTuple": f"const {nm}: &[i64] = &[{many}];", "UpperBinop": f"const {nm}: i64 = {prod};", "RsStatic": f"static {nm}: i64 = {one};",
        "Macro": f"{nm}!({many});", "Nested": f"let {nm} = [[{many}]];", "Match": f"match x {{ {one} => {{}}, _ => {{}} }}",
        "Index": f"let {nm} = x[{one}];", "Lambda": f"let {nm} = |y| y + {one};",
        "RsEnum": f"enum E{k} {{ " + ", ".join(f"M{j} = {t}" for j, t in enumerate(ls)) + " }",
    }[c]


def render(f, top_offset: int = 0) -> str:
    """source text of the file; fills in site["line"]"""
    lang = f["lang"]
    out: list[str] = []
    cm = "#" if lang == "py" else "//"
    for _ in range(top_offset):
        out.append(f"{cm} header")

    def emit(ind: int, text: str):
        out.append("    " * ind + text)

    def sites(ind: int, sc, need_body: bool):
        for s in sc["sites"]:
            st = _stmt(lang, s, len(out) + 1)
            lines, at = st if isinstance(st, tuple) else ([st], 0)
            s["line"] = len(out) + 1 + at
            if s.get("dir") is not None:                      # trailing comment on the line that holds the literals
                lines = list(lines)
                lines[at] += f"  {cm} {DIR_POOL[s['dir']][0]}"
            for ln in lines:
                emit(ind, ln)
        if need_body and not sc["sites"] and lang == "py":
            emit(ind, "pass")

    for n, sc in enumerate(f["scopes"]):
        k = sc["kind"]
        if lang == "py":
            if k == "Top":
                sites(0, sc, False)
            elif k == "Class":
                emit(0, f"class K{n}:")
                sites(1, sc, True)
            elif k == "Func":
                emit(0, f"def f{n}(x):")
                sites(1, sc, True)
            elif k == "Method":
                emit(0, f"class K{n}:")
                emit(1, "def m(self, x):")
                sites(2, sc, True)
            else:
                emit(0, f"def f{n}(x):")
                emit(1, "def inner(y):")
                sites(2, sc, True)
                emit(1, "return inner")
        elif lang in ("ts", "js"):
            ty = ": number" if lang == "ts" else ""
            if k == "Top":
                sites(0, sc, False)
            elif k == "Class":
                emit(0, f"class K{n} {{")
                sites(1, sc, False)
                emit(0, "}")
            elif k == "Func":
                emit(0, f"function f{n}(x{ty}) {{")
                sites(1, sc, False)
                emit(0, "}")
            elif k == "Method":
                emit(0, f"class K{n} {{")
                emit(1, f"m(x{ty}) {{")
                sites(2, sc, False)
                emit(1, "}")
                emit(0, "}")
            else:
                emit(0, f"function f{n}(x{ty}) {{")
                emit(1, f"const inner = (y{ty}) => {{")
                sites(2, sc, False)
                emit(1, "};")
                emit(0, "}")
        else:
            ind = 0
            if sc.get("mod_attrs") is not None:
                for a in sc["mod_attrs"]:
                    emit(0, a)
                emit(0, f"mod m{n} {{")
                ind = 1
            if k == "Top":
                sites(ind, sc, False)
            elif k == "Class":
                emit(ind, f"impl K{n} {{")
                sites(ind + 1, sc, False)
                emit(ind, "}")
            elif k == "Func":
                for a in sc["attrs"]:
                    emit(ind, a)
                emit(ind, f"fn f{n}(x: i64) {{")
                sites(ind + 1, sc, False)
                emit(ind, "}")
            elif k == "Method":
                emit(ind, f"impl K{n} {{")
                for a in sc["attrs"]:
                    emit(ind + 1, a)
                emit(ind + 1, "fn m(&self, x: i64) {")
                sites(ind + 2, sc, False)
                emit(ind + 1, "}")
                emit(ind, "}")
            else:
                for a in sc["attrs"]:
                    emit(ind, a)
                emit(ind, f"fn f{n}(x: i64) {{")
                emit(ind + 1, "fn inner(y: i64) {")
                sites(ind + 2, sc, False)
                emit(ind + 1, "}")
                emit(ind, "}")
            if sc.get("mod_attrs") is not None:
                emit(0, "}")
    return "\n".join(out) + "\n"


# ------------------------------------------------------------------ Coq terms (Model/Magic.v)
def coq_z(n: int) -> str:
    return f"({n})%Z"


def coq_nats(xs) -> str:
    return coq_list([str(x) for x in xs])


def coq_lit(lit) -> str:
    k = lit[0]
    if k == "Int":
        return f"(LInt R{lit[1]} {coq_list([coq_nats(g) for g in lit[2]])} {coq_bool(lit[3])} {coq_string(lit[4])})"
    if k == "Float":
        ex = "None" if lit[3] is None else f"(Some (({coq_bool(lit[3][0])}, {coq_bool(len(lit[3]) > 2 and lit[3][2])}), {coq_nats(lit[3][1])}))"
        return f"(LFloat {coq_nats(lit[1])} {coq_nats(lit[2])} {ex} {coq_string(lit[4])})"
    if k == "Bool":
        return f"(LBool {coq_bool(lit[1])})"
    if k == "Str":
        return f"(LStr {coq_string(lit[1])})"
    return f"(LIdent {coq_string(lit[1])})"


def coq_site(s) -> str:
    return f"(mk_site C{s['ctx']} {coq_string(s.get('name') or 'v')} {coq_list([coq_lit(l) for l in s['lits']])} {s['line']})"


def coq_scope(sc) -> str:
    ma = "None" if sc.get("mod_attrs") is None else f"(Some {coq_list([coq_string(a) for a in sc['mod_attrs']])})"
    return (f"(mk_scope S{sc['kind']} {ma} {coq_list([coq_string(a) for a in sc.get('attrs', [])])} "
            f"{coq_list([coq_site(s) for s in sc['sites']])})")


def coq_file(f) -> str:
    return f"(mk_file {coq_string(f['name'])} {coq_list([coq_scope(sc) for sc in f['scopes']])})"


def coq_num(m: int, e: int) -> str:
    return f"({coq_z(m)}, {coq_z(e)})"
