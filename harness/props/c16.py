"""C16 — SRP linter applies its method, size and keyword thresholds exactly.

Generator: seeded random source files (Python / TypeScript / JavaScript / Rust) built from a nested
render tree (classes with members of every kind, bodies made of code / blank / comment / block-comment /
docstring lines, nested classes, Rust structs + inherent / trait / generic impl blocks inside modules),
rendered to text together with the flat abstract input of the Coq model (source lines with their kind,
class / struct / impl records with node positions and direct members).  Every file is linted under a
sweep of configurations whose thresholds sit on, below and above the counts of one of its classes,
with and without per-language override sections and keyword settings."""
from __future__ import annotations

import json
import os
from pathlib import Path

from harness import coq
from harness.common import drain_failures, make_orchestrator, parse_json_violations, pool_map, rng_for, run_cli, scratch_dir
from harness.framework import Check

PROP = "C16"
FLAGS = ["q_py_hash_in_string", "q_ts_nonpublic_counted", "q_ts_accessor_counted", "q_ts_block_comment_counted",
         "q_rs_name_collision", "q_rs_block_comment_counted", "q_py_setter_counted", "q_py_cached_property_counted", "q_ts_class_expr_skipped"]
LANG_FLAGS = {"py": [FLAGS[0], FLAGS[6], FLAGS[7]], "ts": FLAGS[1:4] + [FLAGS[8]], "js": FLAGS[1:4] + [FLAGS[8]], "rs": FLAGS[4:6]}
# defects of the Python mirror: the ones still present ...
ACTUAL = frozenset({"py_hash", "ts_nonpublic", "ts_accessor", "ts_block", "rs_collision", "rs_block", "py_setter", "py_cached", "ts_class_expr"})
# ... and the ones repaired by fix: commits (known.d status "fixed: ..."): observing one again is a violation
FIXED_GROUPS = [(("q_ts_loc_raw_span",), {"ts_loc_raw"}), (("q_ts_abstract_skipped",), {"ts_abstract"}),
                (("q_rs_trait_first_ident",), {"rs_trait"}), (("q_rs_generic_impl_lost",), {"rs_generic"}),
                (("q_rs_trait_first_ident", "q_rs_generic_impl_lost"), {"rs_trait", "rs_generic"})]
HEADER = "From TL Require Import Lib.Base Lib.GenTypes Model.SrpTypes Model.SrpSpec Model.Srp Model.SrpRun Model.SrpCliSpec Model.SrpCli Actual.SrpActual.\n"
EXT = {"py": ".py", "ts": ".ts", "js": ".js", "rs": ".rs"}
COQ_LANG = {"py": "Py", "ts": "Ts", "js": "Js", "rs": "Rs"}
LANG_KEY = {"py": "python", "ts": "typescript", "js": "javascript", "rs": "rust"}
INDENT = {"py": 4, "ts": 2, "js": 2, "rs": 4}
DEFAULT_KEYWORDS = ["Manager", "Handler", "Processor", "Utility", "Helper"]

CLASS_NAMES = ["User", "Account", "DataManager", "RequestHandler", "OrderProcessor", "StringUtility", "PathHelper", "Manager",
               "handler", "Managerial", "Node", "Tree", "UserService", "ApiController", "Svc", "Helpers", "Repo", "Cache", "Shape"]
PUB_NAMES = ["run", "load", "save", "get_x", "process", "render", "update", "close", "open_file", "fetch", "build", "parse",
             "emit", "reset", "handle", "compute", "a", "b2", "toJson", "validate"]
DUNDERS = ["__init__", "__str__", "__repr__", "__eq__", "__len__", "__call__"]
PUBLIC_KINDS = {"MPlain", "MAsync", "MStatic", "MClassM", "MPublicKw", "MPubFn"}
METHOD_KINDS = {"py": ["MPlain", "MPlain", "MPlain", "MAsync", "MStatic", "MClassM", "MProperty", "MSetter", "MCachedProp", "MField"],
                "ts": ["MPlain", "MPlain", "MPlain", "MAsync", "MStatic", "MProperty", "MSetter", "MCtor", "MPublicKw", "MPrivateKw", "MProtectedKw",
                       "MHashPrivate", "MField"],
                "js": ["MPlain", "MPlain", "MPlain", "MAsync", "MStatic", "MProperty", "MSetter", "MCtor", "MHashPrivate", "MField"],
                "rs": ["MPlain", "MPlain", "MPubFn", "MPubFn", "MAsync", "MStatic", "MField"]}


# ------------------------------------------------------------------ render tree
def line(kind, text):
    return ["line", kind, text]


def block(role, meta, heads, kids, foots):
    return ["block", role, meta, heads, kids, foots]


class Gen:
    """random render trees; `plain` switches every defect class of the current tree off (used for the corpus twins)"""

    def __init__(self, r, lang, size=1.0):
        self.r, self.lang, self.size = r, lang, size
        self.n = 0

    # -- lines
    def body_line(self):
        r, lang = self.r, self.lang
        k = r.choices(["code", "blank", "comment", "block", "codecomment"], [6, 2, 2, 1 if lang != "py" else 0, 1])[0]
        self.n += 1
        if k == "blank":
            return line("LBlank", "")
        if k == "comment":
            return line("LComment", ("# " if lang == "py" else "// ") + r.choice(["note", "todo: tidy", "x = 1", "class Fake:", "}"]))
        if k == "block":
            return line("LBlockComment", "/* " + r.choice(["block", "fn hidden() {}", "// inner"]) + " */")
        tail = "" if k == "code" else ("  # why" if lang == "py" else "  // why")
        if lang == "py":
            return line("LCode", r.choice([f"v{self.n} = {self.n}", f"s{self.n} = '# no comment'", f"print({self.n})"]) + tail)
        if lang == "rs":
            return line("LCode", r.choice([f"let v{self.n} = {self.n};", f"let s{self.n} = \"// no comment\";"]) + tail)
        return line("LCode", r.choice([f"let v{self.n} = {self.n};", f"const s{self.n} = '// no comment';", f"console.log({self.n});"]) + tail)

    def docstring(self):
        """a multi-line Python string statement: its blank lines are blank lines, its # lines are not comments"""
        r = self.r
        out = [line("LCode", '"""' + r.choice(["Summary.", "Do the thing", "Doc"]))]
        for _ in range(r.randint(0, 3)):
            out.append(r.choice([line("LBlank", ""), line("LStrHash", "# " + r.choice(["heading", "x = 1  (example)", "not a comment"])),
                                 line("LCode", "more text"), line("LStrHash", "#!shebang-like")]))
        out.append(line("LCode", '"""'))
        return out

    def body(self, depth, allow_class=True):
        r, lang = self.r, self.lang
        kids = []
        if lang == "py" and r.random() < 0.3:
            kids += self.docstring()
        for _ in range(r.randint(0, int(4 * self.size))):
            kids.append(self.body_line())
        if allow_class and lang != "rs" and depth < 2 and r.random() < 0.08:
            kids.append(self.klass(depth + 1))
        if lang == "py":
            kids.append(line("LCode", r.choice(["pass", "return 1", "return None"])))
        elif r.random() < 0.6:
            kids.append(line("LCode", "return 1;" if lang != "rs" else "let _r = 1;"))
        return kids

    # -- members
    def member_name(self, kind, used):
        r = self.r
        if kind == "MCtor":
            return "constructor"
        base = r.choice(PUB_NAMES)
        style = r.choices(["pub", "priv", "dunder"], [6, 3, 1 if self.lang == "py" else 0])[0]
        if kind in ("MField",):
            style = r.choice(["pub", "priv"])
        name = base if style == "pub" else ("_" + base if style == "priv" else r.choice(DUNDERS))
        if self.lang == "rs" and kind == "MField":
            name = name.upper()
        i = 0
        cand = name
        while cand in used or cand == "constructor":
            i += 1
            cand = f"{name}{i}" if not name.endswith("__") else f"__x{i}__"
        used.add(cand)
        return cand

    def member(self, kind, name, depth, variant=None):
        r, lang = self.r, self.lang
        meta = {"kind": kind, "name": name}
        one = r.random() < 0.35
        if kind == "MField":
            head = {"py": f"{name} = 1", "ts": f"{name} = 1;", "js": f"{name} = 1;", "rs": f"const {name}: i32 = 1;"}[lang]
            return block("member", meta, [head], [], [])
        if lang == "py":
            deco = {"MStatic": ["@staticmethod"], "MClassM": ["@classmethod"], "MProperty": ["@property"], "MCachedProp": ["@cached_property"],
                    "MSetter": [f"@{name}.{variant or 'setter'}"]}.get(kind, [])
            args = {"MStatic": "", "MClassM": "cls", "MSetter": "self" if variant == "deleter" else "self, value"}.get(kind, "self")
            kw = "async def" if kind == "MAsync" else "def"
            if one:
                return block("member", meta, deco + [f"{kw} {name}({args}): return 1"], [], [])
            return block("member", meta, deco + [f"{kw} {name}({args}):"], self.body(depth), [])
        if lang in ("ts", "js"):
            pre = {"MAsync": "async ", "MStatic": "static ", "MProperty": "get ", "MSetter": "set ", "MPublicKw": "public ", "MPrivateKw": "private ",
                   "MProtectedKw": "protected ", "MHashPrivate": "#"}.get(kind, "")
            par = "value" if kind == "MSetter" else ""
            if one:
                return block("member", meta, [f"{pre}{name}({par}) {{ return{'' if kind == 'MSetter' else ' 1'}; }}"], [], [])
            kids = self.body(depth)
            if kind == "MSetter":
                kids = [k for k in kids if not (k[0] == "line" and k[2].startswith("return"))]
            return block("member", meta, [f"{pre}{name}({par}) {{"], kids, ["}"])
        pre = {"MPubFn": "pub fn", "MAsync": "async fn"}.get(kind, "fn")
        args = "" if kind == "MStatic" else "&self"
        if one:
            return block("member", meta, [f"{pre} {name}({args}) {{}}"], [], [])
        return block("member", meta, [f"{pre} {name}({args}) {{"], self.body(depth, allow_class=False), ["}"])

    def members(self, depth, n_methods=None):
        r, lang = self.r, self.lang
        used = set()
        kids = []
        n = r.randint(0, int(9 * self.size)) if n_methods is None else n_methods
        has_ctor = False
        for _ in range(n):
            kind = r.choice(METHOD_KINDS[lang])
            if kind == "MCtor":
                if has_ctor:
                    kind = "MPlain"
                has_ctor = True
            if r.random() < 0.35:
                k = self.body_line()
                if k[1] != "LCode":       # between members only blank / comment lines
                    kids.append(k)
            name = self.member_name(kind, used)
            if kind == "MSetter" and lang == "py":      # a setter / deleter belongs to a property of the same name defined before it
                kids.append(self.member("MProperty", name, depth))
                kids.append(self.member("MSetter", name, depth, variant=r.choice(["setter", "setter", "deleter"])))
                continue
            kids.append(self.member(kind, name, depth))
        return kids

    # -- classes
    def klass(self, depth, name=None, n_methods=None):
        r, lang = self.r, self.lang
        name = name or r.choice(CLASS_NAMES)
        pre, deco_in = [], 0
        if lang == "py":
            ckind = "CPlain"
            if r.random() < 0.2:       # decorators sit above the `class` line: outside the ClassDef line range
                pre = r.choice([["@decor"], ["@decor", "@other(1,", "       2)"], ["@dataclass(frozen=True)"]])
            if r.random() < 0.2:       # bases wrapped over several lines: all inside the line range
                heads = [f"class {name}(", "    Base,", "    Other,", "):"]
            else:
                heads = [f"class {name}{r.choice(['', '', '(object)', '(Base)'])}:"]
        else:
            ckind = r.choices(["CPlain", "CExport", "CExportDefault", "CAbstract", "CExportAbstract", "CExprNamed"],
                              [6, 2, 0.7, 1 if lang == "ts" else 0, 0.5 if lang == "ts" else 0, 0.9])[0]
            if depth > 0:
                ckind = "CPlain" if ckind in ("CExport", "CExportDefault") else ("CAbstract" if ckind == "CExportAbstract" else ckind)
            expr_prefix = ""
            if ckind == "CExprNamed":      # a named class expression: `const UserCtor = class User {` ... `};`
                var = name + "Ctor"
                forms = [f"const {var} = ", f"let {var} = "]
                if depth == 0:
                    forms += [f"export const {var} = "] + (["module.exports = ", f"exports.{var} = "] if lang == "js" else [])
                expr_prefix = r.choice(forms)
            kw = {"CPlain": "", "CExport": "export ", "CExportDefault": "export default ", "CAbstract": "abstract ", "CExportAbstract": "export abstract ",
                  "CExprNamed": expr_prefix}[ckind]
            form = r.choices(["one", "ext", "wrap2", "wrap3"], [5, 2, 1.5, 1.5 if lang == "ts" else 0])[0]
            if form == "one":
                heads = [f"{kw}class {name} {{"]
            elif form == "ext":
                heads = [f"{kw}class {name} extends Base {{"]
            elif form == "wrap2":
                heads = [f"{kw}class {name}", "  extends Base {"]
            else:
                heads = [f"{kw}class {name}", "  extends BaseView", "  implements Renderable, Disposable {"]
            if lang == "ts" and ckind != "CExprNamed" and r.random() < 0.2:
                deco = r.choice([["@Injectable()"], ["@Component({ selector: 'app-x',", "  template: '<p></p>' })"]])
                if ckind in ("CExport", "CExportDefault", "CExportAbstract"):
                    pre = deco       # the decorator belongs to the export_statement, not to the class node
                else:
                    heads = deco + heads   # the class node starts at its decorator, it is reported at its `class` line
                    deco_in = len(deco)
        meta = {"name": name, "ckind": ckind, "pre": pre, "deco_in": deco_in}
        if lang != "py" and ckind == "CExprNamed":
            meta["expr_prefix"] = expr_prefix
        kids = []
        if lang == "py" and r.random() < 0.35:
            kids += self.docstring() if r.random() < 0.6 else [line("LCode", '"""One line."""')]
        kids += self.members(depth, n_methods)
        if lang == "py" and depth < 2 and r.random() < 0.12:
            kids.append(self.klass(depth + 1))
        if lang == "py":
            if not any(k[0] == "block" or k[1] in ("LCode",) for k in kids):
                kids.append(line("LCode", "pass"))
            return block("class", meta, heads, kids, [])
        if not kids and r.random() < 0.5:
            heads[-1] = heads[-1] + "}"
            return block("class", meta, heads, [], [])
        return block("class", meta, heads, kids, ["};" if ckind == "CExprNamed" else "}"])

    def func(self, depth):
        lang = self.lang
        self.n += 1
        if lang == "py":
            return block("func", {}, [f"def helper{self.n}():"], self.body(depth), [])
        if lang == "rs":
            kids = self.body(depth, allow_class=False)
            if depth < 2 and self.r.random() < 0.5:     # items local to the function body
                kids = self.rust_items(depth + 1, allow_func=False) + kids
            return block("func", {"name": f"fn helper{self.n}"}, [f"fn helper{self.n}() {{"], kids, ["}"])
        return block("func", {}, [f"function helper{self.n}() {{"], self.body(depth), ["}"])

    # -- Rust items
    def struct(self, name, generic=None):
        r = self.r
        generic = (r.random() < 0.2) if generic is None else generic
        pub = r.random() < 0.4
        meta = {"name": name, "generic": generic, "pub": pub}
        pre = "pub " if pub else ""
        g = "<T>" if generic else ""
        form = r.choice(["unit", "fields", "fields", "fields"])
        if form == "unit" and not generic:
            return block("struct", meta, [f"{pre}struct {name};"], [], [])
        kids = [line("LCode", "t: T,")] if generic else []
        for _ in range(r.randint(0, int(5 * self.size))):
            self.n += 1
            k = self.body_line()
            kids.append(line("LCode", f"f{self.n}: i32,") if k[1] == "LCode" else k)
        return block("struct", meta, [f"{pre}struct {name}{g} {{"], kids, ["}"])

    def impl(self, target, generic, trait=None):
        r = self.r
        if trait is None:
            trait = r.choices([None, ["simple", r.choice(["Tr", "Runner", "Shape", "Node"])], ["scoped", "fmt", "Display"]], [6, 2, 1])[0]
        elif trait == "none":
            trait = None
        meta = {"self": target, "generic": generic, "trait": trait}
        g, ga = ("<T>", "<T>") if generic else ("", "")
        tr = "" if trait is None else ((trait[1] if trait[0] == "simple" else f"{trait[1]}::{trait[2]}") + " for ")
        return block("impl", meta, [f"impl{g} {tr}{target}{ga} {{"], self.members(1), ["}"])

    def rust_items(self, depth, allow_func=True):
        r = self.r
        items = []
        names = r.sample(["User", "Account", "DataManager", "Tree", "Node", "Shape", "PathHelper", "Repo"], r.randint(1, 3))
        generics = {}
        for nm in names:
            if r.random() < 0.85:
                st = self.struct(nm)
                generics[nm] = st[2]["generic"]
                items.append(st)
            for _ in range(r.choice([0, 1, 1, 2, 3])):
                items.append(self.impl(nm, generics.get(nm, r.random() < 0.2)))
        if allow_func and r.random() < 0.25:
            items.append(self.func(depth))
        r.shuffle(items)
        out = []
        for it in items:
            if r.random() < 0.3:
                k = self.body_line()
                if k[1] != "LCode":
                    out.append(k)
            out.append(it)
        return out

    # -- files
    def file(self):
        r, lang = self.r, self.lang
        top = []
        if lang == "rs":
            top.append(line("LCode", "use std::fmt;"))
            top += self.rust_items(0)
            for i in range(r.choice([0, 1, 1, 2])):
                kids = self.rust_items(1)
                if r.random() < 0.4:
                    kids.append(block("mod", {"name": "inner"}, [r.choice(["mod inner {", "pub mod inner {"])], self.rust_items(2, allow_func=False), ["}"]))
                top.append(block("mod", {"name": f"m{i}"}, [r.choice([f"mod m{i} {{", f"pub mod m{i} {{"])], kids, ["}"]))
            return top
        if lang == "py" and r.random() < 0.5:
            top.append(line("LCode", "import os"))
        for _ in range(r.randint(1, 3)):
            if r.random() < 0.3:
                k = self.body_line()
                top.append(k if k[1] != "LCode" or lang != "py" else line("LCode", "X = 1"))
            if r.random() < 0.2:
                top.append(self.func(0))
            top.append(self.klass(0))
        if r.random() < 0.3:
            top.append(line("LComment", "# tail" if lang == "py" else "// tail"))
        return top


def trim_python(kids):
    """Python: the source extent of a compound statement ends at its last code line.  Move trailing blank /
    comment lines of every container out to its parent (they stay in the text, after the container)."""
    out = []
    for k in kids:
        if k[0] == "block":
            inner, moved = _trim_container(k)
            out.append(inner)
            out.extend(moved)
        else:
            out.append(k)
    return out


def _trim_container(b):
    kids = trim_python(b[4])
    moved = []
    while kids and kids[-1][0] == "line" and kids[-1][1] in ("LBlank", "LComment"):
        moved.insert(0, kids.pop())
    return ["block", b[1], b[2], b[3], kids, b[5]], moved


# ------------------------------------------------------------------ rendering: text + flat abstract input
def render(lang, tree, top_offset=0, tab=False):
    """text + flat abstract input.  Lines carry their RAW text (indentation, trailing blanks): the Coq model applies its
    own str.strip().  tab: indent TS/JS/Rust with one tab per level"""
    if lang == "py":
        tree = trim_python(tree)
        tab = False
    ind = 1 if tab else INDENT[lang]
    unit = "\t" if tab else " "
    out = []          # (kind, stripped text, rendered text)
    flat = {"classes": [], "structs": [], "impls": []}

    def put(kind, text, depth, ws_variant=0):
        n = len(out)
        if kind == "LBlank":
            out.append((kind, "", ["", unit * (ind * depth), "\t", "   "][n % 4] if ws_variant else ""))
        else:
            trail = " " if n % 11 == 5 else ("\t" if n % 13 == 7 else ("  " if n % 17 == 3 else ""))
            out.append((kind, text.strip(), unit * (ind * depth) + text + trail))

    def emit(node, depth, owner, path):
        if node[0] == "line":
            put(node[1], node[2], depth, ws_variant=(len(out) % 3 == 0))
            return
        _, role, meta, heads, kids, foots = node
        for h in meta.get("pre", []):
            put("LCode", h, depth)
        start = len(out) + 1
        for h in heads:
            put("LCode", h, depth)
        rec = None
        if role == "class":
            off = {"CPlain": 0, "CExport": 7, "CExportDefault": 15, "CAbstract": 0, "CExportAbstract": 7,
                   "CExprNamed": len(meta.get("expr_prefix", ""))}[meta["ckind"]]
            deco = meta.get("deco_in", 0)
            rec = {"name": meta["name"], "ckind": meta["ckind"], "line": start + deco, "col": ind * depth + off, "deco": deco, "len": 0, "members": []}
            flat["classes"].append(rec)
        elif role == "struct":
            rec = {"name": meta["name"], "path": list(path), "generic": meta["generic"], "line": start, "col": ind * depth, "len": 0}
            flat["structs"].append(rec)
        elif role == "impl":
            rec = {"self": meta["self"], "trait": meta["trait"], "generic": meta["generic"], "path": list(path), "line": start, "len": 0, "members": []}
            flat["impls"].append(rec)
        elif role == "member" and owner is not None:
            owner["members"].append({"kind": meta["kind"], "name": meta["name"]})
        sub_owner = rec if role in ("class", "impl") else None
        sub_path = path + [meta["name"]] if role == "mod" or (role == "func" and "name" in meta) else path
        for k in kids:
            emit(k, depth + 1, sub_owner, sub_path)
        for t in foots:
            put("LCode", t, depth)
        if rec is not None:
            rec["len"] = len(out) - start + 1

    for _ in range(top_offset):
        put("LBlank", "", 0)
    for node in tree:
        emit(node, 0, None, [])
    text = "\n".join(t for _, _, t in out) + "\n"
    flat["lines"] = [[k, t] for k, _, t in out]
    return text, flat


# ------------------------------------------------------------------ ground truth used to place thresholds (not for judging)
def _is_code(k):
    return k in ("LCode", "LStrHash")


def _public(m):
    return m["kind"] in PUBLIC_KINDS and not m["name"].startswith("_")


def units(lang, flat):
    """per class / struct: name, documented method count and LOC, plus rough alternative counts (raw span, all members)"""
    ls = flat["lines"]

    def loc(start, n):
        return sum(1 for k, _ in ls[start - 1:start - 1 + n] if _is_code(k))
    out = []
    if lang == "rs":
        for s in flat["structs"]:
            own = [i for i in flat["impls"] if i["self"] == s["name"] and i["path"] == s["path"]]
            byname = [i for i in flat["impls"] if i["self"] == s["name"]]
            out.append({"name": s["name"], "line": s["line"], "col": s["col"], "mc": sum(sum(1 for m in i["members"] if _public(m)) for i in own),
                        "loc": loc(s["line"], s["len"]) + sum(loc(i["line"], i["len"]) for i in own),
                        "alt_mc": sum(sum(1 for m in i["members"] if _public(m)) for i in byname if i["trait"] is None or i["trait"][0] != "simple"),
                        "alt_loc": s["len"] + sum(i["len"] for i in byname)})
    else:
        for c in flat["classes"]:
            out.append({"name": c["name"], "line": c["line"], "col": c["col"], "mc": sum(1 for m in c["members"] if _public(m)), "loc": loc(c["line"] - c["deco"], c["len"]),
                        "alt_mc": sum(1 for m in c["members"] if m["kind"] not in ("MField", "MCtor") and not m["name"].startswith("_")),
                        "alt_loc": c["len"]})
    return out


def mirror_units(case, D):
    """Python mirror of the Coq development, used (a) as the oracle over the full stream when the Coq model cannot be
    built / evaluated, (b) cross-checked against the Coq verdicts on every normal run, (c) to recognise a defect that
    is recorded as fixed when it is observed again.  D = set of defects switched on: frozenset() is the documented
    behaviour (Model/SrpSpec.v), ACTUAL the behaviour claimed for the current tree (Model/Srp.v under Actual/SrpActual.v)."""
    lang, flat = case["lang"], case["flat"]
    ls = flat["lines"]

    def loc(start, n):
        seg = ls[start - 1:start - 1 + n]
        if lang in ("ts", "js") and "ts_loc_raw" in D:
            return n
        cnt = sum(1 for k, _ in seg if k == "LCode")
        if "py_hash" not in D:
            cnt += sum(1 for k, _ in seg if k == "LStrHash")
        if (lang in ("ts", "js") and "ts_block" in D) or (lang == "rs" and "rs_block" in D):
            cnt += sum(1 for k, _ in seg if k == "LBlockComment")
        return cnt

    def counted(m):
        k, under = m["kind"], m["name"].startswith("_")
        if lang == "py" and k == "MSetter":
            return "py_setter" in D and not under
        if lang == "py" and k == "MCachedProp":
            return "py_cached" in D and not under
        if lang in ("ts", "js"):
            if k == "MHashPrivate":
                return "ts_nonpublic" in D
            if k in ("MPrivateKw", "MProtectedKw"):
                return "ts_nonpublic" in D and not under
            if k in ("MProperty", "MSetter"):
                return "ts_accessor" in D and not under
        return _public(m)

    out = []
    if lang == "rs":
        def target(i):
            if "rs_trait" in D and i["trait"] is not None and i["trait"][0] == "simple":
                return i["trait"][1]
            if "rs_generic" in D and i["generic"]:
                return ""
            return i["self"]
        for s in flat["structs"]:
            mine = [i for i in flat["impls"] if target(i) == s["name"] and ("rs_collision" in D or i["path"] == s["path"])]
            out.append({"name": s["name"], "line": s["line"], "col": s["col"], "mc": sum(sum(1 for m in i["members"] if counted(m)) for i in mine),
                        "loc": loc(s["line"], s["len"]) + sum(loc(i["line"], i["len"]) for i in mine)})
        return out
    for c in flat["classes"]:
        if "ts_abstract" in D and c["ckind"] in ("CAbstract", "CExportAbstract"):
            continue
        if "ts_class_expr" in D and c["ckind"] == "CExprNamed":
            continue
        out.append({"name": c["name"], "line": c["line"], "col": c["col"], "mc": sum(1 for m in c["members"] if counted(m)),
                    "loc": loc(c["line"] - c["deco"], c["len"])})
    return out


def mirror_report(case, sec, D):
    d = cfg_to_dict(sec)["srp"]
    if not d.get("enabled", True):
        return []
    own = d.get(LANG_KEY[case["lang"]])
    own = own if isinstance(own, dict) else {}
    mm = own.get("max_methods", d.get("max_methods", 7))
    ml = own.get("max_loc", d.get("max_loc", 200))
    check, kws = d.get("check_keywords", True), d.get("keywords", DEFAULT_KEYWORDS)
    out = []
    for u in mirror_units(case, D):
        issues = []
        if u["mc"] > mm:
            issues.append(f"{u['mc']} methods (max: {mm})")
        if u["loc"] > ml:
            issues.append(f"{u['loc']} lines (max: {ml})")
        if check and any(k in u["name"] for k in kws):
            issues.append("responsibility keyword in name")
        if issues:
            out.append([u["line"], u["col"], f"Class '{u['name']}' may violate SRP: {', '.join(issues)}"])
    return sorted(out)


def fixed_defect_seen(case, sec, r):
    """keys of findings recorded as fixed whose re-introduction (next to the defects still present) explains r exactly"""
    for keys, extra in FIXED_GROUPS:
        if r == mirror_report(case, sec, ACTUAL | extra):
            return keys
    return ()


def gen_configs(r, lang, us, n):
    """thresholds on / below / above the counts of a focus unit, in the top-level keys or in the file's language section,
    decoy sections for other languages, keyword settings"""
    cfgs = []
    others = [k for k in LANG_KEY.values() if k != LANG_KEY[lang]]
    for j in range(n):
        u = r.choice(us) if us else {"mc": 3, "loc": 10, "alt_mc": 3, "alt_loc": 10}
        mm = max(1, r.choice([u["mc"] - 1, u["mc"], u["mc"], u["mc"] + 1, u["alt_mc"], u["alt_mc"] - 1, r.randint(1, 9)]))
        ml = max(1, r.choice([u["loc"] - 1, u["loc"], u["loc"], u["loc"] + 1, u["alt_loc"], u["alt_loc"] - 1, r.randint(1, 60)]))
        sec = []
        shape = r.choice(["top", "top", "lang", "lang", "mixed", "mixed2", "default", "top_mm", "top_ml"])
        if j == 0 and r.random() < 0.5:
            shape = "default"
        if shape == "top":
            sec += [["max_methods", ["nat", mm]], ["max_loc", ["nat", ml]]]
        elif shape == "top_mm":
            sec += [["max_methods", ["nat", mm]]]
        elif shape == "top_ml":
            sec += [["max_loc", ["nat", ml]]]
        elif shape == "lang":
            sec += [["max_methods", ["nat", r.choice([1, 50])]], ["max_loc", ["nat", r.choice([1, 500])]],
                    [LANG_KEY[lang], ["sec", [["max_methods", mm], ["max_loc", ml]]]]]
        elif shape == "mixed":
            sec += [["max_loc", ["nat", ml]], [LANG_KEY[lang], ["sec", [["max_methods", mm]]]]]
        elif shape == "mixed2":
            sec += [["max_methods", ["nat", mm]], [LANG_KEY[lang], ["sec", [["max_loc", ml]]]]]
            if r.random() < 0.3:
                sec[-1][1][1].clear()     # an empty language section: falls back to the top-level keys
                sec.append(["max_loc", ["nat", ml]])
        for o in others:
            if r.random() < 0.45:
                sec.append([o, ["sec", [[k, r.choice([1, 1, 2, 99])] for k in r.sample(["max_methods", "max_loc"], r.randint(1, 2))]]])
        kwm = r.choice(["absent", "absent", "off", "on", "custom", "custom_only", "empty"])
        if kwm == "off":
            sec.append(["check_keywords", ["bool", False]])
        elif kwm == "on":
            sec.append(["check_keywords", ["bool", True]])
        elif kwm == "custom":
            sec.append(["keywords", ["strs", r.sample(["Service", "Controller", "Manager", "Tree", "er", "user", "Helper"], r.randint(1, 3))]])
        elif kwm == "custom_only":
            sec += [["check_keywords", ["bool", False]], ["keywords", ["strs", ["Node", "User"]]]]
        elif kwm == "empty":
            sec.append(["keywords", ["strs", []]])
        if r.random() < 0.06:
            sec.append(["enabled", ["bool", r.random() < 0.5]])
        r.shuffle(sec)
        cfgs.append(sec)
    return cfgs


def written_dict(written):
    """the configuration file of a CLI run"""
    return {"nesting": {"enabled": True}} if written.get("nosrp") else cfg_to_dict(written["sec"])


def cfg_to_dict(sec):
    d = {}
    for k, (t, v) in sec:
        d[k] = {kk: vv for kk, vv in v} if t == "sec" else v
    return {"srp": d}


def gen_cases(seed: int, n_files: int, n_cfg: int, size: float):
    cases = []
    for i in range(n_files):
        r = rng_for(seed, PROP, i)
        lang = r.choice(["py", "py", "ts", "ts", "js", "rs", "rs"])
        g = Gen(r, lang, size=size * r.choice([0.5, 1, 1, 1.5]))
        tree = g.file()
        if r.random() < 0.12 and lang != "rs":
            tree.append(big_class(r, lang))
        ext = {"ts": ".tsx", "js": ".jsx"}.get(lang) if r.random() < 0.2 else None
        cases.append(make_case(f"g{i}", lang, tree, r, n_cfg, via="cli" if r.random() < 0.04 else "api", top_offset=r.choice([0, 0, 1, 2]),
                               tab=r.random() < 0.2, ext=ext))
    return cases


def gen_groups(seed: int, n_groups: int, n_cfg: int, size: float):
    """projects: 2-3 files (different languages, or two of one language with names from the same small pool) linted in ONE run on ONE orchestrator object under one configuration
    object that has a section for the first file's language (and, at random, decoy sections for the others): every
    file must get exactly what it gets alone, whatever the order in which the files are processed"""
    groups = []
    for i in range(n_groups):
        r = rng_for(seed, PROP, "group", i)
        langs = r.sample(["py", "ts", "js", "rs"], r.choice([2, 2, 3]))
        if r.random() < 0.4:      # two files of ONE language (Rust twice as often): state an analyzer keeps between files of its language
            lg = r.choice(["rs", "rs", "py", "ts", "js"])
            langs = [lg, lg] + [x for x in langs if x != lg][:r.choice([0, 1])]
            r.shuffle(langs)
        trees = [Gen(r, lg, size=size * r.choice([0.5, 1])).file() for lg in langs]
        flats = [render(lg, t)[1] for lg, t in zip(langs, trees)]
        us = [u for lg, fl in zip(langs, flats) for u in units(lg, fl)]
        cfgs = gen_configs(r, langs[0], us, n_cfg)
        via = "cli-dir" if r.random() < 0.1 else "api"
        members = [make_case(f"p{i}.{k}", lg, t, r, 0, via=via, configs=cfgs + cfgs) for k, (lg, t) in enumerate(zip(langs, trees))]
        groups.append({"id": f"p{i}", "members": members, "configs": cfgs, "via": via})
    return groups


def run_group(group):
    """every configuration: one dict object, one orchestrator, all files in order, then (fresh dict) in reverse order;
    member k gets runs [forward per config ..., reversed per config ...]"""
    global _orch
    ms = group["members"]
    with scratch_dir("tv-c16g-") as d:
        proj = d / "proj"
        proj.mkdir()
        files = []
        for k, m in enumerate(ms):
            f = proj / (f"f{k}" + m.get("ext", EXT[m["lang"]]))
            f.write_text(m["text"])
            files.append(f)
        runs = [[] for _ in ms]
        if group["via"] == "cli-dir":
            import yaml
            for j, sec in enumerate(group["configs"]):
                cf = d / f"cfg{j}.yaml"
                cf.write_text(yaml.safe_dump(cfg_to_dict(sec)))
                rc, so, se = run_cli(["srp", "--format", "json", "--config", str(cf), str(proj)], cwd=d)
                vs = parse_json_violations(so)
                for k, f in enumerate(files):
                    if vs is None or rc not in (0, 1):
                        runs[k].append({"error": f"rc={rc} stdout={so[:200]} stderr={se[-300:]}"})
                    else:
                        runs[k].append(_parse([v for v in vs if Path(v["file_path"]).name == f.name]))
            return [{"runs": r + r, "failures": []} for r in runs]
        if _orch is None:
            _orch = make_orchestrator(d, {})
        _orch.project_root = d
        half = [[[] for _ in ms], [[] for _ in ms]]
        for h, order in enumerate((list(range(len(ms))), list(reversed(range(len(ms)))))):
            for sec in group["configs"]:
                _orch.config = cfg_to_dict(sec)      # ONE configuration object for the whole project run
                for k in order:
                    try:
                        vs = _orch.lint_file(files[k])
                        half[h][k].append(_parse([{"rule_id": v.rule_id, "line": v.line, "column": v.column, "message": v.message} for v in vs]))
                    except Exception as e:  # noqa: BLE001
                        half[h][k].append({"error": f"{type(e).__name__}: {e}"})
        fails = drain_failures()
        return [{"runs": half[0][k] + half[1][k], "failures": fails} for k in range(len(ms))]


def run_job(job):
    return run_group(job) if "members" in job else [run_impl(job)]


def big_class(r, lang):
    """a class near the built-in defaults: 6..9 public methods, 198..203 lines of code"""
    g = Gen(r, lang, size=0.3)
    used = set()
    kids = []
    for _ in range(r.randint(6, 9)):
        nm = g.member_name("MPlain", used)
        while nm.startswith("_"):
            nm = g.member_name("MPlain", used)
        kids.append(g.member("MPlain", nm, 1))
    name = r.choice(["Big", "Wide", "BigHelper"])
    c = block("class", {"name": name, "ckind": "CPlain"}, [f"class {name}:" if lang == "py" else f"class {name} {{"], kids, [] if lang == "py" else ["}"])
    _, flat = render(lang, [c])
    have = units(lang, flat)[0]["loc"]
    want = r.choice([198, 199, 200, 200, 201, 202])
    pad = [block("member", {"kind": "MField", "name": f"pad{j}"}, [f"pad{j} = 1" if lang == "py" else f"pad{j} = 1;"], [], []) for j in range(max(0, want - have))]
    c[4] = pad + c[4]
    return c


def make_case(cid, lang, tree, r, n_cfg, via="api", top_offset=0, configs=None, tab=False, ext=None):
    text, flat = render(lang, tree, top_offset, tab)
    us = units(lang, flat)
    cfgs = configs if configs is not None else gen_configs(r, lang, us, n_cfg)
    case = {"id": cid, "lang": lang, "ext": ext or EXT[lang], "tree": tree, "text": text, "flat": flat, "configs": cfgs, "units": us, "via": via}
    if via == "cli" and r is not None:
        # `thailint srp --max-methods N --max-loc M`: the documented command-line override of the top-level thresholds.  The configuration
        # the model sees is the effective one (file section with the top-level keys replaced); only used when the file's language has no
        # section of its own (which of the two wins there is C05's subject)
        cli = []
        for j, sec in enumerate(cfgs):
            flags = []
            if not any(k == LANG_KEY[lang] for k, _ in sec) and r.random() < 0.6:
                u = r.choice(us) if us else {"mc": 3, "loc": 10}
                over = {}
                if r.random() < 0.7:
                    over["max_methods"] = max(1, u["mc"] + r.choice([-1, 0, 0, 1]))
                if r.random() < 0.7 or not over:
                    over["max_loc"] = max(1, u["loc"] + r.choice([-1, 0, 0, 1]))
                for k, v in over.items():
                    flags += ["--" + k.replace("_", "-"), str(v)]
                cfgs[j] = [[k, ["nat", v]] for k, v in over.items()] + [e for e in sec if e[0] not in over]
            # a configuration file without any `srp:` section (only another linter's): the override has to create the section
            cli.append({"sec": sec, "flags": flags, "nosrp": not sec})
        case["cli"] = cli
    return case


# ------------------------------------------------------------------ implementation
def _parse(vs):
    out = []
    for v in vs:
        if not str(v["rule_id"]).startswith("srp"):
            continue
        msg = v["message"] if v["rule_id"] == "srp.violation" else f"<{v['rule_id']}> {v['message']}"
        out.append([v["line"], v["column"], msg])
    return sorted(out)


_orch = None


def run_impl(case):
    """implementation output for every configuration: sorted [line, column, message]"""
    global _orch
    with scratch_dir("tv-c16-") as d:
        f = d / ("case" + case.get("ext", EXT[case["lang"]]))
        f.write_text(case["text"])
        res = []
        if case["via"] == "cli":
            import yaml
            for j, sec in enumerate(case["configs"]):
                written = case["cli"][j] if "cli" in case else {"sec": sec, "flags": []}
                cf = d / f"cfg{j}.yaml"
                cf.write_text(yaml.safe_dump(written_dict(written)))
                rc, so, se = run_cli(["srp", "--format", "json", "--config", str(cf), *written["flags"], str(f)], cwd=d)
                vs = parse_json_violations(so)
                if vs is None or rc not in (0, 1):
                    res.append({"error": f"rc={rc} stdout={so[:200]} stderr={se[-300:]}"})
                else:
                    res.append(_parse(vs))
            return {"runs": res, "failures": []}
        if _orch is None:
            _orch = make_orchestrator(d, {})
        _orch.project_root = d
        for sec in case["configs"]:
            _orch.config = cfg_to_dict(sec)
            try:
                vs = _orch.lint_file(f)
            except Exception as e:  # noqa: BLE001  (the orchestrator re-raises ValueError)
                res.append({"error": f"{type(e).__name__}: {e}"})
                continue
            res.append(_parse([{"rule_id": v.rule_id, "line": v.line, "column": v.column, "message": v.message} for v in vs]))
        return {"runs": res, "failures": drain_failures()}


# ------------------------------------------------------------------ Coq side
def cs(s):
    return coq.coq_string(s)


def coq_members(ms):
    return coq.coq_list([f"M {m['kind']} {cs(m['name'])}" for m in ms])


def coq_path(p):
    return coq.coq_list([cs(x) for x in p])


def coq_file(lang, flat, ext=None):
    lines = coq.coq_list([f"L {k} {cs(t)}" for k, t in flat["lines"]])
    classes = coq.coq_list([f"C {cs(c['name'])} {c['ckind']} {c['line']} {c['col']} {c['deco']} {c['len']} {coq_members(c['members'])}" for c in flat["classes"]])
    structs = coq.coq_list([f"S' {cs(s['name'])} {coq_path(s['path'])} {coq.coq_bool(s['generic'])} {s['line']} {s['col']} {s['len']}" for s in flat["structs"]])

    def tr(t):
        if t is None:
            return "TNone"
        return f"(TSimple {cs(t[1])})" if t[0] == "simple" else f"(TScoped {cs(t[1])} {cs(t[2])})"
    impls = coq.coq_list([f"I {cs(i['self'])} {tr(i['trait'])} {coq.coq_bool(i['generic'])} {coq_path(i['path'])} {i['line']} {i['len']} {coq_members(i['members'])}"
                          for i in flat["impls"]])
    return f"(F {COQ_LANG[lang]} {cs(ext or EXT[lang])} {lines} {classes} {structs} {impls})"


def coq_cfg(sec, nosrp=False):
    if nosrp:      # a foreign section only (its content does not concern the SRP model)
        return coq.coq_list([f"({cs('nesting')}, [])"])
    items = []
    for k, (t, v) in sec:
        if t == "nat":
            cv = f"VNat {v}"
        elif t == "bool":
            cv = f"VBool {coq.coq_bool(v)}"
        elif t == "strs":
            cv = f"VStrs {coq.coq_list([cs(x) for x in v])}"
        else:
            cv = "VSec " + coq.coq_list([f"({cs(kk)}, {vv})" for kk, vv in v])
        items.append(f"({cs(k)}, {cv})")
    return coq.coq_list([f"({cs('srp')}, {coq.coq_list(items)})"])


def cli_options(written):
    """(--max-methods value or None, --max-loc value or None) of one CLI run"""
    fl = written["flags"]
    val = {fl[i]: int(fl[i + 1]) for i in range(0, len(fl), 2)}
    return val.get("--max-methods"), val.get("--max-loc")


def coq_case(case, impl) -> str:
    """API runs: `judge` on the configuration object handed to the orchestrator.  CLI runs: `judge_cli` on the configuration FILE as
    written plus the two options -- the override is computed by the model (Model/SrpCli.v) and by the specification (Model/SrpCliSpec.v)"""
    runs = []
    for j, (sec, r) in enumerate(zip(case["configs"], impl["runs"])):
        reps = coq.coq_list([f"({l}, {c}, {cs(m)})" for l, c, m in (r if isinstance(r, list) else [])])
        if "cli" in case:
            omm, oml = cli_options(case["cli"][j])
            runs.append(f"({coq_cfg(case['cli'][j]['sec'], case['cli'][j].get('nosrp', False))}, {coq.coq_option(omm)}, {coq.coq_option(oml)}, {reps})")
        else:
            runs.append(f"({coq_cfg(sec)}, {reps})")
    return f"{'judge_cli' if 'cli' in case else 'judge'} srp_actual {coq_file(case['lang'], case['flat'], case.get('ext'))} {coq.coq_list(runs)}"


PROCS = max(1, min(8, int(os.environ.get("VERIF_PROCS") or 8)))
# the cone of Model/SrpRun.v + Actual/SrpActual.v (models only, no proofs), in dependency order
JUDGE_FILES = ["Lib/Base.v", "Lib/GenTypes.v", "Model/SrpTypes.v", "Gen/SrpGen.v", "Gen/SrpCliGen.v", "Model/SrpSpec.v", "Model/Srp.v", "Model/SrpRun.v",
               "Model/SrpCliSpec.v", "Model/SrpCli.v", "Actual/SrpActual.v"]
_SNAP_ERROR = ""


def _coqc(th: Path, path: Path, timeout: int):
    import subprocess
    p = subprocess.run(["timeout", str(timeout), "coqc", "-Q", str(th), "TL", "-w", "-notation-overridden,-abstract-large-number", str(path)],
                       capture_output=True, text=True, cwd=str(path.parent))
    return p.returncode, p.stdout, p.stderr


def eval_shards_at(th: Path, workdir: Path, header: str, shards, timeout: int = 600):
    """coq.eval_shards against the theories directory `th` (the build of this run or the snapshot build), at most PROCS coqc at a time"""
    from concurrent.futures import ThreadPoolExecutor
    workdir.mkdir(parents=True, exist_ok=True)
    paths = []
    for i, body in enumerate(shards):
        p = workdir / f"cases_{i}.v"
        p.write_text(header + "\n" + body + "\n")
        paths.append(p)
    with ThreadPoolExecutor(max_workers=PROCS) as ex:
        outs = list(ex.map(lambda p: _coqc(th, p, timeout), paths))
    res = []
    for (rc, so, se), p in zip(outs, paths):
        if rc != 0:
            raise RuntimeError(f"coqc failed on {p.name} (rc={rc}): {se[-1500:]}")
        res.append(coq.parse_nat_lists(so))
    return res


def build_snapshot(sd: Path):
    """When the generated layer of the tree under test no longer fits the model (a translator item failed closed, the model no longer
    type-checks) the model cannot be evaluated.  Fallback: a private copy of the judge's cone (specification + model + judge, no
    proofs) compiled with Gen/SrpGen.v and Gen/SrpCliGen.v taken from coq/Gen.expected/, the generated layer of the last validated (unchanged)
    tree.  Verdicts obtained there say how the implementation under test differs from the Coq specification and from the model the
    theorems were proved about; the broken obligations stay broken.  Returns the scratch `theories` directory or None."""
    import shutil
    global _SNAP_ERROR
    th = sd / "theories"
    for rel in JUDGE_FILES:
        src = (coq.COQ / "Gen.expected" / (Path(rel).name + ".txt")) if rel.startswith("Gen/") else (coq.TH / rel)
        if not src.exists():
            _SNAP_ERROR = f"{src} is missing"
            return None
        (th / rel).parent.mkdir(parents=True, exist_ok=True)
        shutil.copy(src, th / rel)
    for rel in JUDGE_FILES:
        rc, _, se = _coqc(th, th / rel, 600)
        if rc != 0:
            _SNAP_ERROR = f"{rel}: {se[-300:]}"
            return None
    return th


def judge(cases, impls, workdir: Path, per_shard=12, th: Path | None = None):
    shards, index = [], []
    for s in range(0, len(cases), per_shard):
        chunk = list(range(s, min(len(cases), s + per_shard)))
        body = "\n".join(f"Eval vm_compute in ({coq_case(cases[j], impls[j])})." for j in chunk)
        shards.append(body)
        index.append(chunk)
    outs = eval_shards_at(th or coq.TH, workdir, HEADER, shards)
    verdicts = [None] * len(cases)
    for chunk, out in zip(index, outs):
        if len(out) != len(chunk):
            raise RuntimeError(f"expected {len(chunk)} results, got {len(out)}")
        for j, o in zip(chunk, out):
            verdicts[j] = o
    return verdicts


# ------------------------------------------------------------------ corpus
def corpus_cases():
    """refutation witnesses and minimised earlier failures; replayed first on every run"""
    out = []
    d = Path(__file__).resolve().parent.parent.parent / "corpus" / PROP
    for p in sorted(d.glob("*.json")):
        c = json.loads(p.read_text())
        case = make_case("corpus:" + p.stem, c["lang"], c["tree"], None, 0, via=c.get("via", "api"), configs=c["configs"])
        if "cli" in c:      # CLI runs: the configuration files as written + option flags; `configs` holds the effective sections
            case["cli"] = c["cli"]
        out.append(case)
    return out


def boundary_run(case, sec) -> bool:
    """non-trivial: some threshold in force sits within 1 of the corresponding documented count of some class"""
    d = cfg_to_dict(sec)["srp"]
    own = d.get(LANG_KEY[case["lang"]], {}) if isinstance(d.get(LANG_KEY[case["lang"]]), dict) else {}
    mm = own.get("max_methods", d.get("max_methods", 7))
    ml = own.get("max_loc", d.get("max_loc", 200))
    return any(abs(u["mc"] - mm) <= 1 or abs(u["loc"] - ml) <= 1 for u in case["units"])


def run(tier: str, seed: int, replay: str | None = None) -> int:
    chk = Check(PROP, tier, seed)
    # known.d/C16.json is the source the shared known_findings.json is assembled from (tools/mkmanifest.py, run by the lead only): an entry
    # added there is honoured at once, so that a newly listed finding does not read as "unlisted defect class" until the next assembly
    own = Path(__file__).resolve().parent.parent.parent / "known.d" / f"{PROP}.json"
    if own.exists():
        for f_ in json.loads(own.read_text()).get("findings", []):
            if f_.get("property") == PROP and f_.get("status") == "known":
                chk.known["known"].setdefault(f_["key"], f_)
    chk.rule = ("seeded random Python/TypeScript/JavaScript/Rust files (1-4 classes or structs+impl blocks per file, 0-13 members of every kind: "
                "public/private/dunder/property/getter/static/classmethod/async/constructor/TS access modifiers/#private/fields; bodies of "
                "code/blank/comment/block-comment/docstring lines; nested classes; TS/JS class expressions bound by const / let / export const / module.exports; Rust modules, trait and generic impls) each linted under a sweep of "
                "configurations (thresholds = count-1, count, count+1 of one of its classes, top-level and per-language sections, decoy sections of other "
                "languages, keyword settings), in-process Orchestrator and a fraction through the CLI with a YAML config; plus multi-language projects "
                "(2-3 files linted on one Orchestrator under one configuration object, in both file orders, some as a CLI directory run; 40 % with two "
                "files of one language whose class / struct names come from one small pool) where every file must get what it gets alone; CLI runs "
                "with --max-methods / --max-loc are judged on the configuration file AS WRITTEN (incl. files without an srp section) plus the option "
                "values: the override is computed by the Coq model and by the Coq specification; an evaluation = one (file, "
                "configuration) run; it is non-trivial when a threshold in force is within 1 of the documented count of some class of the file; distinct = "
                "distinct (file text, configuration)")
    chk.trusted_base.append("C16: the abstract input (source lines with kinds, class/struct/impl records with node positions and direct members) is what the "
                            "harness renderer claims ast / tree-sitter yield for the rendered text; this parser-facing shape, str.strip() and the order of "
                            "violations are validated by the correspondence check only (violations compared as multisets)")
    chk.build(["theories/Props/C16.v"], ["SrpGen", "SrpCliGen"], known_v=["theories/Props/C16Known.v"])
    # enlarge the budget when an obligation broke or the hand-modelled SRP / base-analyzer sources changed
    # (fingerprints of other linters do not concern this check)
    mine = [k for k in chk.fingerprint_changed if "/srp/" in k or "analyzers/" in k or "cli/linters/structure_quality" in k or "cli/linters/shared" in k]
    scale = 4 if chk.broken else (3 if mine else 1)
    if os.environ.get("VERIF_C16_MAX_SCALE"):      # selftest trials on a loaded machine: a SUBSET of the cases of the normal (enlarged) run
        scale = min(scale, max(1, int(os.environ["VERIF_C16_MAX_SCALE"])))
    n_files = (170 if tier == "quick" else 1800) * scale
    n_cfg = 6 if tier == "quick" else 8
    if os.environ.get("VERIF_C16_FILES"):          # selftest trials only: the first N generated files (a subset of the normal run) + the corpus
        n_files = min(n_files, max(10, int(os.environ["VERIF_C16_FILES"])))
    if replay:
        rc_ = json.loads(Path(replay).read_text())["violation"]["case"]
        jobs = [rc_["group"]] if "group" in rc_ else [rc_]
    else:
        jobs = corpus_cases() + gen_cases(seed, n_files, n_cfg, 1.0 if tier == "quick" else 1.3) \
            + gen_groups(seed, n_files // 5, 3 if tier == "quick" else 4, 0.7)
    cases, impls = [], []
    for job, res in zip(jobs, pool_map(run_job, jobs, procs=PROCS)):
        ms = job["members"] if "members" in job else [job]
        for m in ms:
            if "members" in job:
                m["group"] = {"id": job["id"], "configs": job["configs"], "via": job["via"],
                              "members": [{k: x[k] for k in ("id", "lang", "ext", "tree", "text", "flat", "units", "via", "configs")} for x in ms]}
        cases += ms
        impls += res
    snapshot_used = False
    with scratch_dir("tv-c16-coq-") as wd:
        try:
            verdicts = judge(cases, impls, wd)
        except RuntimeError as e:
            chk.broken.append(f"Model:evaluation of the SRP model failed ({str(e)[:400]})")
            verdicts = [None] * len(cases)
            th = build_snapshot(wd / "snap")
            if th is None:
                chk.notes.append("the Gen.expected snapshot of the judge's cone could not be built (" + _SNAP_ERROR + "): runs are judged by the Python mirror")
            else:
                try:
                    verdicts = judge(cases, impls, wd / "snapshot-judging", th=th)
                    snapshot_used = True
                    chk.notes.append("the model could not be evaluated against the generated layer of this tree; every run was judged inside Coq against "
                                     "Model/SrpSpec.v and the model built from coq/Gen.expected/SrpGen.v.txt (generated layer of the last validated tree)")
                except RuntimeError as e2:
                    verdicts = [None] * len(cases)
                    chk.notes.append(f"judging against the Gen.expected snapshot failed as well ({str(e2)[:300]}): runs are judged by the Python mirror")
    snap_note = " [the model of this tree could not be built: judged in Coq with the generated layer of the last validated tree, coq/Gen.expected/SrpGen.v.txt]" \
        if snapshot_used else ""
    cands_all = None
    mirror_bad = []
    for case, impl, ver in zip(cases, impls, verdicts):
        lang = case["lang"]
        slim = {k: case[k] for k in ("id", "lang", "ext", "tree", "text", "flat", "units", "via") if k in case}
        if "group" in case:
            slim["group"] = case["group"]     # the replay re-runs the whole project
            chk.dist("project-runs:" + case["group"]["via"])
        for m in [m for c in case["flat"]["classes"] + case["flat"]["impls"] for m in c["members"]]:
            chk.dist("member:" + m["kind"] + (":_" if m["name"].startswith("_") else ""))
        for k, _ in case["flat"]["lines"]:
            chk.dist("line:" + k)
        chk.dist("files:" + lang)
        chk.dist("units", len(case["units"]))
        chk.sample({"lang": lang, "text": case["text"][:700], "config": cfg_to_dict(case["configs"][0]) if case["configs"] else None,
                    "impl": impl["runs"][0] if impl["runs"] else None}, 3)
        if impl["failures"]:
            chk.violation({"reason": "a rule failed internally (swallowed exception) during the run", "failures": impl["failures"][:3],
                           "case": {**slim, "configs": case["configs"]}})
            continue
        for j, (sec, r) in enumerate(zip(case["configs"], impl["runs"])):
            one = {**slim, "configs": [sec]}
            if "cli" in case:
                one["cli"] = [case["cli"][j]]
                chk.dist("cli-threshold-flags:" + ("yes" if case["cli"][j]["flags"] else "no"))
            chk.count([case["text"], sec], boundary_run(case, sec))
            chk.dist("via:" + case["via"])
            chk.dist("lang:" + lang)
            if isinstance(r, dict):
                chk.violation({"reason": "the run failed", "detail": r, "config": cfg_to_dict(sec), "case": one})
                continue
            if any(m.startswith("<srp.") for _, _, m in r):
                chk.broken.append(f"Harness:generated {lang} file does not parse ({r[0][2][:80]})")
                continue
            if ver is None:
                # the model could not be built / evaluated (a generated item failed closed, a proof or the model broke):
                # judge EVERY run against the Python mirror of the documented behaviour; a deviation that the mirror of the
                # listed (still known) defects reproduces exactly is a known finding, anything else is a violation with this input
                want = mirror_report(case, sec, frozenset())
                if r == want:
                    continue
                if r == mirror_report(case, sec, ACTUAL):
                    chk.dist("fallback:explained-by-listed-defects")
                    continue
                again = fixed_defect_seen(case, sec, r)
                for k in again:
                    chk.known_finding(k, {"lang": lang, "text": case["text"], "config": cfg_to_dict(sec), "impl": r, "expected": want, "case": one})
                if again:
                    continue
                chk.violation({"reason": "the Coq model could not be built or evaluated; the implementation differs from the documented SRP thresholds "
                                         "on this input and the deviation is not one of the listed defects (Python ground-truth oracle)",
                               "config": cfg_to_dict(sec), "impl": r, "expected": want, "case": one})
                continue
            chk.traces_validated += 1
            bits = [bool(b) for b in ver[j]]
            good, spec_ok, ideal_ok, cand = bits[0], bits[1], bits[2], bits[3:]
            if not good:
                chk.broken.append(f"Harness:generated input outside the model's domain (file_good / config_good false) in case {case['id']}")
                continue
            cands_all = cand if cands_all is None else [a and b for a, b in zip(cands_all, cand)]
            chk.dist("verdict:" + ("reported" if r else "clean"))
            if (spec_ok != (r == mirror_report(case, sec, frozenset()))) or (cand[0] != (r == mirror_report(case, sec, ACTUAL))):
                mirror_bad.append(case["id"])
            if spec_ok:
                continue
            info = {"config": cfg_to_dict(sec), "impl": r, "case": one,
                    "reason": "reported classes / messages differ from the documented SRP thresholds (methods > max_methods, lines > max_loc, keyword)" + snap_note}
            relevant = [FLAGS[i] for i in range(len(FLAGS)) if not cand[1 + i]]
            if cand[0] and ideal_ok and not relevant:
                relevant = LANG_FLAGS[lang]   # several listed defects compensate one another on this input
            if cand[0] and ideal_ok and relevant:
                for k in relevant:
                    chk.known_finding(k, {"lang": lang, "text": case["text"], "config": cfg_to_dict(sec), "impl": r})
            else:
                again = fixed_defect_seen(case, sec, r)
                for k in again:   # a defect recorded as fixed is back: the framework turns this into a violation
                    chk.known_finding(k, {"lang": lang, "text": case["text"], "config": cfg_to_dict(sec), "impl": r, "case": one})
                if again:
                    continue
                info["model_actual_matches_impl"] = cand[0]
                info["model_ideal_matches_spec"] = ideal_ok
                chk.violation(info)
    if mirror_bad:
        chk.broken.append(f"Harness:the Python mirror (fallback oracle) disagrees with the Coq spec/model verdicts on {len(mirror_bad)} runs, e.g. case {mirror_bad[0]}")
    else:
        chk.notes.append("fallback oracle (Python mirror of spec and of the claimed quirk vector) agreed with the Coq verdicts on every run")
    if cands_all is not None and not cands_all[0]:
        alt = [i for i, ok in enumerate(cands_all) if ok]
        if alt:
            names = ["actual"] + [f"actual without {f}" for f in FLAGS] + ["ideal"]
            chk.notes.append("implementation no longer matches the claimed quirk vector but matches: " + names[alt[0]] +
                             " (a listed defect is no longer observed; theorems hold for every vector)")
        else:
            chk.correspondence_broken({"level": "observable" + (" (model built from the Gen.expected snapshot)" if snapshot_used else ""), "detail": "Model/Srp.v under Actual/SrpActual.v disagrees with the implementation and no candidate quirk vector matches all cases"})
    if chk.violations and not replay:
        prefer_reproducible(chk)
    return chk.finish()


def _fresh(case):
    return run_impl(case)


def prefer_reproducible(chk):
    """The replay written by finish() is violations[0].  A single-file case of the API stream ran on an orchestrator that had linted other files
    before it: when its failure is caused by state carried over from those files it does not reproduce alone.  Re-run the first such cases in
    fresh processes; a failure that vanishes there is annotated and moved behind the violations that replay (project runs re-run the whole
    project, so they reproduce carried-over state)."""
    def single(v):
        c = v.get("case")
        return isinstance(c, dict) and "group" not in c and c.get("via") == "api" and "impl" in v and len(c.get("configs", [])) == 1
    head = [v for v in chk.violations[:6] if single(v)]
    if not head:
        return
    reruns = pool_map(_fresh, [v["case"] for v in head] + [head[0]["case"]], procs=2)     # >= 2 items: always forked children
    vanished = []
    for v, res in zip(head, reruns):
        if res["runs"] and res["runs"][0] != v["impl"]:
            v["not_reproducible_alone"] = ("on a fresh orchestrator this file gets " + json.dumps(res["runs"][0])[:300] + ": the reported output depends on "
                                           "files linted earlier by the same rule instance (state kept between files)")
            vanished.append(id(v))
    if vanished:
        chk.violations.sort(key=lambda v: 1 if id(v) in vanished else 0)
