"""C14 — a run lints exactly the non-excluded, non-ignored files under the given paths."""
from __future__ import annotations

import json
import os
import sys
from pathlib import Path

from harness import coq
from harness.common import REPO, VERIF, drain_failures, make_orchestrator, parse_json_violations, pool_map, rng_for, run_cli, scratch_dir
from harness.framework import Check

PROP = "C14"
FLAGS = ["q_excl_above_root", "q_excl_filename", "q_dirpat_prefix", "q_dirpat_filename", "q_doublestar_needs_dir",
         "q_ti_shadows_config", "q_json_ignore_unused", "q_ignore_cwd_spelling"]
ACTUAL = {f: f == "q_ignore_cwd_spelling" for f in FLAGS}      # Actual/CollectActual.v: the one finding that is still listed
HEADER = ("From TL Require Import Lib.Base Lib.GenTypes Model.CollectStr Model.Glob Gen.CollectGen Model.Collect Model.CollectSpec "
          "Model.CollectRun Actual.CollectActual.\n")
PLANT = 'print("x")\n'

# the always-excluded names as the property / the verified tree list them (the spec's own table, Model/CollectSpec.v)
SPEC_DIRS = [".git", "node_modules", "__pycache__", ".venv", "venv", "build", "dist", ".pytest_cache", ".mypy_cache", ".ruff_cache",
             ".svn", ".hg", ".tox", ".eggs", "htmlcov", "*.egg-info"]
SPEC_EXTS = [".pyc", ".pyo", ".pyd", ".so", ".dll", ".dylib", ".class", ".o", ".obj"]
ORD_DIRS = ["src", "lib", "pkg", "tests", "legacy", "vendor", "app", "core", "utils", "docs", "a", "b1", "x_y", "generated", "Build", "bin"]
NEAR_DIRS = ["builder", "build2", "distx", "venv2", ".gitx", "node_modules2", "my.egg-info2", "legacy2", "vendor_old", "srcx", "testsuite", ".hid", ".config"]
EGG_DIRS = ["pkg.egg-info", "a-b.egg-info", ".egg-info"]
ORD_FILES = ["a.py", "b.py", "mod.ts", "x.txt", "main.py", "util.js", "lib.rs", "README.md", "conf.yaml", "t_constants.py", "my_constants.py",
             "x.generated.py", "test1.py", "testA.py", "test10.py", "file1.py", "file2.py", "file9.py", "app.min.js", "noext", "Makefile", "a.b.c.py",
             "legacy_x.py", "legacy.py", "vendor.txt", "src.py", ".hidden.py", ".env", "x.", "weird name.py", "data[1].py"]
ODD_FILES = [".pyc", ".so", "x.pyc.py", "y.PYC", "z.py.o", "k.obj.txt"]
DIRNAME_FILES = ["legacy", "vendor", "generated", "src", "tests"]


REROOTED = [False]     # does the source re-root cwd-relative paths before the ignore patterns are applied (mirror of Gen.ignore_rerooted)


def code_tables():
    """the tables of the current source (so that an entry added to the code is exercised by the generator)"""
    sys.path.insert(0, str(VERIF))
    try:
        from translator import lib as tl
        tl._parse_cache.clear()
        REROOTED[0] = "check_path = self._reroot(file_path, path_str)" in tl.source("src/linter_config/ignore.py")
        mod = tl.parse("src/orchestrator/core.py")
        return (tl.str_elems(tl.find_assign(mod, "_HARDCODED_EXCLUDE_DIRS")), tl.str_elems(tl.find_assign(mod, "_HARDCODED_EXCLUDE_EXTENSIONS")))
    except Exception:  # noqa: BLE001  (fail-closed is the translator's job; the generator just loses this source of names)
        return ([], [])


# ------------------------------------------------------------------ generation
class G:
    def __init__(self, r, max_depth, code_dirs, code_exts):
        self.r, self.max_depth = r, max_depth
        self.excl_dirs = sorted(set(SPEC_DIRS) | set(code_dirs))
        self.exts = sorted(set(SPEC_EXTS) | set(code_exts))

    def dirname(self):
        r = self.r
        x = r.random()
        if x < 0.22:
            return r.choice(self.excl_dirs)
        if x < 0.30:
            return r.choice(EGG_DIRS)
        if x < 0.48:
            return r.choice(NEAR_DIRS)
        return r.choice(ORD_DIRS)

    def filename(self):
        r = self.r
        x = r.random()
        if x < 0.14:
            return r.choice(["m", "lib", "a.b", "X", "mod_1"]) + r.choice(self.exts)
        if x < 0.19:
            return r.choice(ODD_FILES)
        if x < 0.215:
            return r.choice(self.excl_dirs + EGG_DIRS)           # a regular file that bears a directory-table name
        if x < 0.25:
            return r.choice(DIRNAME_FILES)
        return r.choice(ORD_FILES)

    def children(self, depth):
        r = self.r
        out, names = [], set()
        nfiles = r.choice([0, 1, 1, 2, 2, 3, 4]) if depth else r.choice([2, 3, 4, 5])
        ndirs = 0 if depth >= self.max_depth else (r.choice([0, 0, 1, 1, 2, 3]) if depth else r.choice([2, 3, 4, 5]))
        for _ in range(nfiles):
            n = self.filename()
            if n not in names:
                names.add(n)
                out.append(["F", n])
        for _ in range(ndirs):
            n = self.dirname()
            if n not in names:
                names.add(n)
                out.append(["D", n, self.children(depth + 1)])
        r.shuffle(out)
        return out


def files_of(children, pre=()):
    for c in children:
        if c[0] == "F":
            yield list(pre) + [c[1]]
        else:
            yield from files_of(c[2], tuple(pre) + (c[1],))


def dirs_of(children, pre=()):
    for c in children:
        if c[0] == "D":
            yield list(pre) + [c[1]]
            yield from dirs_of(c[2], tuple(pre) + (c[1],))


def is_excl_name(n, excl):
    return n in excl or n.endswith(".egg-info")


SPECIALS = set("*?[")


def lit_ok(n):
    return bool(n) and "/" not in n and n != "." and not (set(n) & SPECIALS)


def line_safe(s):
    return bool(s) and not s[0].isspace() and not s[-1].isspace() and not s.startswith("#")


def gen_pattern(r, files, dirs):
    """one typed pattern of a documented form, mostly aimed at names that occur in the tree"""
    f = r.choice(files) if files else ["a.py"]
    d = r.choice(dirs) if dirs and r.random() < 0.85 else [r.choice(ORD_DIRS + NEAR_DIRS)]
    k = r.choice(["Suffix", "Suffix", "Under", "AnySuffix", "AnySuffix", "Dir", "Dir", "Dir", "AnyDir", "AnyDir", "DirPath", "Exact", "Raw", "Raw"])
    name = f[-1]
    if k in ("Suffix", "AnySuffix"):
        cands = [name[i:] for i in range(len(name)) if name[i] in "._"] + [name, ".py", "_constants.py", ".min.js", "y"]
        s = r.choice([c for c in cands if c and lit_ok(c) and line_safe("*" + c)] or [".py"])
        return [k, s]
    if k == "Under":
        dd = d[: r.randint(1, len(d))]
        return [k, dd] if all(lit_ok(x) for x in dd) and line_safe("/".join(dd)) else ["Under", ["src"]]
    if k in ("Dir", "AnyDir"):
        n = r.choice(d + ([name] if r.random() < 0.2 else []))
        if r.random() < 0.15 and len(n) > 2:
            n = n[: r.randint(2, len(n) - 1)]                    # a proper prefix of a real name
        return [k, n] if lit_ok(n) and line_safe(n) else [k, "legacy"]
    if k == "DirPath":
        dd = d if len(d) >= 2 else d + [r.choice(ORD_DIRS)]
        dd = dd[: r.randint(2, len(dd))]
        if r.random() < 0.15 and len(dd[-1]) > 2:
            dd = dd[:-1] + [dd[-1][: r.randint(2, len(dd[-1]) - 1)]]
        return [k, dd] if all(lit_ok(x) for x in dd) and line_safe("/".join(dd)) else ["DirPath", ["src", "legacy"]]
    if k == "Exact":
        ff = f if r.random() < 0.8 else f[:-1] + ["other.py"]
        return [k, ff] if all(lit_ok(x) for x in ff) and line_safe("/".join(ff)) else ["Exact", ["src", "a.py"]]
    path = "/".join(f)
    raws = ["test?.py", "file[123].py", "file[!1].py", "*/test?.py", "*/file[0-9].py", "src/*.py", "*/a.py", "[!a]*.py", "*_gen*.*", "?.py",
            "*/*/*.py", "*.p[yc]", "[a-m]*", "*/[!.]*", "t*s/*", "*.[jt]s", "[]a].py", "[x", "a[", "*[.]py"]
    if len(path) > 2 and r.random() < 0.4:                        # a glob derived from a real path
        i = r.randrange(len(path))
        raws.append(path[:i] + r.choice(["?", "*", "[" + path[i] + "]", "[!" + path[i] + "]"]) + path[i + 1:])
    s = r.choice(raws)
    if s.endswith("/") or s.startswith("**/") or not line_safe(s):
        s = "test?.py"
    return ["Raw", s]


def render_pat(p):
    k, v = p
    return {"Suffix": lambda: "*" + v, "Under": lambda: "/".join(v) + "/**", "AnySuffix": lambda: "**/*" + v, "Dir": lambda: v + "/",
            "AnyDir": lambda: "**/" + v + "/", "DirPath": lambda: "/".join(v) + "/", "Exact": lambda: "/".join(v), "Raw": lambda: v}[k]()


def render_line(l):
    if l[0] == "P":
        return " " * l[1] + render_pat(l[3]) + " " * l[2]
    if l[0] == "C":
        return "#" + l[1]
    return " " * l[1]


def gen_case(seed, i, max_depth, code_dirs, code_exts):
    r = rng_for(seed, PROP, i)
    g = G(r, max_depth, code_dirs, code_exts)
    kids = g.children(0)
    files = list(files_of(kids))
    dirs = list(dirs_of(kids))
    npat = r.choice([0, 1, 2, 2, 3, 4, 6])
    pats = [gen_pattern(r, files, dirs) for _ in range(npat)]
    cfg_kind = "json" if r.random() < 0.2 else "yaml"
    where = r.choice(["ti", "ti", "cfg", "cfg", "both", "both", "none"]) if pats else "none"
    ti, cfg = None, None
    if where in ("ti", "both"):
        k = len(pats) if where == "ti" else r.randint(1, max(1, len(pats) - 1)) if len(pats) > 1 else 1
        ti = []
        for p in pats[:k]:
            if r.random() < 0.2:
                ti.append(r.choice([["C", " generated files"], ["C", "legacy/"], ["B", 0], ["B", 2]]))
            ti.append(["P", r.choice([0, 0, 0, 1, 3]), r.choice([0, 0, 1]), p])
        if where == "both":
            cfg = pats[k:] or [gen_pattern(r, files, dirs)]
    elif where == "cfg":
        cfg = pats
    elif r.random() < 0.3:
        ti = [["C", " nothing"]]
    rerun = None
    if r.random() < 0.12:
        # second state of the ignore sources for the SAME tree and paths, linted later in the same process
        p2 = [gen_pattern(r, files, dirs) for _ in range(r.choice([0, 0, 1, 2]))]
        w2 = r.choice(["ti", "cfg", "none"]) if p2 else r.choice(["none", "none", "emptyti"])
        rerun = {"ti": [["P", 0, 0, p] for p in p2] if w2 == "ti" else ([["C", " cleared"]] if w2 == "emptyti" else None), "cfg": p2 if w2 == "cfg" else None}
    return finish_case({"i": i, "kids": kids, "ti": ti, "cfg": cfg, "cfg_kind": cfg_kind, "rerun": rerun,
                        "place": r.choice(["plain"] * 17 + ["build", "x.egg-info", "venv"]),
                        "via": "cli" if r.random() < 0.04 else "api", "spelling": "abs"}, r)


def finish_case(c, r=None):
    """adds the config files to the tree and the observations to make"""
    kids = [k for k in c["kids"] if not (k[0] == "F" and k[1] in (".thailint.yaml", ".thailint.json", ".thailintignore"))]
    kids.append(["F", ".thailint." + c["cfg_kind"]])
    if c["ti"] is not None:
        kids.append(["F", ".thailintignore"])
    c["kids"] = kids
    excl = set(SPEC_DIRS)
    clean = [d for d in dirs_of(kids) if not any(is_excl_name(x, excl) for x in d) and all(lit_ok(x) or True for x in d)]
    if "obs" not in c:
        cli = c["via"] == "cli"          # a CLI run costs ~0.6 s: fewer observations per case
        obs = [["dir", True, []]] + ([] if cli else [["dir", False, []]])
        if clean and r is not None:
            for d in r.sample(clean, min(len(clean), 1 if cli else 2)):
                obs.append(["dir", r.random() < 0.6, d])
        obs.append(["files", list(files_of(kids))])
        if r is not None and r.random() < (0.5 if cli else 0.22):
            # the parallel directory entry point (lint_directory_parallel / --parallel): same expected set; prefer a flat run
            # on a directory that has sub-directories with files, so that a lost `recursive` argument shows
            deep = [d for d in [[]] + clean if any(k[0] == "D" and list(files_of(k[2])) for k in subtree(kids, d))]
            tgt = r.choice(deep) if deep and r.random() < 0.8 else (r.choice(clean) if clean and r.random() < 0.5 else [])
            if len(list(files_of(subtree(kids, tgt)))) <= 30 or cli:
                obs.append(["dir", r.random() < 0.3, tgt, "par"])
        if r is not None and r.random() < 0.2:
            # several targets in one run (execute_linting_on_paths): some named files and some directories
            fs = list(files_of(kids))
            obs.append(["mixed", r.random() < 0.6, (not cli or True) and r.random() < 0.25, r.sample(fs, min(len(fs), r.randint(1, 4))),
                        r.sample(clean, min(len(clean), r.randint(1, 3)))])
        c["obs"] = obs
    if c["via"] == "cli" and r is not None and c["place"] == "plain" and c["cfg_kind"] == "yaml" and r.random() < 0.3 \
            and not any(k[0] == "F" and k[1] == "src.py" for k in kids) and not any(d[-1] == ".git" for d in dirs_of(kids)):
        # (without --project-root the root is auto-detected from the target: a generated nested .git directory would be taken for it)
        c["spelling"] = "rel"
    elif r is not None and c["spelling"] == "abs" and r.random() < 0.16:
        # the targets are spelled relative to another working directory: a directory of the project, the parent of the
        # project root, or its grandparent (the project root itself is always named explicitly in these runs)
        x = r.random()
        if x < 0.25:
            c["spelling"] = "rel"
        elif x < 0.7 and clean:
            c["spelling"], c["cwd_in"] = "in", r.choice(clean)
        else:
            c["spelling"] = r.choice(["up1", "up1", "up2"])
    return c


def spelling_of(case):
    """(kind, components): ("abs", None) | ("in", directory of the project that is the cwd) | ("up", directories from the cwd down to the root)"""
    sp = case["spelling"]
    if sp == "abs":
        return "abs", None
    if sp == "rel":
        return "in", []
    if sp == "in":
        return "in", list(case["cwd_in"])
    return "up", (["proj"] if sp == "up1" else [("up" if case["place"] == "plain" else case["place"]), "proj"])


def relpath_comps(c, p):
    """os.path.relpath on component lists (mirror of Collect.relpath)"""
    i = 0
    while i < len(c) and i < len(p) and c[i] == p[i]:
        i += 1
    return [".."] * (len(c) - i) + p[i:]


def spelled(case, p):
    kind, comps = spelling_of(case)
    return p if kind == "abs" else relpath_comps(comps, p) if kind == "in" else comps + p


# ------------------------------------------------------------------ rendering + implementation
def write_project(case, base: Path) -> Path:
    root = base / ("up" if case["place"] == "plain" else case["place"]) / "proj"
    root.mkdir(parents=True)

    def put(children, d: Path):
        for ch in children:
            if ch[0] == "F":
                (d / ch[1]).write_text(PLANT)
            else:
                (d / ch[1]).mkdir()
                put(ch[2], d / ch[1])
    put(case["kids"], root)
    write_sources(case, root)
    return root


def write_sources(case, root: Path):
    conf = {"file-placement": {"global_deny": [{"pattern": ".*", "reason": "planted"}]}}
    if case["cfg"] is not None:
        conf["ignore"] = [render_pat(p) for p in case["cfg"]]
    if case["cfg_kind"] == "yaml":
        lines = ["file-placement:", "  global_deny:", '    - pattern: ".*"', '      reason: "planted"']
        if case["cfg"] is not None:
            lines.append("ignore:" if conf["ignore"] else "ignore: []")
            lines += ["  - " + json.dumps(x) for x in conf["ignore"]]
        (root / ".thailint.yaml").write_text("\n".join(lines) + "\n")
    else:
        (root / ".thailint.json").write_text(json.dumps(conf, indent=1))
    if case["ti"] is not None:
        (root / ".thailintignore").write_text("\n".join(render_line(l) for l in case["ti"]) + "\n")
    elif (root / ".thailintignore").exists():
        (root / ".thailintignore").unlink()


def _paths(vs, root: Path):
    out = set()
    for fp in vs:
        p = Path(fp)
        if p.is_absolute():
            try:
                p = p.relative_to(root)
            except ValueError:
                pass
        out.add(p.as_posix())
    return sorted(out)


def second_state(case):
    """the same tree with the second state of the ignore sources; observations: recursive root run + every file named"""
    c2 = {k: v for k, v in case.items() if k not in ("obs", "rerun")}
    c2.update({"ti": case["rerun"]["ti"], "cfg": case["rerun"]["cfg"], "rerun": None, "i": f"{case['i']}:rerun", "kids": json.loads(json.dumps(case["kids"]))})
    c2 = finish_case(c2)
    c2["origin"] = {k: v for k, v in case.items()}     # a replay has to go through the first state again
    c2["obs"] = [o for o in c2["obs"] if o[0] == "files" or (o[0] == "dir" and o[1] and not o[2])]
    return c2


def _cwd_of(case, root: Path, base: Path) -> Path:
    kind, comps = spelling_of(case)
    if kind == "abs":
        return base
    if kind == "in":
        return root.joinpath(*comps)
    return root.parent if len(comps) == 1 else root.parent.parent


def _arg(case, root: Path, comps) -> str:
    """the path of the project-relative components as the user spells it"""
    if case["spelling"] == "abs":
        return str(root.joinpath(*comps))
    return "/".join(spelled(case, list(comps))) or "."


def _norm(pairs, root: Path, cwd: Path):
    """(rule_id, file_path) of the violations -> sorted set of project-relative posix paths"""
    out = set()
    for rule, fp in pairs:
        p = Path(fp)
        if not p.is_absolute() and not str(rule).startswith("file-placement"):
            p = Path(os.path.normpath(cwd / p))          # other rules report the path as it was given
        if p.is_absolute():
            try:
                p = p.relative_to(root)
            except ValueError:
                pass
        out.add(p.as_posix())
    return sorted(out)


def _api_obs(case, root, cwd, o):
    orch = make_orchestrator(root, None)
    if o[0] == "mixed":
        from src.cli.utils import execute_linting_on_paths
        paths = [Path(_arg(case, root, p)) for p in o[3]] + [Path(_arg(case, root, d)) for d in o[4]]
        vs = execute_linting_on_paths(orch, paths, o[1], o[2])
    elif o[0] == "dir":
        tgt = Path(_arg(case, root, o[2]))
        if len(o) > 3:
            vs = orch.lint_directory_parallel(tgt, recursive=o[1], max_workers=2)
        else:
            vs = orch.lint_directory(tgt, recursive=o[1])
    else:
        vs = orch.lint_files([Path(_arg(case, root, p)) for p in o[1]])
    return _norm([(v.rule_id, str(v.file_path)) for v in vs], root, cwd)


def run_impl(case):
    """per observation: the sorted set of project-relative paths that got at least one violation"""
    import multiprocessing as mp
    mp.current_process()._config["daemon"] = False   # the pool worker must be allowed to start the linter's own worker processes
    with scratch_dir("tv-c14-") as base:
        root = write_project(case, base)
        cwd = _cwd_of(case, root, base)
        res, fails = [], []
        if case["via"] == "cli":
            for o in case["obs"]:
                if o[0] == "mixed":
                    args = ["file-placement", "--format", "json"] + ([] if o[1] else ["--no-recursive"]) + (["--parallel"] if o[2] else []) \
                        + [_arg(case, root, p) for p in o[3]] + [_arg(case, root, d) for d in o[4]]
                elif o[0] == "dir":
                    args = ["file-placement", "--format", "json"] + ([] if o[1] else ["--no-recursive"]) + (["--parallel"] if len(o) > 3 else []) + [_arg(case, root, o[2])]
                else:
                    args = ["file-placement", "--format", "json"] + [_arg(case, root, p) for p in o[1]]
                if case["spelling"] != "rel":
                    args = ["--project-root", str(root)] + args
                # PYTHONSAFEPATH: `python -m` must not put the cwd (which may hold a generated src.py) first on sys.path
                rc, so, se = run_cli(args, cwd=cwd, home=base, env_extra={"PYTHONSAFEPATH": "1"})
                vs = parse_json_violations(so)
                if vs is None or rc not in (0, 1):
                    res.append({"error": f"rc={rc} stdout={so[:200]} stderr={se[-300:]}"})
                else:
                    res.append(_norm([(v["rule_id"], v["file_path"]) for v in vs], root, cwd))
            return {"runs": res, "failures": []}
        old = os.getcwd()
        try:
            if case["spelling"] != "abs":
                os.chdir(cwd)
            for o in case["obs"]:
                try:
                    res.append(_api_obs(case, root, cwd, o))
                except Exception as e:  # noqa: BLE001  (a crashing run is reported as a violation with this case as the replay)
                    res.append({"error": f"{type(e).__name__}: {e}"[:400]})
                fails += drain_failures()
            out = {"runs": res, "failures": fails}
            if case.get("rerun"):
                # same process, same paths, new state of .thailintignore / the config's ignore list; the module-level parser
                # cache is reset through the public helper, as a long-lived caller would do after editing the files
                from src.linter_config.ignore import clear_ignore_parser_cache
                c2 = second_state(case)
                write_sources(c2, root)
                clear_ignore_parser_cache()
                runs2 = []
                for o in c2["obs"]:
                    try:
                        runs2.append(_api_obs(c2, root, cwd, o))
                    except Exception as e:  # noqa: BLE001
                        runs2.append({"error": f"{type(e).__name__}: {e}"[:400]})
                out["rerun"] = {"case": c2, "impl": {"runs": runs2, "failures": drain_failures()}}
            return out
        finally:
            os.chdir(old)


# ------------------------------------------------------------------ Python mirrors of Model/CollectSpec.v and Model/Collect.v
# Used (a) on every run as a cross-check of the verdicts computed in Coq, (b) as the oracle of last resort when the
# model cannot be evaluated (a Gen item failed closed because the source left the translator's subset): the mirror of the
# model is hand-written from the UNMUTATED behaviour, so a mutated implementation disagrees with it on a concrete input,
# and (c) to NAME a defect that is recorded as fixed when it is observed again (flag on = the former defect).
def py_excl_dir(n):
    return n in SPEC_DIRS or n.endswith(".egg-info")


def py_suffix(name):
    i = name.rfind(".")
    return name[i:] if 0 < i < len(name) - 1 else ""


def py_spec_match(p, comps):
    k, v = p
    if k in ("Suffix", "AnySuffix"):
        return comps[-1].endswith(v)
    if k in ("Under", "DirPath"):
        return len(comps) > len(v) and comps[: len(v)] == v
    if k in ("Dir", "AnyDir"):
        return v in comps[:-1]
    if k == "Exact":
        return comps == v
    import fnmatch
    return fnmatch.fnmatch("/".join(comps), v)


def case_pats(case):
    return [l[3] for l in (case["ti"] or []) if l[0] == "P"] + (case["cfg"] or [])


def py_spec_ok(case, comps):
    return not any(py_excl_dir(d) for d in comps[:-1]) and py_suffix(comps[-1]) not in SPEC_EXTS \
        and not any(py_spec_match(p, comps) for p in case_pats(case))


def subtree(kids, rel):
    for n in rel:
        kids = next(c[2] for c in kids if c[0] == "D" and c[1] == n)
    return kids


def py_all_files(kids, rel, recursive):
    out = [rel + [c[1]] for c in kids if c[0] == "F"]
    if recursive:
        for c in kids:
            if c[0] == "D":
                out += py_all_files(c[2], rel + [c[1]], True)
    return out


def py_spec(case, o):
    if o[0] == "mixed":
        return sorted(set(py_spec(case, ["files", o[3]])).union(*[py_spec(case, ["dir", o[1], d]) for d in o[4]]))
    files = py_all_files(subtree(case["kids"], o[2]), o[2], o[1]) if o[0] == "dir" else o[1]
    return sorted({"/".join(p) for p in files if py_spec_ok(case, p)})


def py_matches(q, path, pat):
    import fnmatch
    if not q["q_doublestar_needs_dir"] and pat.startswith("**/") and py_matches(q, path, pat[3:]):
        return True
    if pat.endswith("/"):
        dp = pat.rstrip("/")
        parts = path.split("/")
        return dp in (parts if q["q_dirpat_filename"] else parts[:-1]) or fnmatch.fnmatch(path, dp + ("*" if q["q_dirpat_prefix"] else "/*"))
    return fnmatch.fnmatch(path, pat)


def py_model(case, o, q):
    if o[0] == "mixed":
        return sorted(set(py_model(case, ["files", o[3]], q)).union(*[py_model(case, ["dir", o[1], d], q) for d in o[4]]))
    ti = None if case["ti"] is None else [x for x in (render_line(l).strip() for l in case["ti"]) if x and not x.startswith("#")]
    cfg = [render_pat(p) for p in (case["cfg"] or [])]
    if case["cfg_kind"] == "json" and q["q_json_ignore_unused"]:
        cfg = []
    pats = cfg if ti is None else ti + ([] if q["q_ti_shadows_config"] else cfg)
    ab = model_abs(case)

    def walk(kids, rel, recursive):
        out = [rel + [c[1]] for c in kids if c[0] == "F" and py_suffix(c[1]) not in SPEC_EXTS]
        if recursive:
            for c in kids:
                if c[0] == "D" and not py_excl_dir(c[1]):
                    out += walk(c[2], rel + [c[1]], True)
        return out

    def linted(p):
        parts = (ab if q["q_excl_above_root"] else []) + (p if q["q_excl_filename"] else p[:-1])
        if py_suffix(p[-1]) in SPEC_EXTS or any(py_excl_dir(x) for x in parts):
            return False
        cp = p
        if q["q_ignore_cwd_spelling"] and not REROOTED[0] and case["spelling"] != "abs":
            cp = spelled(case, o[2]) + p[len(o[2]):] if o[0] == "dir" else spelled(case, p)
        return not any(py_matches(q, "/".join(cp), pt) for pt in pats)
    files = walk(subtree(case["kids"], o[2]), o[2], o[1]) if o[0] == "dir" else o[1]
    return sorted({"/".join(p) for p in files if linted(p)})


def model_abs(case):
    """the components in front of the project-relative path in the path objects handed to lint_file (only their names matter)"""
    kind, comps = spelling_of(case)
    if kind == "abs":
        return ["/", "scratch", "tv-c14", ("up" if case["place"] == "plain" else case["place"]), "proj"]
    return [] if kind == "in" else comps


def coq_spelling(case):
    kind, comps = spelling_of(case)
    return "SAbs" if kind == "abs" else f"({'SInside' if kind == 'in' else 'SAbove'} {cl(comps)})"


def py_verdict(case, o, r):
    """the bits the Coq judge returns, computed by the mirrors: [impl=spec, ideal=spec, in_domain, impl=cand...]"""
    cands = [ACTUAL] + [{**ACTUAL, f: not ACTUAL[f]} for f in FLAGS] + [{f: False for f in FLAGS}]
    sp = py_spec(case, o)
    return [r == sp, py_model(case, o, cands[-1]) == sp, True] + [r == py_model(case, o, c) for c in cands]


# ------------------------------------------------------------------ Coq encoding
def cs(s):
    return coq.coq_string(s)


def cl(xs):
    return coq.coq_list([cs(x) for x in xs])


def coq_tree(children, name=""):
    return "(Dir " + cs(name) + " " + coq.coq_list([("(File " + cs(c[1]) + ")") if c[0] == "F" else coq_tree(c[2], c[1]) for c in children]) + ")"


def coq_pat(p):
    k, v = p
    return f"(P{k} {cl(v) if isinstance(v, list) else cs(v)})"


def coq_line(l):
    if l[0] == "P":
        return f"(LPat {l[1]} {l[2]} {coq_pat(l[3])})"
    return f"(LComment {cs(l[1])})" if l[0] == "C" else f"(LBlank {l[1]})"


def coq_sources(case):
    ti = "None" if case["ti"] is None else "(Some " + coq.coq_list([coq_line(l) for l in case["ti"]]) + ")"
    cfg = "(Some " + coq.coq_list([coq_pat(p) for p in (case["cfg"] or [])]) + ")"
    y, j = (cfg, "None") if case["cfg_kind"] == "yaml" else ("None", cfg)
    return f"(Build_tsources {ti} {y} {j})"


def abs_parts(case, impl_root_parts):
    return [] if case["spelling"] == "rel" else impl_root_parts


def coq_case(case, impl) -> str:
    obs = []
    for o, r in zip(case["obs"], impl["runs"]):
        r = r if isinstance(r, list) else ["<error>"]
        if o[0] == "mixed":
            obs.append(f"(OMixed {coq.coq_bool(o[1])} {coq.coq_bool(o[2])} {coq.coq_list([cl(p) for p in o[3]])} {coq.coq_list([cl(d) for d in o[4]])} {cl(r)})")
        elif o[0] == "dir":
            obs.append(f"({'ODirPar' if len(o) > 3 else 'ODir'} {coq.coq_bool(o[1])} {cl(o[2])} {cl(r)})")
        else:
            obs.append(f"(OFiles {coq.coq_list([cl(p) for p in o[1]])} {cl(r)})")
    return f"judge collect_actual {cl(model_abs(case))} {coq_spelling(case)} {coq_tree(case['kids'])} {coq_sources(case)} {coq.coq_list(obs)}"


def judge(cases, impls, workdir: Path, per_shard=20):
    """verdict bits per case (None where the evaluation of its shard failed); second result: error texts"""
    shards, index = [], []
    for s in range(0, len(cases), per_shard):
        chunk = list(range(s, min(len(cases), s + per_shard)))
        shards.append("\n".join(f"Eval vm_compute in ({coq_case(cases[j], impls[j])})." for j in chunk))
        index.append(chunk)
    verdicts, errors = [None] * len(cases), []
    group = 16      # shards evaluated together; a failing group is retried shard by shard so that one timeout does not void the run
    for g in range(0, len(shards), group):
        todo = list(range(g, min(len(shards), g + group)))
        try:
            outs = dict(zip(todo, coq.eval_shards(workdir / f"g{g}", HEADER, [shards[i] for i in todo], timeout=900)))
        except RuntimeError:
            outs = {}
            for i in todo:
                try:
                    outs[i] = coq.eval_shards(workdir / f"g{g}r{i}", HEADER, [shards[i]], timeout=1800)[0]
                except RuntimeError as e:
                    errors.append(str(e)[:300])
        for i, out in outs.items():
            if len(out) != len(index[i]):
                errors.append(f"shard {i}: expected {len(index[i])} results, got {len(out)}")
                continue
            for j, o in zip(index[i], out):
                verdicts[j] = o
    return verdicts, errors


# ------------------------------------------------------------------ leaf level: primitives against CPython / the repo's functions
def gen_glob(r):
    toks = []
    for _ in range(r.randint(1, 6)):
        x = r.random()
        if x < 0.45:
            toks.append(r.choice(["a", "b", "ab", "x", "/", ".", ".py", "_", "1", "src", "-", "t", "]", "!"]))
        elif x < 0.62:
            toks.append(r.choice(["*", "*", "**", "**/"]))
        elif x < 0.72:
            toks.append("?")
        elif x < 0.95:
            members = "".join(r.choice(["a", "b", "x", "1", "_", ".", "/", "a-c", "0-9", "x-z", "t", "p", "!", "*", "?", "["]) for _ in range(r.randint(1, 3)))
            toks.append("[" + r.choice(["", "", "!"]) + r.choice(["", "", "", "]"]) + members + "]")
        else:
            toks.append(r.choice(["[", "[a", "[!", "[]", "[!]"]))
    return "".join(toks)


def gen_name(r):
    return "".join(r.choice(["a", "b", "c", "x", "y", "/", ".", ".py", "_", "1", "5", "src", "-", "t", "p", "]", "[", "!", "*", "?", " "]) for _ in range(r.randint(0, 7)))


def leaf_checks(seed, n, cases, workdir):
    """returns (number of comparisons, list of disagreements)"""
    import fnmatch
    import warnings
    warnings.simplefilter("ignore")      # re warns about "possible nested set" for patterns such as [a[b]
    from src.linter_config.pattern_utils import extract_patterns_from_content, matches_pattern
    from src.orchestrator import core
    r = rng_for(seed, PROP, "leaf")
    pairs = [(gen_name(r), gen_glob(r)) for _ in range(n)]
    # bracket expressions of any shape: hyphens anywhere, reversed ranges, "--", leading "!" "^" "]" "[", backslashes, set operators, unclosed
    balpha = ["a", "b", "c", "z", "A", "-", "-", "-", "!", "]", "[", "^", "\\", "0", "9", ".", "/", "&", "~", "|", "*", "?"]

    def bracket():
        return "[" + r.choice(["", "", "!"]) + "".join(r.choice(balpha) for _ in range(r.randint(0, 6))) + r.choice(["]", "]", "]", ""])
    for _ in range(n // 2):
        pairs.append(("".join(r.choice(balpha + ["x", "5"]) for _ in range(r.randint(0, 4))),
                      "".join(r.choice([bracket(), bracket(), "*", "?", "a", "b", "-", "x"]) for _ in range(r.randint(1, 3)))))
    # bracket bodies made of x-y triples (well-formed, reversed and degenerate ranges next to each other, next to "!" and to stray
    # hyphens): the class on which fnmatch.translate's chunking and its removal of empty ranges decide the outcome
    ralpha = ["a", "b", "c", "z", "A", "!", "!", "-", "-", " ", '"', "]", "[", "^", "\\", "0", "9", ".", "/", "&", "~", "|", "*", "?", "x"]

    def range_body():
        toks = []
        for _ in range(r.randint(0, 4)):
            x = r.random()
            toks.append(r.choice(ralpha) + "-" + r.choice(ralpha) if x < 0.5 else "-" if x < 0.6 else r.choice(ralpha))
        return "[" + r.choice(["", "", "!"]) + "".join(toks) + r.choice(["]", "]", "]", "]", ""])
    for _ in range(n // 2):
        pairs.append(("".join(r.choice(ralpha) for _ in range(r.choice([0, 1, 1, 1, 1, 2, 3]))),
                      "".join(r.choice([range_body(), range_body(), range_body(), "*", "?", "a", "-", "!"]) for _ in range(r.choice([1, 1, 1, 2, 3])))))
    # patterns and paths of the generated cases (documented forms against real project-relative paths)
    mp = []
    for c in cases[: max(40, n // 40)]:
        fs = ["/".join(p) for p in files_of(c["kids"])]
        ps = [render_pat(p) for p in (c["cfg"] or [])] + [render_pat(l[3]) for l in (c["ti"] or []) if l[0] == "P"]
        for p in ps:
            for f in r.sample(fs, min(len(fs), 6)):
                mp.append((f, p))
    for _ in range(n // 4):
        mp.append((gen_name(r).strip("/") or "a", r.choice([gen_glob(r), gen_glob(r) + "/", r.choice(["a", "src", "b", "x"]) + "/"])))
    mp = [(a, b) for a, b in mp if a == str(Path(a)) and not a.startswith("/")]   # normalised relative paths (the domain of check_path)
    names = [gen_name(r).replace("/", "") for _ in range(n // 4)] + ORD_FILES + ODD_FILES
    # (a component "." is not a path component: pathlib drops it, the theorems' domain excludes it)
    parts = [[x for x in gen_name(r).split("/") if x and x != "."] + [(lambda x: "f" if x in ("", ".") else x)(r.choice(names))] for _ in range(n // 8)]
    parts += [[r.choice(SPEC_DIRS + EGG_DIRS + NEAR_DIRS)] + p for p in parts[: n // 16]] + [p + [r.choice(SPEC_DIRS + EGG_DIRS)] for p in parts[: n // 16]]
    lines = [[r.choice(["", " ", "#x", " # y", "a/", "  *.py ", "\t**/b/ ", "x y", "!z", " #"]) for _ in range(r.randint(0, 5))] for _ in range(n // 16)]
    body = []
    # long list literals overflow coqc's stack (seen at ~48000 pairs in the thorough tier): at most CH elements per Eval
    CH = 6000
    fnm_chunks = [pairs[k:k + CH] for k in range(0, len(pairs), CH)] or [[]]
    mp_chunks = [mp[k:k + CH] for k in range(0, len(mp), CH)] or [[]]
    for ch in fnm_chunks:
        body.append("Eval vm_compute in (leaf_fnm " + coq.coq_list([f"({cs(a)}, {cs(b)})" for a, b in ch]) + ").")
    for ch in mp_chunks:
        body.append("Eval vm_compute in (leaf_matches collect_actual " + coq.coq_list([f"({cs(a)}, {cs(b)})" for a, b in ch]) + ").")
    body.append("Eval vm_compute in (map (fun x => String.eqb (name_suffix (fst x)) (snd x)) " + coq.coq_list([f"({cs(a)}, {cs(Path(a).suffix if a else '')})" for a in names]) + ").")
    body.append("Eval vm_compute in (map is_hardcoded_excluded " + coq.coq_list([cl(p) for p in parts]) + ").")
    body.append("Eval vm_compute in (map should_include_dir " + cl([p[0] for p in parts]) + ").")
    body.append("Eval vm_compute in (map (fun x => str_eq_list (extract_patterns_gen (fst x)) (snd x)) " +
                coq.coq_list([f"({cl(ls)}, {cl(extract_patterns_from_content(chr(10).join(ls)))})" for ls in lines]) + ").")
    outs = coq.eval_shards(workdir, HEADER, ["\n".join(body)])[0]
    nf, nm = len(fnm_chunks), len(mp_chunks)
    if len(outs) >= nf + nm:
        outs = [[b for o in outs[:nf] for b in o], [b for o in outs[nf:nf + nm] for b in o]] + list(outs[nf + nm:])
    expect = [[fnmatch.fnmatch(a, b) for a, b in pairs], [matches_pattern(a, b) for a, b in mp], [True] * len(names),
              [core._is_hardcoded_excluded(Path(*p)) for p in parts], [core._should_include_dir(p[0]) for p in parts], [True] * len(lines)]
    inputs = [pairs, mp, names, parts, [p[0] for p in parts], lines]
    what = ["fnmatch.fnmatch vs Model/Glob.fnm", "pattern_utils.matches_pattern vs Collect.matches", "PurePath.suffix vs name_suffix",
            "_is_hardcoded_excluded vs Gen.is_hardcoded_excluded", "_should_include_dir vs Gen.should_include_dir", "extract_patterns_from_content vs Gen.extract_patterns_gen"]
    bad, total = [], 0
    for got, exp, inp, w in zip(outs, expect, inputs, what):
        total += len(exp)
        if len(got) != len(exp):
            bad.append({"level": "leaf", "what": w, "detail": "result count mismatch"})
            continue
        for gbit, e, x in zip(got, exp, inp):
            if bool(gbit) != bool(e):
                bad.append({"level": "leaf", "what": w, "input": x, "python": e, "model": bool(gbit)})
    return total, bad


# ------------------------------------------------------------------ cross-file evidence: an excluded / ignored file must not CONTRIBUTE to a violation
# lint_files_parallel lets the workers lint the files one by one and afterwards feeds every collected file to the cross-file rules
# (DRY) in the parent -- behind the same two gates as lint_file (Gen.par_evidence_gates).  Projects with a duplicated block whose
# only twin is hidden (ignore pattern of each documented form / always-excluded directory), plus a visible pair as the control.
XBODIES = [
    ["def compute_total(items):", "    total = 0", "    for item in items:", "        if item.price > 10:", "            total += item.price * item.quantity",
     "        else:", "            total += item.price", "    result = total * 2", "    return result"],
    ["def render_rows(rows, width):", "    lines = []", "    for row in rows:", "        cells = [str(c).ljust(width) for c in row]", "        lines.append(' | '.join(cells))",
     "    header = '-' * width", "    lines.insert(0, header)", "    text = chr(10).join(lines)", "    return text"],
    ["def merge_settings(base, extra):", "    merged = dict(base)", "    for key, value in extra.items():", "        if key in merged and merged[key] is None:", "            merged[key] = value",
     "        elif key not in merged:", "            merged[key] = value", "    keys = sorted(merged)", "    return {k: merged[k] for k in keys}"],
]


def gen_xcase(seed, i):
    r = rng_for(seed, PROP, f"xfile{i}")
    hide = r.choice(["Under", "Dir", "AnyDir", "DirPath", "Suffix", "AnySuffix", "Exact", "excl_dir", "excl_dir", "egg"])
    hdir = r.choice(["build", "dist", "node_modules", ".venv", "htmlcov"]) if hide == "excl_dir" else "pkg.egg-info" if hide == "egg" else r.choice(["gen", "legacy", "vendor"])
    hname = "dup_generated.py" if hide in ("Suffix", "AnySuffix") else r.choice(["dup.py", "old.py"])
    hidden = (["src"] if hide in ("Dir", "AnyDir", "DirPath", "excl_dir", "egg", "Exact") and r.random() < 0.5 or hide == "DirPath" else []) + [hdir, hname]
    pat = {"Under": ["Under", hidden[:-1]], "Dir": ["Dir", hdir], "AnyDir": ["AnyDir", hdir], "DirPath": ["DirPath", hidden[:-1]],
           "Suffix": ["Suffix", "_generated.py"], "AnySuffix": ["AnySuffix", "_generated.py"], "Exact": ["Exact", hidden]}.get(hide)
    b = r.sample(range(len(XBODIES)), 2)
    files = {"/".join(hidden): XBODIES[b[0]], "src/twin.py": XBODIES[b[0]]}
    control = r.random() < 0.7
    if control:
        files["src/c1.py"] = XBODIES[b[1]]
        files["lib/c2.py"] = XBODIES[b[1]]
    for k in range(r.randint(3, 7)):
        files[r.choice(["src", "lib", "app"]) + f"/m{k}.py"] = [f"def f{k}(a, b):", f"    value_{k} = a * {k + 2} + b", f"    other_{k} = value_{k} - {k}", f"    return other_{k} + {k * 7 + 1}"]
    return {"kind": "xfile", "i": f"xfile{i}", "hide": hide, "hidden": "/".join(hidden), "pattern": pat, "where": r.choice(["ti", "cfg"]), "cfg_kind": "json" if r.random() < 0.2 else "yaml",
            "files": files, "expected_dry": sorted(["src/c1.py", "lib/c2.py"]) if control else [], "W": r.choice([3, 4, 6])}


def run_xcase(case):
    import multiprocessing as mp
    mp.current_process()._config["daemon"] = False
    with scratch_dir("tv-c14x-") as base:
        root = base / "proj"
        for rel, lines in case["files"].items():
            (root / rel).parent.mkdir(parents=True, exist_ok=True)
            (root / rel).write_text("\n".join(lines) + "\n")
        conf = {"dry": {"enabled": True, "min_duplicate_lines": case["W"], "min_occurrences": 2, "storage_mode": "memory", "detect_duplicate_constants": False}}
        pats = [render_pat(case["pattern"])] if case["pattern"] else []
        if case["where"] == "cfg" and pats:
            conf["ignore"] = pats
        elif pats:
            (root / ".thailintignore").write_text("\n".join(pats) + "\n")
        (root / (".thailint." + case["cfg_kind"])).write_text(json.dumps(conf, indent=1))      # JSON is YAML
        from src.linter_config.ignore import clear_ignore_parser_cache
        clear_ignore_parser_cache()
        allf = [root / rel for rel in sorted(case["files"])]
        out = {}
        for name in ("pdir", "pfiles", "sdir", "sfiles"):
            try:
                orch = make_orchestrator(root, None)
                vs = (orch.lint_directory_parallel(root, recursive=True, max_workers=2) if name == "pdir" else orch.lint_files_parallel(allf, max_workers=2) if name == "pfiles"
                      else orch.lint_directory(root) if name == "sdir" else orch.lint_files(allf))
                out[name] = sorted({(str(v.rule_id), _norm([(v.rule_id, str(v.file_path))], root, base)[0], str(v.message)[:300]) for v in vs})
            except Exception as e:  # noqa: BLE001
                out[name] = {"error": f"{type(e).__name__}: {e}"[:400]}
            fails = drain_failures()
            if fails:
                out[name] = {"error": "a rule failed internally: " + json.dumps(fails[:2])[:400]}
        return out


def decide_xcases(chk, cases, impls):
    for case, impl in zip(cases, impls):
        chk.dist("xfile:hidden-by:" + case["hide"])
        chk.count(["xfile", case["files"], case["pattern"], case["where"], case["cfg_kind"]], bool(case["expected_dry"]))
        for name, res in impl.items():
            chk.dist("obs:xfile:" + name)
            if isinstance(res, dict):
                chk.violation({"reason": "the run failed (exception / swallowed rule failure)", "detail": res, "observation": name, "case": case})
                continue
            chk.traces_validated += 1
            dry = sorted({f for rule, f, _ in res if rule.startswith("dry")})
            touched = [x for x in res if x[1] == case["hidden"] or case["hidden"] in x[2]]
            if touched or dry != case["expected_dry"]:
                chk.violation({"reason": "an excluded / ignored file contributed to a violation (it is reported, or a duplicate-code violation of another file counts it), "
                                         "or a file that must be reported is not: files with dry violations differ from the visible members of duplicate groups",
                               "observation": name, "hidden_file": case["hidden"], "files_with_dry_violations": dry, "expected": case["expected_dry"],
                               "violations_involving_the_hidden_file": touched[:4], "case": case})


# ------------------------------------------------------------------ the check
def load_known(chk):
    """known.d/C14.json is this property's slice of known_findings.json (the lead assembles the latter with tools/mkmanifest.py)"""
    p = VERIF / "known.d" / f"{PROP}.json"
    if p.exists():
        for f in json.loads(p.read_text()).get("findings", []):
            if f.get("property") != PROP:
                continue
            if f.get("status") == "known":
                chk.known["known"].setdefault(f["key"], f)
            elif str(f.get("status", "")).startswith("fixed"):
                chk.known["known"].pop(f["key"], None)
                chk.known["fixed"].setdefault(f["key"], f)


def corpus_cases():
    out = []
    d = VERIF / "corpus" / PROP
    for p in sorted(d.glob("*.json")):
        c = json.loads(p.read_text())
        c.setdefault("via", "api")
        c.setdefault("spelling", "abs")
        c.setdefault("place", "plain")
        c.setdefault("cfg_kind", "yaml")
        c.setdefault("ti", None)
        c.setdefault("cfg", None)
        c.setdefault("rerun", None)
        c.setdefault("cwd_in", [])
        c["i"] = "corpus:" + p.stem
        out.append(finish_case(c))
    return out


def run(tier: str, seed: int, replay: str | None = None) -> int:
    chk = Check(PROP, tier, seed)
    load_known(chk)
    chk.rule = ("seeded random project trees (depth <= 4 quick / 6 thorough; ordinary, hidden, always-excluded, *.egg-info and near-miss directory names at any depth; "
                "ordinary, compiled-artefact, odd-suffix and directory-table file names) with a planted violation in every file (file-placement deny-all, print call), "
                "x 0-6 ignore patterns of the documented forms aimed at names of the tree, placed in .thailintignore, the config's ignore list (YAML or JSON) or both, "
                "x observations: recursive and non-recursive run on the root and on sub-directories, one run naming every file explicitly, for a fraction a run through "
                "lint_directory_parallel(max_workers=2) / --parallel (mostly non-recursive on a directory with populated sub-directories), and for a fraction a second state of "
                "the ignore sources linted afterwards in the same process on the same paths (expected: the specification on the current state) "
                "(in-process Orchestrator, a fraction through the CLI; targets spelled absolutely, or relative to a working directory that is the project root, another "
                "directory of the project, the parent or the grandparent of the root; a fraction of projects under an excluded-named parent); "
                "a case is non-trivial when the recursive root run reports some but not all files of the tree; distinct = distinct (tree, sources, placement); "
                "plus a stream of projects with duplicated code blocks (dry enabled) in which one copy is hidden by an ignore pattern of a documented form or by an "
                "always-excluded directory and its only twin is visible, with a visible duplicate pair as control: lint_directory_parallel / lint_files_parallel(max_workers=2) "
                "and the sequential entry points must report exactly the control pair and nothing that involves the hidden file")
    chk.trusted_base += [
        "Model/Glob.v is a model of CPython's fnmatch (library oracle): validated on every run against fnmatch.fnmatch on generated (name, pattern) pairs (leaf level), including bracket expressions of any shape (hyphens anywhere, well-formed / reversed / degenerate ranges next to each other and next to a '!', leading ! ^ ] [, backslashes, set operators, unclosed brackets); names and patterns are byte strings (ASCII in the generated class: a non-ASCII character is several bytes to the model but one character to fnmatch)",
        "Model/CollectStr.v primitives (PurePath.suffix/.parts, str.strip/rstrip/startswith/endswith) validated against CPython at the leaf level; content.splitlines() of .thailintignore, yaml.safe_load / json.load of the config and os.walk are oracles (the abstract input is the list of lines / the ignore list / the directory tree)",
        "the control flow of _collect_files_fast, lint_file, lint_directory, lint_files, _load_repo_ignores and execute_linting_on_paths is hand-modelled in Model/Collect.v (shape-checked by the translator, fingerprinted, tied by the observable-level correspondence)",
        "observation = set of file_path values of the reported violations with a planted violation in every file; 'the file reached the rules' is inferred from it",
        "str() of distinct path objects differs (pathlib): hypothesis of the memo theorems (C14_ignore_memo_*); all observations of one case are made on the same IgnoreDirectiveParser (get_ignore_parser keeps it per project root), so the memo filled by one run is the memo the next run starts with",
        "stream `xfile` (an ignored / excluded file must not contribute to a duplicate-code violation): judged in Python against the property statement on the reported violations (rule ids, files, messages); the DRY rule itself is not modelled here (C03), only the gates in front of it (Gen.par_evidence_gates = Gen.lint_gates, proved)",
        "fnmatch.translate of the running interpreter is the function transcribed in Model/Glob.v (Gen item fnmatch_translate: AST fingerprint, fail-closed); the reading of the `re` character class it produces is part of the fnmatch oracle",
    ]
    import time
    t0 = time.time()
    chk.build(["theories/Props/C14.v"], ["CollectGen"], known_v=["theories/Props/C14Known.v"])
    t_build = time.time() - t0
    # budget: only the hand-modelled sources of THIS property count (the shared fingerprint snapshot covers every property)
    mine = ("src/orchestrator/core.py::_collect_files_fast", "src/linter_config/ignore.py::is_ignored,_load_repo_ignores,_parse_thailintignore_file",
            "src/linter_config/pattern_utils.py::", "src/cli/utils.py::separate_files_and_dirs", "src/orchestrator/core.py::lint_directory_parallel")
    chk.fingerprint_changed = [k for k in chk.fingerprint_changed if k.startswith(mine)]
    scale = chk.budget_scale()
    per_batch = 150 if tier == "quick" else 1800
    max_depth = 4 if tier == "quick" else 6
    code_dirs, code_exts = code_tables()
    state = {"cands_all": None, "t_impl": 0.0, "t_coq": 0.0}
    # the enlarged budget (scale > 1: something no longer checks) is spent batch by batch and only until a failing input is found
    xreplay = None
    if replay:
        rc0 = json.loads(Path(replay).read_text())["violation"]["case"]
        if rc0.get("kind") == "xfile":
            xreplay = rc0
    for b in range(0 if xreplay else scale):
        if replay:
            cases = [json.loads(Path(replay).read_text())["violation"]["case"]]
            cases = [c.get("origin") or c for c in cases]
        else:
            cases = (corpus_cases() if b == 0 else []) + [gen_case(seed, i, max_depth, code_dirs, code_exts) for i in range(b * per_batch, (b + 1) * per_batch)]
        t0 = time.time()
        impls = pool_map(run_impl, cases, procs=4)
        state["t_impl"] += time.time() - t0
        for im in list(impls):          # the second-state runs are judged as cases of their own
            if im.get("rerun"):
                cases.append(im["rerun"]["case"])
                impls.append(im["rerun"]["impl"])
        t0 = time.time()
        with scratch_dir("tv-c14-coq-") as wd:
            verdicts, errs = judge(cases, impls, wd / "cases")
            if errs and b == 0:
                chk.broken.append(f"Model:evaluation of the collection model failed on {sum(v is None for v in verdicts)} of {len(cases)} cases ({errs[0][:300]})")
            if b == 0:
                try:
                    nleaf, bad = leaf_checks(seed, 2400 if tier == "quick" else 24000, cases, wd / "leaf")
                    chk.traces_validated += nleaf
                    chk.dist("leaf_comparisons", nleaf)
                    for x in bad[:5]:
                        chk.correspondence_broken(x)
                except RuntimeError as e:
                    chk.broken.append(f"Model:leaf-level evaluation failed ({str(e)[:300]})")
        state["t_coq"] += time.time() - t0
        decide(chk, cases, impls, verdicts, state)
        if replay or chk.violations:
            break
    # the cross-file evidence stream comes last, so that a failure of the main streams (which can name a former finding) is reported first
    nx = 0 if (replay and not xreplay) else (10 if tier == "quick" else 60) * scale
    xcases = [xreplay] if xreplay else [gen_xcase(seed, i) for i in range(nx)]
    if xcases:
        t0 = time.time()
        decide_xcases(chk, xcases, pool_map(run_xcase, xcases, procs=4))
        state["t_impl"] += time.time() - t0
    chk.notes.append(f"phase times: build {t_build:.0f}s, implementation runs {state['t_impl']:.0f}s, model evaluation in coqc {state['t_coq']:.0f}s")
    cands_all = state["cands_all"]
    if cands_all is not None and not cands_all[0]:
        alt = [i for i, ok in enumerate(cands_all) if ok]
        if alt:
            names = ["actual"] + [f"actual with {f} toggled" for f in FLAGS] + ["ideal"]
            chk.notes.append("implementation no longer matches the claimed quirk vector but matches: " + names[alt[0]] +
                             " (a listed defect is no longer observed; theorems hold for every vector)")
        else:
            chk.correspondence_broken({"level": "observable", "detail": "Model/Collect.v under Actual/CollectActual.v disagrees with the implementation and no candidate quirk vector matches all cases"})
    return chk.finish()


def decide(chk, cases, impls, verdicts, state):
    for case, impl, ver in zip(cases, impls, verdicts):
        nfiles = len(list(files_of(case["kids"])))
        r0 = impl["runs"][0] if impl["runs"] and isinstance(impl["runs"][0], list) else []
        chk.count([case["kids"], case["ti"], case["cfg"], case["cfg_kind"], case["place"]], 0 < len(r0) < nfiles)
        for k in ("via", "place", "cfg_kind", "spelling"):
            chk.dist(f"{k}:{case[k]}")
        chk.dist("sources:" + ("both" if case["ti"] is not None and case["cfg"] is not None else "ti" if case["ti"] is not None else "cfg" if case["cfg"] is not None else "none"))
        chk.dist(f"files:{min(nfiles // 10 * 10, 50)}+")
        for p in (case["cfg"] or []) + [l[3] for l in (case["ti"] or []) if l[0] == "P"]:
            chk.dist("pattern:" + p[0])
        chk.sample({"tree": case["kids"], "thailintignore": None if case["ti"] is None else [render_line(l) for l in case["ti"]],
                    "config_ignore": None if case["cfg"] is None else [render_pat(p) for p in case["cfg"]], "config": case["cfg_kind"],
                    "recursive_root_run_reports": r0}, 3)
        if impl["failures"]:
            chk.violation({"reason": "a rule failed internally (swallowed exception) during the run", "failures": impl["failures"][:3], "case": case})
            continue
        mirror_only = ver is None
        if mirror_only:     # the model could not be evaluated in Coq: fall back to the hand-written mirrors (a broken obligation is already recorded)
            ver = [py_verdict(case, o, r) if isinstance(r, list) else [0] * (3 + len(FLAGS) + 2) for o, r in zip(case["obs"], impl["runs"])]
        for o, r, bits in zip(case["obs"], impl["runs"], ver):
            chk.dist("obs:" + ("mixed" + (":parallel" if o[2] else "") if o[0] == "mixed" else
                               o[0] + ("" if o[0] == "files" else ":recursive" if o[1] else ":flat") + ("" if o[0] == "files" or not o[2] else ":subdir")
                               + (":parallel" if o[0] == "dir" and len(o) > 3 else "")))
            if str(case["i"]).endswith(":rerun"):
                chk.dist("obs:second-state-same-process")
            if isinstance(r, dict):
                chk.violation({"reason": "the run failed (exception / unexpected exit status)", "detail": r, "observation": o, "case": case})
                continue
            chk.traces_validated += 1
            spec_ok, ideal_ok, in_dom, cand = bool(bits[0]), bool(bits[1]), bool(bits[2]), [bool(b) for b in bits[3:]]
            if not mirror_only and in_dom:
                pv = py_verdict(case, o, r)
                if [bool(b) for b in pv] != [bool(b) for b in bits]:
                    chk.correspondence_broken({"level": "mirror", "detail": "the Python mirrors of the specification / model disagree with the verdict computed in Coq",
                                               "coq": bits, "python": pv, "observation": o, "case": case})
            if not in_dom:
                chk.correspondence_broken({"level": "generator", "detail": "generated input outside the domain of the theorems", "observation": o, "case": case})
                continue
            state["cands_all"] = cand if state["cands_all"] is None else [a and b for a, b in zip(state["cands_all"], cand)]
            if spec_ok:
                continue
            info = {"observation": o, "impl": r, "case": case, "model_actual_matches_impl": cand[0], "model_ideal_matches_spec": ideal_ok,
                    "reason": "the set of files that produced a violation differs from: files beneath the target minus always-excluded directories, compiled artefacts and ignore-pattern matches"}
            known_on = [f for f in FLAGS if ACTUAL[f]]
            if cand[0] and ideal_ok and py_model(case, o, ACTUAL) == r:
                # explained by the findings that are still listed: the claimed model (Coq, following Gen) and its hand-written
                # mirror both predict exactly this output, and with the flags off the model meets the specification
                relevant = [f for f in known_on if not cand[1 + FLAGS.index(f)]] or known_on
                for f in relevant:
                    chk.known_finding(f, {k: v for k, v in info.items() if k != "reason"})
                continue
            # otherwise a violation; if the failure is exactly a former defect (mirror with that one flag on) it is named, which
            # makes the framework report "recorded as fixed but observed again"
            named = [f for f in FLAGS if not ACTUAL[f] and py_model(case, o, {**ACTUAL, f: True}) == r]
            if named and all(f in chk.known["fixed"] for f in named):
                for f in named:
                    chk.known_finding(f, {k: v for k, v in info.items() if k != "reason"})
            else:
                chk.violation(info)
