"""C02 — magic numbers: exactly the non-allowed literals outside the documented exempt positions."""
from __future__ import annotations

import json
import os
import re
import shutil
import subprocess
from concurrent.futures import ThreadPoolExecutor
from decimal import Decimal, InvalidOperation
from pathlib import Path

from harness import coq
from harness.common import NPROC, VERIF, drain_failures, make_orchestrator, parse_json_violations, pool_map, rng_for, run_cli, scratch_dir
from harness.framework import Check
from harness.props import c02_render as R

PROP = "C02"
FLAGS = ["q_py_bool_is_number", "q_py_upper_neg_flagged", "q_py_upper_ann_flagged", "q_py_upper_tuple_flagged",
         "q_ts_hex_e_float", "q_ts_bigint_dropped", "q_ts_test_marker_anywhere", "q_rs_hex_suffix_clash", "q_ts_single_letter_const",
         "q_py_enumerate_kw_flagged", "q_py_upper_binop_flagged"]
LANG_FLAGS = {"MPy": FLAGS[0:4] + FLAGS[9:11], "MTs": FLAGS[4:7] + FLAGS[8:9], "MRs": FLAGS[7:8]}      # the order of MagicRun.flag_ids
COQ_LANG = {"py": "MPy", "ts": "MTs", "js": "MTs", "rs": "MRs"}
HEADER = ("From Coq Require Import ZArith.\n"
          "From TL Require Import Lib.Base Model.MagicNum Model.Magic Model.MagicSpec Model.MagicRun Actual.MagicActual.\n")
WORKERS = max(1, min(NPROC, int(os.environ.get("VERIF_WORKERS", "4"))))      # the box is shared: few workers for long runs
MSG_RE = re.compile(r"^Magic number (.*) should be a named constant$", re.S)
TS_MARKERS = [".test.", ".spec.", "test_", "_test.", "/tests/", "/test/"]

# name pools: the same lists as MagicSpec.name_pool; 45 % of the names are built from pieces (gen_name); file_good is evaluated for every case
NAMES = {
    "py": [("/case.py", 30), ("/util/helpers.py", 8), ("/test_case.py", 3), ("/case_test.py", 3), ("/tests/helper.py", 3),
           ("/constants.py", 2), ("/app_constants.py", 2), ("/status_codes.py", 2), ("/contest.py", 2), ("/latest_results.py", 2)],
    "ts": [("/case.ts", 30), ("/src/util.ts", 8), ("/case.test.ts", 2), ("/case.spec.ts", 2), ("/test_case.ts", 2), ("/case_test.ts", 2),
           ("/tests/case.ts", 2), ("/constants.ts", 2), ("/contest_data.ts", 3), ("/src/latest_results.ts", 3)],
    "js": [("/case.js", 30), ("/case.test.js", 3), ("/test/case.js", 3)],
    "rs": [("/case.rs", 30), ("/src/util.rs", 8), ("/test_case.rs", 3), ("/tests/case.rs", 3), ("/constants.rs", 3)],
}
FN_ATTRS = ["#[test]", "#[tokio::test]", "#[inline]", "#[allow(dead_code)]", "#[cfg(test)]"]
MOD_ATTRS = ["#[cfg(test)]", "#[allow(dead_code)]"]
INT_SUFFIXES = ["u8", "u16", "u32", "u64", "u128", "usize", "i8", "i16", "i32", "i64", "i128", "isize"]
FLOAT_SUFFIXES = ["f32", "f64"]
# names that are not UPPER_CASE constants (MagicSpec.spec_upper_name = false): lower / mixed case, one letter, no letter at all
LOWER_NAMES = ["val", "timeout", "max_retries", "bufSize", "x1", "total_count", "maxValue", "Max_val", "N", "X", "_", "_1", "__",
               "_private_val", "n_2", "x", "mAX", "Max", "_x", "process_item"]
CALL_NAMES = ["foo", "compute", "process_item", "getValue", "Build", "N", "f2"]
# UPPER_CASE names (spec_upper_name = true): digits, leading / trailing / double underscores, two characters
UPPER_NAMES = ["MAX_SIZE", "TIMEOUT_SECONDS", "DEFAULT_PORT", "LIMITS", "PI2", "MAX_V", "OFFSET", "HTTP_OK", "BUFFER_SIZE_BYTES", "XY",
               "_BACKOFF_SECONDS", "__CACHE_SLOTS", "_POOL_SIZE", "MAX_", "X1", "A_B", "V2_LIMIT", "__X__", "_N", "N_", "A__B", "_9X"]
COMMON_VALUES = [0, 1, 2, 3, 5, 7, 10, 12, 21, 42, 60, 100, 255, 300, 443, 1000, 1024, 3600, 8080, 65535]


def wchoice(r, pairs):
    tot = sum(w for _, w in pairs)
    x = r.random() * tot
    for v, w in pairs:
        x -= w
        if x <= 0:
            return v
    return pairs[-1][0]


# ------------------------------------------------------------------ literal generation
def digits_of(n: int, base: int) -> list[int]:
    if n == 0:
        return [0]
    out = []
    while n:
        out.append(n % base)
        n //= base
    return out[::-1]


def split_groups(r, ds):
    """underscore-separated groups of the digit list"""
    if len(ds) < 2 or r.random() < 0.6:
        return [ds]
    groups, cur = [], []
    for i, d in enumerate(ds):
        cur.append(d)
        if i < len(ds) - 1 and r.random() < 0.4:
            groups.append(cur)
            cur = []
    groups.append(cur)
    return groups


def gen_int_value(r):
    k = r.random()
    if k < 0.45:
        return r.choice(COMMON_VALUES)
    if k < 0.65:
        return r.randint(0, 14)
    if k < 0.9:
        return r.randint(13, 5000)
    return r.randint(5000, 10 ** r.randint(5, 12))


def gen_numeric(r, lang, small_bias=False):
    """one numeric literal admissible in lang (MagicSpec.lit_ok)"""
    k = r.random()
    if small_bias and k < 0.7:
        v = r.randint(0, 14)
        return ["Int", "Dec", [digits_of(v, 10)], False, ""]
    if k < 0.5:                                              # decimal integers
        v = gen_int_value(r)
        ds = digits_of(v, 10)
        lit = ["Int", "Dec", split_groups(r, ds) if r.random() < 0.25 else [ds], False, ""]
    elif k < 0.7:                                            # hex / octal / binary
        radix = wchoice(r, [("Hex", 6), ("Oct", 2), ("Bin", 2)])
        base = R.BASE[radix]
        if lang != "rs" and r.random() < 0.3:                # 0X / 0O / 0B (Rust has lower-case prefixes only)
            radix += "U"
        if radix.startswith("Hex") and r.random() < 0.5:              # digits e / f on purpose
            ds = [r.choice([14, 15, 1, 15, 14, 10, 3, 2]) for _ in range(r.randint(1, 4))]
            if lang == "rs" and r.random() < 0.5:
                ds = ds[:2] + [15] + r.choice([[3, 2], [6, 4]])   # 0x..f32 / 0x..f64
            if ds[0] == 0:
                ds[0] = 1
        else:
            ds = digits_of(gen_int_value(r) if r.random() < 0.7 else r.randint(0, 255), base)
        lit = ["Int", radix, split_groups(r, ds) if r.random() < 0.2 else [ds], r.random() < 0.5, ""]
    else:                                                    # floats with a short decimal expansion
        ip = digits_of(r.choice([0, 1, 2, 3, 5, 10, 12, 100, 314, 25]) if r.random() < 0.7 else r.randint(0, 999), 10)
        fp = [] if r.random() < 0.25 else [r.randint(0, 9) for _ in range(r.randint(1, 3))]
        if fp and r.random() < 0.35:
            fp = [0] * len(fp) if r.random() < 0.6 else fp[:-1] + [0]      # 3.0, 2.50: equal to shorter decimals / ints
        if fp and lang != "rs" and r.random() < 0.12:
            ip = []                                          # .5 / .25e3 (no integer part; not a Rust literal)
        ex = None
        if not fp or r.random() < 0.3:
            ex = [r.random() < 0.4, digits_of(r.randint(0, 6), 10), r.random() < 0.35]      # 1e5 / 25E-1
        lit = ["Float", ip, fp, ex, ""]
    # suffixes
    if lang in ("ts", "js") and lit[0] == "Int" and r.random() < 0.12:
        lit[4] = "n"
    if lang == "rs" and r.random() < 0.3:
        us = "_" if r.random() < 0.4 else ""
        if lit[0] == "Float":
            lit[4] = us + r.choice(FLOAT_SUFFIXES)
        elif lit[1] == "Dec" and r.random() < 0.25:
            lit[4] = us + r.choice(FLOAT_SUFFIXES)
        else:
            lit[4] = us + r.choice(INT_SUFFIXES)
    return lit


def gen_lit(r, lang, small_bias=False):
    k = r.random()
    if k < (0.12 if lang == "py" else 0.05):
        return ["Bool", r.random() < 0.5]
    if k < (0.17 if lang == "py" else 0.10):
        return ["Str", r.choice(["abc123", "42", "3.14", "0x1F", "v2", "1000"])]
    if k < (0.20 if lang == "py" else 0.13):
        return ["Ident", r.choice(["limit", "other_value", "MAX_LIMIT", "n2"])]
    return gen_numeric(r, lang, small_bias)


# ------------------------------------------------------------------ file generation
CTX_WEIGHTS = {"Assign": 6, "Arg": 4, "Return": 4, "Default": 2, "Elts": 3, "Compare": 3, "Binop": 2, "Mul": 2, "Neg": 2,
               "Upper": 6, "UpperNeg": 3, "UpperAnn": 3, "UpperTuple": 3, "UpperBinop": 3, "Range": 4, "Enumerate": 3, "EnumerateKw": 2, "StrRepeatL": 2,
               "StrRepeatR": 2, "DictKeys": 2, "TsEnum": 3, "RsStatic": 3, "Interp": 3, "Decorator": 2, "Nested": 2, "Match": 2,
               "Kwarg": 2, "Index": 2, "Lambda": 2, "Macro": 3, "TsField": 3, "RsEnum": 3}
IGNORE_POOL = ["tests/**", "**/*_constants.py", "*.ts", "case.py", "case", "util/*.py", "**/helpers.py", "**/case.py", "src/*", "tests/",
               "generated/**", "*/case.rs", "??se.py", "*.js", "legacy"]
LANG_KEY = {"py": "python", "ts": "typescript", "js": "javascript", "rs": "rust"}


def gen_site(r, lang, kind):
    ctxs = [(c, CTX_WEIGHTS[c]) for c in R.CTXS["ts" if lang == "js" else lang] if R.ctx_ok(lang, kind, c)]
    c = wchoice(r, ctxs)
    upper = c in ("Upper", "UpperNeg", "UpperAnn", "UpperTuple", "UpperBinop", "RsStatic", "TsEnum") or (c == "TsField" and r.random() < 0.7)
    name = r.choice(UPPER_NAMES) if upper else r.choice(CALL_NAMES) if c in ("Arg", "Decorator", "Kwarg", "Macro") else r.choice(LOWER_NAMES)
    n = 1
    if c in R.MULTI:
        n = r.choice([1, 2, 2, 3]) if c != "DictKeys" else r.choice([1, 2, 3, 4, 5, 5, 6])
        if c == "Range":
            n = r.choice([1, 1, 2])
        if c == "UpperBinop":
            n = r.choice([1, 2, 2])
    small = c in ("Range", "Enumerate", "EnumerateKw")
    lits = [gen_numeric(r, lang) if c in ("Match", "UpperBinop") else gen_lit(r, lang, small) for _ in range(n)]
    return {"ctx": c, "name": name, "lits": lits, "line": 0, "dir": r.randrange(len(R.DIR_POOL)) if r.random() < 0.12 else None}


DIR_PIECES = ["src", "util", "tests", "test", "lib", "pkg_a", "Config", "generated", "latest", "contest", "my_tests", "unit.test.d", "legacy",
              "test_data", "spec"]
STEM_PIECES = ["case", "helper", "data", "test", "tests", "latest", "contest", "constants", "codes", "status", "Test", "TEST", "spec", "x", "a1",
               "main", "Constants", "CODES", "py", "util"]


def gen_name(r, lang):
    """a file name: from the fixed pool (plain, test-named, constants modules, look-alikes), or built from pieces (MagicSpec.name_good:
    any path for TypeScript / JavaScript / Rust; <dot-free stem>.py for Python)"""
    if r.random() < 0.55:
        return wchoice(r, NAMES[lang])
    dirs = [r.choice(DIR_PIECES) for _ in range(r.choice([0, 0, 1, 1, 2]))]
    stem = r.choice(["", "_", "-"]).join(r.choice(STEM_PIECES) for _ in range(r.choice([1, 2, 2, 3])))
    k = r.random()
    if k < 0.12:
        stem = "test_" + stem
    elif k < 0.24:
        stem = stem + "_test"
    elif k < 0.30:
        stem = stem + "_tests"
    elif k < 0.36:
        stem = stem + r.choice(["_constants", "_codes", "_Codes", "constants", "_CONSTANTS"])
    if r.random() < 0.15:                                     # letter case of the whole stem (markers are case-sensitive or not)
        stem = r.choice([stem.upper(), stem.capitalize(), stem.lower()])
    if lang != "py" and r.random() < 0.25:                    # dotted stems: case.test.ts, a.spec.js, data.d.ts, x.tests.ts
        stem += r.choice([".test", ".spec", ".d", ".tests", ".Test", ".min", ".test.spec"])
    return "/" + "/".join(dirs + [stem + R.EXT[lang]])


def name_class(name: str) -> str:
    base = name.rsplit("/", 1)[1].lower()
    ks = [k for k in ("test_", "_test.", ".test.", ".spec.", "constants", "_codes") if k in base]
    ks += [k for k in ("/tests/", "/test/") if k in name]
    return "+".join(ks) or "plain"


def gen_file(r, lang):
    name = gen_name(r, lang)
    kinds = {"py": [("Top", 4), ("Func", 5), ("Method", 2), ("Nested", 1), ("Class", 1)],
             "ts": [("Top", 4), ("Func", 5), ("Method", 2), ("Nested", 1), ("Class", 1)],
             "js": [("Top", 4), ("Func", 5), ("Method", 2), ("Nested", 1)],
             "rs": [("Top", 2), ("Func", 6), ("Method", 2), ("Nested", 1), ("Class", 1)]}[lang]
    scopes = []
    many_consts = lang == "py" and r.random() < 0.08            # around the definition-module threshold
    for _ in range(r.randint(1, 4)):
        k = wchoice(r, kinds)
        sc = {"kind": k, "mod_attrs": None, "attrs": [], "sites": [gen_site(r, lang, k) for _ in range(r.choice([0, 1, 2, 3, 3, 4, 5, 6]))]}
        if lang == "rs":
            if r.random() < 0.2:
                sc["mod_attrs"] = [r.choice(MOD_ATTRS)] if r.random() < 0.8 else list(MOD_ATTRS)
            if k not in ("Top", "Class") and r.random() < 0.35:
                sc["attrs"] = [r.choice(FN_ATTRS)] if r.random() < 0.7 else r.sample(FN_ATTRS, 2)
        scopes.append(sc)
    if many_consts:
        n = r.choice([8, 9, 10, 11])
        sites = [{"ctx": "Upper", "name": r.choice(UPPER_NAMES), "lits": [gen_lit(r, lang) if r.random() < 0.15 else gen_numeric(r, lang)], "line": 0}
                 for _ in range(n)]
        scopes.insert(r.randint(0, len(scopes)), {"kind": "Top", "mod_attrs": None, "attrs": [], "sites": sites})
    if not any(sc["sites"] for sc in scopes):
        k = "Func"
        scopes[0] = {"kind": k, "mod_attrs": None, "attrs": [], "sites": [gen_site(r, lang, k)]}
    return {"lang": lang, "name": name, "scopes": scopes}


def file_values(f):
    out = []
    for sc in f["scopes"]:
        for s in sc["sites"]:
            for l in s["lits"]:
                if R.lit_is_numeric(l):
                    out.append(R.norm(*R.lit_value(l)))
    return out


def effective(cfg, lang):
    """(level, list) of the allowed_numbers in effect for a file of `lang` under the documented precedence:
    language sub-section, then the top level, then the default"""
    sec = cfg["langs"].get(LANG_KEY[lang])
    if sec is not None and sec.get("allowed") is not None:
        return "lang", sec["allowed"]
    if cfg["allowed"] is not None:
        return "top", cfg["allowed"]
    return "top", [(v, 0) for v in DEFAULT_ALLOWED]


def gen_allowed(r, vals):
    k = r.random()
    if k < 0.3:
        return None
    if k < 0.45:
        return []
    if k < 0.7:
        return [r.choice(vals) for _ in range(r.randint(1, 3))]
    if k < 0.85:
        return [r.choice([(0, 0), (1, 0), (-1, 0), (25, -1), (5, -1), (2, 0), (1, 3)]) for _ in range(r.randint(1, 3))]
    return [(v, 0) for v in [-1, 0, 1, 2, 3, 4, 5, 10, 100, 1000]]


def gen_configs(r, f):
    """configurations {"allowed": None | [(m, e)], "max_small": None | int, "langs": {language key: {"allowed"?, "max_small"?}},
    "delta": None | [base index, +/-, value]}: top-level keys and per-language sub-sections, each key optional"""
    vals = file_values(f) or [(7, 0)]
    cfgs = []
    for _ in range(r.choice([1, 2, 2])):
        langs = {}
        if r.random() < 0.4:
            for key in LANG_KEY.values():
                if r.random() < (0.7 if key == LANG_KEY[f["lang"]] else 0.3):
                    sec = {}
                    if r.random() < 0.5:
                        sec["allowed"] = gen_allowed(r, vals) or []
                    if r.random() < 0.5:
                        sec["max_small"] = r.randint(1, 12)
                    langs[key] = sec
        en = None if r.random() < 0.88 else (r.random() < 0.5)
        ig = [] if r.random() < 0.85 else r.sample(IGNORE_POOL, r.choice([1, 1, 2, 3]))
        cfgs.append({"allowed": gen_allowed(r, vals), "max_small": None if r.random() < 0.35 else r.randint(1, 12), "langs": langs,
                     "enabled": en, "ignore": ig, "delta": None})
    base = list(cfgs)
    for bi, c in enumerate(base):                              # cfg + a, cfg - a on the list in effect
        level, eff = effective(c, f["lang"])
        cur = [R.norm(*x) for x in eff]
        a = r.choice(vals) if r.random() < 0.8 else R.norm(r.randint(0, 50), 0)
        new, sign = ([x for x in cur if x != a], "-") if a in cur else (cur + [a], "+")
        d = json.loads(json.dumps(c))
        if level == "lang":
            d["langs"][LANG_KEY[f["lang"]]]["allowed"] = new
        else:
            d["allowed"] = new
        d["delta"] = [bi, sign, list(a)]
        cfgs.append(d)
    return cfgs


DEFAULT_ALLOWED = [-1, 0, 1, 2, 3, 4, 5, 10, 100, 1000, 21, 22, 80, 443, 3000, 5000, 8080, 8443]   # only to build cfg +/- a around the default


def gen_cases(seed: int, n_files: int):
    cases = []
    for i in range(n_files):
        r = rng_for(seed, PROP, i)
        lang = wchoice(r, [("py", 5), ("ts", 3), ("js", 1), ("rs", 3)])
        f = gen_file(r, lang)
        text = R.render(f, top_offset=r.choice([0, 0, 1, 2]))
        via = "cli" if r.random() < 0.02 else "api"
        cfgs = gen_configs(r, f)
        if via == "cli":                                      # a CLI run costs 0.5 s: one base configuration and its delta
            cfgs = [cfgs[0], next(c for c in cfgs if c["delta"] is not None and c["delta"][0] == 0)]
        cases.append({"i": i, "file": f, "text": text, "cfgs": cfgs, "via": via})
    return cases


# ------------------------------------------------------------------ implementation
def py_number(m: int, e: int):
    return m * 10 ** e if e >= 0 else float(f"{m}e{e}")


def _section(allowed, max_small) -> dict:
    sec = {}
    if allowed is not None:
        sec["allowed_numbers"] = [py_number(*a) for a in allowed]
    if max_small is not None:
        sec["max_small_integer"] = max_small
    return sec


def impl_config(cfg) -> dict:
    sec = _section(cfg["allowed"], cfg["max_small"])
    for key, sub in cfg.get("langs", {}).items():
        sec[key] = _section(sub.get("allowed"), sub.get("max_small"))
    if cfg.get("enabled") is not None:
        sec["enabled"] = cfg["enabled"]
    if cfg.get("ignore"):
        sec["ignore"] = list(cfg["ignore"])
    return {"magic-numbers": sec} if sec else {}


def _parse(vs):
    out = []
    for v in vs:
        if not str(v["rule_id"]).startswith("magic-numbers"):
            continue
        m = MSG_RE.match(v["message"])
        txt = m.group(1) if m else None
        if txt in ("True", "False"):
            out.append([v["line"], "B", 1 if txt == "True" else 0, 0])
            continue
        try:
            d = Decimal(txt)
            if not d.is_finite():
                raise InvalidOperation
            sign, digits, exp = d.as_tuple()
            mm = int("".join(map(str, digits))) * (-1 if sign else 1)
            out.append([v["line"], "N", *R.norm(mm, exp)])
        except (InvalidOperation, TypeError, ValueError):
            out.append([v["line"], "?", v["message"][:60], 0])
    return sorted(out, key=lambda x: (x[0], x[1], str(x[2]), x[3]))


_orch = None


def run_impl(case):
    """implementation output per configuration: sorted [line, kind, mantissa, exponent]"""
    global _orch
    f = case["file"]
    for _ in range(20):
        ctxm = scratch_dir("tv-c02-")
        d = ctxm.__enter__()
        if not any(mk in str(d) + "/" for mk in TS_MARKERS + IGNORE_POOL) and "constants" not in str(d) and "_codes" not in str(d):
            break
        ctxm.__exit__(None, None, None)
    try:
        p = d / f["name"].lstrip("/")
        p.parent.mkdir(parents=True, exist_ok=True)
        p.write_text(case["text"])
        res = []
        if case["via"] == "cli":
            for cfg in case["cfgs"]:
                cf = d / "cfg.json"
                cf.write_text(json.dumps(impl_config(cfg)))
                rc, so, se = run_cli(["magic-numbers", "--format", "json", "--config", str(cf), str(p)], cwd=d)
                vs = parse_json_violations(so)
                if vs is None or rc not in (0, 1):
                    res.append({"error": f"rc={rc} stdout={so[:200]} stderr={se[-300:]}"})
                else:
                    res.append(_parse(vs))
            return {"runs": res, "failures": []}
        if _orch is None:
            _orch = make_orchestrator(d, {})
        _orch.project_root = d
        for cfg in case["cfgs"]:
            _orch.config = impl_config(cfg)
            vs = _orch.lint_file(p)
            res.append(_parse([{"rule_id": v.rule_id, "line": v.line, "message": v.message} for v in vs]))
        return {"runs": res, "failures": drain_failures()}
    finally:
        ctxm.__exit__(None, None, None)


# ------------------------------------------------------------------ Coq side
def coq_cfg(cfg, lang="py") -> str:
    def opt_list(al):
        return "None" if al is None else "(Some " + coq.coq_list([R.coq_num(*a) for a in al]) + ")"

    def opt_z(z):
        return "None" if z is None else f"(Some {R.coq_z(z)})"
    sec = cfg.get("langs", {}).get(LANG_KEY[lang])
    ls = "None" if sec is None else f"(Some ({opt_list(sec.get('allowed'))}, {opt_z(sec.get('max_small'))}))"
    en = "None" if cfg.get("enabled") is None else f"(Some {coq.coq_bool(cfg['enabled'])})"
    ig = coq.coq_list([coq.coq_string(p) for p in cfg.get("ignore", [])])
    return f"(mk_cfg {opt_list(cfg['allowed'])} {opt_z(cfg['max_small'])} {ls} {en} {ig})"


def coq_rep(r) -> str:
    if r[1] == "B":
        return f"({r[0]}, RBool {coq.coq_bool(bool(r[2]))})"
    if r[1] == "N":
        return f"({r[0]}, RNum {R.coq_num(r[2], r[3])})"
    return f"({r[0]}, RBool true)"          # an unparsed message is reported as a violation by the caller anyway


def coq_case(case, impl) -> str:
    runs = []
    for cfg, r in zip(case["cfgs"], impl["runs"]):
        reps = [] if isinstance(r, dict) else [coq_rep(x) for x in r]
        runs.append(f"({coq_cfg(cfg, case['file']['lang'])}, {coq.coq_list(reps)})")
    f = R.coq_file(case["file"])
    return (f"Eval vm_compute in (judge magic_actual {COQ_LANG[case['file']['lang']]} {f} {R.coq_dirs(case['file'])} {coq.coq_list(runs)}).\n"
            f"Eval vm_compute in (lit_texts {f}).")


def _run_shard(args):
    path, th = args
    p = subprocess.run(["timeout", "600", "coqc", "-Q", str(th), "TL", "-w", "-notation-overridden,-abstract-large-number", str(path)],
                       capture_output=True, text=True, cwd=str(path.parent))
    return p.returncode, p.stdout, p.stderr


def eval_shards(workdir: Path, shards, th: Path):
    workdir.mkdir(parents=True, exist_ok=True)
    jobs = []
    for i, body in enumerate(shards):
        p = workdir / f"cases_{i}.v"
        p.write_text(HEADER + "\n" + body + "\n")
        jobs.append((p, th))
    with ThreadPoolExecutor(max_workers=WORKERS) as ex:
        outs = list(ex.map(_run_shard, jobs))
    results = []
    for (rc, so, se), (p, _) in zip(outs, jobs):
        if rc != 0:
            raise RuntimeError(f"coqc failed on {p.name} (rc={rc}): {se[-1500:]}")
        results.append(coq.parse_nat_lists(so))
    return results


def recorded_layer_theories(dst: Path) -> Path | None:
    """When the current generated layer (or the model on top of it) no longer builds, the model can still be run with the
    generated layer recorded for the unchanged tree (coq/Gen.expected/MagicGen.v.txt).  This discharges nothing (the run is
    already failed by the broken obligation); it only lets the search exhibit a concrete input on which the changed
    implementation departs from the documented rule."""
    snap = coq.COQ / "Gen.expected" / "MagicGen.v.txt"
    if not snap.exists():
        return None
    th = dst / "theories"
    for sub in ("Lib", "Model", "Gen", "Actual"):
        (th / sub).mkdir(parents=True, exist_ok=True)
    for f in (coq.TH / "Lib").glob("*.vo"):
        shutil.copy(f, th / "Lib" / f.name)
    (th / "Gen" / "MagicGen.v").write_text(snap.read_text())
    order = [("Gen", "MagicGen.v"), ("Model", "MagicNum.v"), ("Model", "Magic.v"), ("Model", "MagicSpec.v"), ("Model", "MagicRun.v"),
             ("Actual", "MagicActual.v")]
    for sub, name in order[1:]:
        shutil.copy(coq.TH / sub / name, th / sub / name)
    for sub, name in order:
        p = subprocess.run(["timeout", "300", "coqc", "-Q", str(th), "TL", "-w", "-notation-overridden", str(th / sub / name)],
                           capture_output=True, text=True, cwd=str(dst))
        if p.returncode != 0:
            return None
    return th


def judge(cases, impls, workdir: Path, per_shard=30, th: Path | None = None):
    shards, index = [], []
    for s in range(0, len(cases), per_shard):
        chunk = list(range(s, min(len(cases), s + per_shard)))
        shards.append("\n".join(coq_case(cases[j], impls[j]) for j in chunk))
        index.append(chunk)
    outs = eval_shards(workdir, shards, th or coq.TH)
    verdicts = [None] * len(cases)
    for chunk, out in zip(index, outs):
        if len(out) != 2 * len(chunk):
            raise RuntimeError(f"expected {2 * len(chunk)} results, got {len(out)}")
        for n, j in enumerate(chunk):
            verdicts[j] = (out[2 * n], out[2 * n + 1])
    return verdicts


def rendered_texts(f):
    out = []
    for sc in f["scopes"]:
        for s in sc["sites"]:
            for l in s["lits"]:
                if R.lit_is_numeric(l):
                    out.append([ord(c) for c in R.lit_text(f["lang"], l)])
    return out


def delta_ok(case, impl) -> str | None:
    """the delta law on the implementation's own outputs: cfg + a removes exactly the reports naming a"""
    for cfg, r in zip(case["cfgs"], impl["runs"]):
        if cfg["delta"] is None or isinstance(r, dict):
            continue
        bi, sign, a = cfg["delta"]
        b = impl["runs"][bi]
        if isinstance(b, dict):
            continue
        a = R.norm(*a)

        def names_a(x):
            return (x[1] == "N" and (x[2], x[3]) == a) or (x[1] == "B" and (x[2], 0) == a)
        small, big = (r, b) if sign == "+" else (b, r)
        if sorted(map(str, small)) != sorted(map(str, [x for x in big if not names_a(x)])):
            return f"allowed_numbers {sign} {a}: reports with {a} allowed are not the other reports minus those naming {a}"
    return None


def lit_kinds(f):
    ks = set()
    for sc in f["scopes"]:
        ks.add("scope:" + sc["kind"] + ("+mod" if sc.get("mod_attrs") is not None else "") + ("+attrs" if sc.get("attrs") else ""))
        for s in sc["sites"]:
            ks.add("ctx:" + s["ctx"])
            for l in s["lits"]:
                if l[0] == "Int":
                    ks.add("lit:" + l[1] + ("_" if len(l[2]) > 1 else "") + ("+suffix" if l[4] else ""))
                elif l[0] == "Float":
                    ks.add("lit:" + ("DotFloat" if not l[1] else "Float") + (("E" if len(l[3]) > 2 and l[3][2] else "e") if l[3] is not None else "") + ("+suffix" if l[4] else ""))
                else:
                    ks.add("lit:" + l[0])
    return ks


def load_known_d(chk):
    """the assembled known_findings.json is a shared file that may lag behind: C02's entries are taken from known.d/C02.json"""
    p = VERIF / "known.d" / f"{PROP}.json"
    if p.exists():
        chk.known = {"known": {}, "fixed": {}}
        for f in json.loads(p.read_text()).get("findings", []):
            if f.get("property") != PROP:
                continue
            if f.get("status") == "known":
                chk.known["known"][f["key"]] = f
            elif str(f.get("status", "")).startswith("fixed"):
                chk.known["fixed"][f["key"]] = f


def corpus_cases():
    out = []
    for p in sorted((VERIF / "corpus" / PROP).glob("*.json")):
        c = json.loads(p.read_text())
        f = c["file"]
        text = R.render(f)
        out.append({"i": "corpus:" + p.stem, "file": f, "text": text, "cfgs": c["cfgs"], "via": c.get("via", "api")})
    return out


def run(tier: str, seed: int, replay: str | None = None) -> int:
    chk = Check(PROP, tier, seed)
    load_known_d(chk)
    chk.rule = ("seeded random files in Python / TypeScript / JavaScript / Rust: 1-5 scopes (module level, function, method, nested function, "
                "class / impl body, Rust #[test] / #[cfg(test)] scopes), 0-6 statements each placing 1-6 literals in one of 32 contexts "
                "(assignment, argument, keyword argument, decorator argument, return, default, collection, nested collection, comparison, "
                "arithmetic, negation, subscript, lambda / arrow / closure body, f-string / template-string substitution, match / switch arm, "
                "Rust macro argument, UPPER_CASE definition in five shapes (plain, negated, annotated, tuple / array, product), range / enumerate (positional and start= keyword), string repetition, dict keys, enum member, "
                "static item); literals: decimal, hex / octal / binary, "
                "underscore-separated, Rust-suffixed, BigInt, short floats with exponents, booleans, digit strings, identifiers; file names from "
                "a pool (plain, test-named, constants modules, look-alikes) or built from directory / stem pieces (test_ / _test / .test. / "
                ".spec. / constants / codes markers in every position and letter case, dotted TypeScript stems); each file linted under 2-4 configurations (default / empty / "
                "singleton / float allowed_numbers drawn from the file's own values, max_small_integer 1..12, and in 40 % per-language "
                "python / typescript / javascript / rust sub-sections setting none, one or both keys) plus each configuration with one "
                "value added to or removed from the allowed_numbers list in effect; a case (file, configuration) is non-trivial when the documented rule reports "
                "at least one literal and leaves at least one numeric literal unreported; distinct = distinct (file, configuration)")
    chk.trusted_base += [
        "to_py / to_ts / to_rs (Model/Magic.v): the ancestor chain and node type the parsers give each literal of a rendered statement are "
        "parser oracles, validated by this correspondence; lit_chars = the renderer's literal text is compared on every case",
        "numeric values are exact decimals mantissa*10^exponent compared after normalisation; generated literals are integers (any radix, "
        "underscores, suffixes) and floats with at most 6 significant digits and |exponent| <= 9, for which decimal equality and "
        "IEEE-double equality (Python's `value in allowed_numbers`) coincide; CPython's literal evaluation for Python files is an oracle",
        "py_int0 / py_float (Model/MagicNum.v) model int(text, 0) / float(text) on number-token text only (no sign, whitespace, inf/nan)",
        "12 % of the generated statements carry a trailing same-line comment from a pool of 8 forms (directives naming this rule, another rule, "
        "both, the bare form, a plain note); what the shared IgnoreDirectiveParser reads in them is an oracle here (property C04's subject); "
        "next-line / block / file-level / function-level directives are not generated; column numbers and suggestions are not compared",
        "file names: Python files are <dot-free stem>.py (MagicSpec.name_good); PurePath.match is modelled by path_match and used by "
        "model and specification alike (only the switch semantics of `ignore` is proved)",
    ]
    chk.build(["theories/Props/C02.v"], ["MagicGen"], known_v=["theories/Props/C02Known.v"])
    scale = chk.budget_scale()
    n_files = (500 if tier == "quick" else 5000) * scale
    if replay:
        c = json.loads(Path(replay).read_text())["violation"]["case"]
        c["text"] = R.render(c["file"])
        cases = [c]
    else:
        cases = corpus_cases() + gen_cases(seed, n_files)
    import time
    t0 = time.time()
    impls = pool_map(run_impl, cases, procs=WORKERS)
    t1 = time.time()
    with scratch_dir("tv-c02-coq-") as wd:
        try:
            verdicts = judge(cases, impls, wd / "a")
        except RuntimeError as e:
            chk.broken.append(f"Model:evaluation of the magic-numbers model failed ({str(e)[:400]})")
            verdicts = [None] * len(cases)
            th = recorded_layer_theories(wd / "recorded")
            if th is not None:
                chk.notes.append("the current generated layer / model does not build: cases were judged with the generated layer recorded for "
                                 "the unchanged tree (coq/Gen.expected/MagicGen.v.txt) to search for a failing input")
                try:
                    verdicts = judge(cases, impls, wd / "b", th=th)
                except RuntimeError as e2:
                    chk.broken.append(f"Model:evaluation with the recorded generated layer failed too ({str(e2)[:300]})")
    chk.extra_cov["stage_seconds"] = {"build_and_generate": round(t0 - chk.t0, 1), "implementation_runs": round(t1 - t0, 1),
                                      "model_evaluation_in_coq": round(time.time() - t1, 1)}
    cands_all = {}
    for case, impl, ver in zip(cases, impls, verdicts):
        f = case["file"]
        lang = COQ_LANG[f["lang"]]
        chk.dist("lang:" + f["lang"])
        chk.dist("via:" + case["via"])
        chk.dist("name:" + ("pool" if f["name"] in [n for n, _ in NAMES[f["lang"]]] else "built") + ":" + name_class(f["name"]))
        for k in lit_kinds(f):
            chk.dist(k)
        chk.sample({"lang": f["lang"], "name": f["name"], "text": case["text"][:500], "config": impl_config(case["cfgs"][0]),
                    "impl": impl["runs"][0]}, 4)
        small = {"name": f["name"], "text": case["text"], "case": {"file": f, "cfgs": case["cfgs"], "via": case["via"], "i": case["i"]}}
        if impl["failures"]:
            chk.violation({"reason": "a rule failed internally (swallowed exception) during the run", "failures": impl["failures"][:3], **small})
            continue
        n_viol = len(chk.violations)
        if ver is None:
            d = delta_ok(case, impl)
            if d:
                chk.violation({"reason": "delta law violated on the implementation: " + d, "impl": impl["runs"], **small})
            for cfg in case["cfgs"]:
                chk.count([f, cfg], False)
            continue
        bits_all, texts = ver
        if texts != rendered_texts(f):
            chk.broken.append("Model:lit_chars differs from the renderer's literal text on case " + str(case["i"]))
        for cfg, r, bits in zip(case["cfgs"], impl["runs"], bits_all):
            n_spec, n_num = bits[0], bits[1]
            chk.count([f, cfg["allowed"], cfg["max_small"], cfg.get("langs")], 0 < n_spec < n_num)
            chk.dist("allowed:" + ("default" if cfg["allowed"] is None else "empty" if not cfg["allowed"] else "list"))
            chk.dist("delta:" + ("none" if cfg["delta"] is None else cfg["delta"][1]))
            sec = cfg.get("langs", {}).get(LANG_KEY[f["lang"]])
            chk.dist("language-section:" + ("none" if sec is None else "+".join(sorted(sec)) or "empty"))
            chk.dist("enabled:" + str(cfg.get("enabled")))
            chk.dist("ignore-patterns:" + str(len(cfg.get("ignore", []))))
            if isinstance(r, dict):
                chk.violation({"reason": "CLI run failed", "detail": r, "config": impl_config(cfg), **small})
                continue
            if any(x[1] == "?" for x in r):
                chk.violation({"reason": "a violation message does not name a value in the documented format", "impl": r, **small})
                continue
            chk.traces_validated += 1
            good, spec_ok, ideal_ok, lc = bool(bits[2]), bool(bits[3]), bool(bits[4]), [bool(b) for b in bits[5:]]
            # the model is evaluated for the language's own flags only; a flag of another language cannot change the output
            own = [FLAGS.index(k) for k in LANG_FLAGS[lang]]
            cand = [lc[0]] + [lc[1 + own.index(i)] if i in own else lc[0] for i in range(len(FLAGS))] + [lc[-1]]
            if not good:
                chk.broken.append(f"Gen:generated input {case['i']} does not satisfy file_good")
                continue
            prev = cands_all.get(lang)
            cands_all[lang] = cand if prev is None else [a and b for a, b in zip(prev, cand)]
            if spec_ok:
                continue
            info = {"config": impl_config(cfg), "impl": r, "reason": "reported literals differ from the documented rule", **small}
            relevant = [FLAGS[i] for i in range(len(FLAGS)) if not cand[1 + i]]
            if cand[0] and ideal_ok and not relevant:
                # several open defects compensate one another on this input (no single flag changes the output, switching all
                # off does): attribute to the language's flags that are still listed as known, never to a repaired one
                relevant = [k for k in LANG_FLAGS[lang] if k in chk.known["known"]]
            if cand[0] and ideal_ok and relevant:
                for k in relevant:
                    chk.known_finding(k, {"lang": f["lang"], "name": f["name"], "text": case["text"], "config": impl_config(cfg), "impl": r})
            else:
                info["model_actual_matches_impl"] = cand[0]
                info["model_ideal_matches_spec"] = ideal_ok
                chk.violation(info)
        if len(chk.violations) == n_viol:
            # the delta law directly on the implementation's outputs (proved for the model under every quirk vector)
            d = delta_ok(case, impl)
            if d:
                chk.violation({"reason": "delta law violated on the implementation: " + d, "impl": impl["runs"], **small})
    names = ["actual"] + [f"actual without {f}" for f in FLAGS] + ["ideal"]
    for lang, ca in cands_all.items():
        if ca[0]:
            continue
        alt = [i for i, ok in enumerate(ca) if ok]
        if alt:
            chk.notes.append(f"{lang}: implementation no longer matches the claimed quirk vector but matches: {names[alt[0]]} "
                             "(a listed defect is no longer observed; theorems hold for every vector)")
        else:
            chk.correspondence_broken({"level": "observable", "lang": lang,
                                       "detail": "Model/Magic.v under Actual/MagicActual.v disagrees with the implementation and no candidate quirk vector matches all cases"})
    return chk.finish()
