"""C11: driver of the in-process mutation stream.  Splits cases over worker *processes* (c11_worker), watches
them, attributes a hard crash or a hang to the case that was running and restarts the worker on the rest."""
from __future__ import annotations

import base64
import json
import os
import subprocess
import time
from pathlib import Path

from harness.common import PY, REPO, VERIF
from harness.props import c11_pool

HARD_WALL_LIMIT = 100.0     # CPU seconds one case may take before the worker is killed (hang) ...
HANG_FACTOR = 100.0         # see c11.HANG_FACTOR
MAX_HANGS = 4               # after this many hangs the remaining cases are skipped (the run is a VIOLATION already)
ABS_WALL_LIMIT = 1500.0     # ... or this many wall-clock seconds (a process that sleeps / blocks forever uses no CPU)


def _cpu_seconds(pid: int) -> float:
    """user+system CPU time of a process from /proc (robust against a loaded machine, unlike wall-clock time)"""
    try:
        with open(f"/proc/{pid}/stat", encoding="ascii", errors="replace") as fh:
            parts = fh.read().rsplit(")", 1)[1].split()
        return (int(parts[11]) + int(parts[12])) / os.sysconf("SC_CLK_TCK")
    except (OSError, IndexError, ValueError):
        return 0.0


def _env():
    env = {k: v for k, v in os.environ.items() if not k.startswith("CONDA")}
    env.update({"PYTHONPATH": f"{REPO}:{VERIF}", "PYTHONHASHSEED": "0", "THAILINT_VERIF": "1", "PYTHONDONTWRITEBYTECODE": "1"})
    return env


class _Worker:
    def __init__(self, idx: int, base: Path, cases: list[dict]):
        self.idx, self.base, self.todo = idx, base, list(cases)
        self.gen = 0
        self.proc = None
        self.out = None
        self.done: dict[str, dict] = {}
        self.spawn()

    def spawn(self):
        self.gen += 1
        d = self.base / f"w{self.idx}g{self.gen}"
        d.mkdir(parents=True, exist_ok=True)
        self.out = d / "out.jsonl"
        job = {"root": str(d / "proj"), "faillog": str(d / "faillog.jsonl"), "siblings": c11_pool.siblings(), "hang_factor": HANG_FACTOR,
               "cases": [{**c, "data": base64.b64encode(c["data"]).decode()} for c in self.todo]}
        (d / "jobs.json").write_text(json.dumps(job))
        self.errfile = d / "stderr.txt"
        with open(self.errfile, "wb") as ef:
            self.proc = subprocess.Popen([PY, "-m", "harness.props.c11_worker", str(d / "jobs.json"), str(self.out)], cwd=str(VERIF),
                                         env=_env(), stdout=subprocess.DEVNULL, stderr=ef)
        self.case_started = time.time()
        self.current = None
        self.offset = 0

    def poll(self):
        """read new output lines; returns True while the worker still has work"""
        if self.out.exists():
            with open(self.out, encoding="utf-8") as fh:
                fh.seek(self.offset)
                while True:
                    line = fh.readline()
                    if not line.endswith("\n"):
                        break
                    self.offset = fh.tell()
                    rec = json.loads(line)
                    if "start" in rec:
                        self.current = rec["start"]
                        self.case_started = time.time()
                        self.case_cpu0 = _cpu_seconds(self.proc.pid)
                    elif "baseline" in rec:
                        self.done["baseline:" + rec["baseline"]] = rec
                        self.current = None
                    else:
                        self.done[rec["id"]] = rec
                        self.todo = [c for c in self.todo if c["id"] != rec["id"]]
                        self.current = None
        rc = self.proc.poll()
        if rc is None:
            used = _cpu_seconds(self.proc.pid) - getattr(self, "case_cpu0", 0.0)
            if self.current and (used > HARD_WALL_LIMIT or time.time() - self.case_started > ABS_WALL_LIMIT):
                self.proc.kill()
                self.proc.wait()
                self._abort({"hang": True, "wall": round(time.time() - self.case_started, 1), "cpu_used": round(used, 1)})
            return True
        if rc == 0 and not self.todo:
            return False
        # died in the middle
        err = self.errfile.read_bytes().decode("utf-8", "replace")[-800:] if self.errfile.exists() else ""
        self._abort({"hard_crash": rc, "stderr": err})
        return bool(self.todo) or self.proc.poll() is None

    def _abort(self, info: dict):
        cur = self.current
        if cur and not cur.startswith("baseline:"):
            self.done[cur] = {"id": cur, "crash": None, "failures": [], "cpu": None, **info}
            self.todo = [c for c in self.todo if c["id"] != cur]
        elif self.todo:
            # died outside a case (start-up / baseline): blame the first remaining case so that nothing is lost silently
            c = self.todo.pop(0)
            self.done[c["id"]] = {"id": c["id"], "crash": None, "failures": [], "cpu": None, "harness_error": f"worker died outside a case ({cur})", **info}
        if self.todo:
            self.spawn()


def run_stream(cases: list[dict], base: Path, nworkers: int = 8) -> tuple[dict[str, dict], dict[str, dict]]:
    """cases: dict(id, name, data(bytes), config, mode, pos, cpu_limit, weight).  -> (results by id, baselines)"""
    nworkers = max(1, min(nworkers, len(cases)))
    # heaviest first, then greedy balancing
    buckets = [[] for _ in range(nworkers)]
    loads = [0.0] * nworkers
    for c in sorted(cases, key=lambda c: -c.get("weight", 1.0)):
        i = loads.index(min(loads))
        buckets[i].append(c)
        loads[i] += c.get("weight", 1.0)
    workers = [_Worker(i, base, b) for i, b in enumerate(buckets) if b]
    alive = list(workers)
    while alive:
        time.sleep(0.15)
        alive = [w for w in alive if w.poll()]
        if sum(1 for w in workers for r in w.done.values() if r.get("hang")) >= MAX_HANGS:
            for w in alive:
                if w.proc.poll() is None:
                    w.proc.kill()
                    w.proc.wait()
                for c in w.todo:
                    w.done.setdefault(c["id"], {"id": c["id"], "skipped": True, "crash": None, "failures": [], "cpu": None})
            alive = []
    results, baselines = {}, {}
    for w in workers:
        for k, v in w.done.items():
            (baselines if k.startswith("baseline:") else results)[k] = v
    return results, baselines
