"""C11: carriers and damaged files for the isolation sweep of the STATEFUL per-file analyzers of the cross-file rules.

A *carrier* is a healthy file that carries material of every cross-file rule (stringly-typed: membership validation, equality
comparisons of one variable with several string values, calls with string arguments; duplicate-code: a block long enough to be a
duplicate, a module constant) but stays BELOW the cross-file threshold on its own: linted alone it has no cross-file finding,
linted next to a byte-identical copy it has findings of every family (checked in every run: `material_check`).  Whatever an
analyzer keeps from one file to the next (a parse memo, an "inside a construct" flag, a cache keyed too coarsely) and replays for a
damaged neighbour puts the carrier's material into the store a second time and makes findings appear on the carrier; whatever it
keeps from the damaged file and applies to the carrier makes findings of the carrier's per-file rules change.

Carriers are parametrised by a word so that two carriers of one run share nothing.
"""
from __future__ import annotations

from harness.props import c11_pool

WORDS = ["amber", "birch", "cedar", "dune", "ember", "fjord", "grove", "heath", "iris", "jade", "kelp", "lotus", "moss", "nectar"]

PY = '''"""
Purpose: carrier {w}
"""

QUOTA_{W}_CEILING = {n}17


def route_{w}(mode_{w}, job_{w}):
    if mode_{w} == "fast_{w}":
        job_{w}.run_{w}("now_{w}")
    if mode_{w} == "slow_{w}":
        job_{w}.run_{w}("later_{w}")
    if mode_{w} == "idle_{w}":
        job_{w}.run_{w}("never_{w}")
    return job_{w}


def gate_{w}(state_{w}):
    if state_{w} in ("open_{w}", "shut_{w}", "ajar_{w}"):
        return True
    return False


def fold_{w}(values_{w}):
    total_{w} = 0
    for value_{w} in values_{w}:
        total_{w} = total_{w} + value_{w} * {n}31
        total_{w} = total_{w} - value_{w} // {n}42
        total_{w} = total_{w} ^ {n}77
    average_{w} = total_{w} / max(len(values_{w}), 1)
    return total_{w}, average_{w}
'''

TS = '''/**
 * Purpose: carrier {w}
 */

export const QUOTA_{W}_CEILING = {n}17;

export function route_{w}(mode_{w}: string, job_{w}: any): any {{
  if (mode_{w} === "fast_{w}") {{
    job_{w}.run_{w}("now_{w}");
  }}
  if (mode_{w} === "slow_{w}") {{
    job_{w}.run_{w}("later_{w}");
  }}
  if (mode_{w} === "idle_{w}") {{
    job_{w}.run_{w}("never_{w}");
  }}
  return job_{w};
}}

export function gate_{w}(state_{w}: string): boolean {{
  if (["open_{w}", "shut_{w}", "ajar_{w}"].includes(state_{w})) {{
    return true;
  }}
  return false;
}}

export function fold_{w}(values_{w}: number[]): number {{
  let total_{w} = 0;
  for (const value_{w} of values_{w}) {{
    total_{w} = total_{w} + value_{w} * {n}31;
    total_{w} = total_{w} - value_{w} / {n}42;
    total_{w} = total_{w} ^ {n}77;
  }}
  const average_{w} = total_{w} / Math.max(values_{w}.length, 1);
  return total_{w} + average_{w};
}}
'''

JS = '''// Purpose: carrier {w}

const QUOTA_{W}_CEILING = {n}17;

function route_{w}(mode_{w}, job_{w}) {{
  if (mode_{w} === "fast_{w}") {{
    job_{w}.run_{w}("now_{w}");
  }}
  if (mode_{w} === "slow_{w}") {{
    job_{w}.run_{w}("later_{w}");
  }}
  if (mode_{w} === "idle_{w}") {{
    job_{w}.run_{w}("never_{w}");
  }}
  return job_{w};
}}

function gate_{w}(state_{w}) {{
  if (["open_{w}", "shut_{w}", "ajar_{w}"].includes(state_{w})) {{
    return true;
  }}
  return false;
}}

function fold_{w}(values_{w}) {{
  let total_{w} = 0;
  for (const value_{w} of values_{w}) {{
    total_{w} = total_{w} + value_{w} * {n}31;
    total_{w} = total_{w} - value_{w} / {n}42;
    total_{w} = total_{w} ^ {n}77;
  }}
  const average_{w} = total_{w} / Math.max(values_{w}.length, 1);
  return total_{w} + average_{w};
}}

module.exports = {{ route_{w}, gate_{w}, fold_{w}, QUOTA_{W}_CEILING }};
'''

TEMPLATES = {"py": PY, "ts": TS, "js": JS}
CARRIER_LANGS = ["py", "ts", "js"]        # the cross-file rules have no Rust analyzer: Rust files only appear as damaged neighbours
FAMILIES = ["stringly-typed", "dry.duplicate-code", "dry.duplicate-constant"]


def carrier(lang: str, k: int) -> tuple[str, str]:
    w = WORDS[k % len(WORDS)] + (str(k // len(WORDS)) if k >= len(WORDS) else "")
    return f"carrier_{w}{c11_pool.EXT[lang]}", TEMPLATES[lang].format(w=w, W=w.upper(), n=k + 2)


FILLER = {"py": "def area_{w}(w, h):\n    return w * h\n", "ts": "export function area_{w}(w: number, h: number): number {{\n  return w * h;\n}}\n",
          "js": "function area_{w}(w, h) {{\n  return w * h;\n}}\n", "rs": "pub fn area_{w}(w: u32, h: u32) -> u32 {{\n    w * h\n}}\n"}


def filler(lang: str, w: str) -> tuple[str, str]:
    return f"plain_{w}{c11_pool.EXT[lang]}", FILLER[lang].format(w=w)


# ------------------------------------------------------------------ damaged files: one per kind and language, deterministic
DAMAGE_KINDS = ["truncated", "truncated-open-string", "bracket-dropped", "bracket-extra", "nul", "undecodable", "empty", "whitespace"]


def _cut_inside_call(b: bytes, needle: bytes) -> bytes:
    i = b.find(needle)
    return b[: i + len(needle)] if i >= 0 else b[: len(b) // 2]


def damaged(lang: str, kind: str, k: int = 0) -> bytes:
    """a donor of the language (its own stringly / DRY material differs from every carrier's) damaged in one way"""
    b = c11_pool.donor(lang, 20 + k).encode("utf-8")
    if kind == "truncated":
        # ends in the middle of an expression, inside an open bracket
        return _cut_inside_call(b, {"py": b".append(", "ts": b".push(", "js": b"console.log(", "rs": b".insert("}[lang])
    if kind == "truncated-open-string":
        return _cut_inside_call(b, {"py": b'print("item', "ts": b'console.log("added', "js": b'console.log("job', "rs": b'expect("read'}[lang])
    if kind == "bracket-dropped":
        i = b.rfind(b")")
        return b[:i] + b[i + 1:]
    if kind == "bracket-extra":
        i = b.find(b"(")
        return b[:i] + b"((" + b[i + 1:]
    if kind == "nul":
        i = len(b) // 2
        return b[:i] + b"\x00" + b[i:]
    if kind == "undecodable":
        i = len(b) // 2
        return b[:i] + b"\xff\xfe" + b[i:]
    if kind == "empty":
        return b""
    if kind == "whitespace":
        return b" \n\t\n"
    raise KeyError(kind)


def damaged_name(lang: str, kind: str) -> str:
    return f"damaged_{kind.replace('-', '_')}{c11_pool.EXT[lang]}"


def python_unparsable(data: bytes) -> bool:
    import ast
    try:
        ast.parse(data.decode("utf-8"))
    except (SyntaxError, ValueError):
        return True
    except UnicodeDecodeError:
        return False
    return False


# ------------------------------------------------------------------ layouts
def pair_layouts(quick: bool):
    """in-process runs: [plain, carrier, damaged, plain2] and [plain, damaged, carrier, plain2] for every carrier language x
    damaged language x damage kind; -> list of (id, files) with files = [(name, bytes, is_offender)]"""
    out = []
    k = 0
    for cl in CARRIER_LANGS:
        for dl in ["py", "ts", "js", "rs"]:
            if quick and dl != cl and not (cl == "ts" and dl == "js") and not (dl == "rs" and cl == "ts") and not (dl == "py" and cl == "js"):
                continue      # quick tier: same language, plus one cross-language pairing per carrier language
            for kind in DAMAGE_KINDS:
                for order in ("after", "before"):
                    k += 1
                    cn, ct = carrier(cl, k)
                    f1, f2 = filler(cl, "one"), filler(dl, "two")
                    d = (damaged_name(dl, kind), damaged(dl, kind), True)
                    c = (cn, ct.encode(), False)
                    mid = [c, d] if order == "after" else [d, c]
                    files = [(f1[0], f1[1].encode(), False)] + mid + [(f2[0], f2[1].encode(), False)]
                    out.append((f"carrier:{cl}:{dl}:{kind}:{order}", files, {"carrier_lang": cl, "lang": dl, "kind": kind, "order": order}))
    return out


def sequence_layout():
    """one CLI run per command: per carrier language K0 D1 K1 D2 K2 ... (every damage kind with a carrier directly before and directly
    after it), then the damaged Rust files between two more TypeScript carriers; -> files = [(name, bytes, is_offender)]"""
    files = []
    k = 100
    for cl in CARRIER_LANGS + ["rs"]:
        kl = cl if cl in CARRIER_LANGS else "ts"
        cn, ct = carrier(kl, k)
        files.append((cn, ct.encode(), False))
        for kind in DAMAGE_KINDS:
            k += 1
            files.append((f"{cl}_{damaged_name(cl, kind)}", damaged(cl, kind), True))
            cn, ct = carrier(kl, k)
            files.append((cn, ct.encode(), False))
        k += 1
    return files
