"""C05 - configuration is honoured identically in every format, key spelling, linter and CLI override.

Abstract case: a project (parsed document per carrier: .thailint.yaml / .thailint.json / pyproject [tool.thailint] /
--config file, each possibly absent or unparsable), the unit (documented section + the rule that must honour it), the
language of the linted file, CLI threshold options and the measures of the rendered source.  The harness renders the
documents in each syntax and a source with exactly those measures, runs the real CLI (exit codes) or the in-process
Orchestrator, and lets Coq judge:  impl = spec, model ideal = spec, impl = model q for the candidate quirk vectors."""
from __future__ import annotations

import json
import os
import re
import shutil
import subprocess
from pathlib import Path

from harness import coq
from harness.common import (VERIF, drain_failures, ensure_repo_on_path, install_failure_tap, parse_json_violations, pool_map,
                            rng_for, run_cli, scratch_dir)
from harness.framework import Check

PROP = "C05"
PROCS = int(os.environ.get("VERIF_PROCS", "8"))   # worker processes for implementation runs (and coqc shards when lowered)
HEADER = ("From TL Require Import Lib.Base Lib.GenTypes Model.ConfigTypes Gen.ConfigGen Model.Config Model.ConfigRun Actual.ConfigActual.\n"
          "From Coq Require Import ZArith.\n")
UNPARSABLE = "UNPARSABLE"
EXT = {"python": ".py", "typescript": ".ts", "javascript": ".js", "rust": ".rs"}
LANGS = ["python", "typescript", "javascript", "rust"]


def actual_flags() -> list[str]:
    """the claimed quirk vector, read from Actual/ConfigActual.v (single source of truth for the order)"""
    text = (coq.TH / "Actual" / "ConfigActual.v").read_text()
    body = text[text.index("Definition config_actual"):]
    return re.findall(r'"([^"]+)"', body)


# ------------------------------------------------------------------ units (documentation side of the generator)
# limits: (option, metric, direction) - direction +1: a larger value is more permissive (max_*), -1: min_*
UNITS = {
    "nesting": dict(cmd="nesting", prefix="nesting.", langs=["python", "typescript", "javascript", "rust"], limits=[("max_nesting_depth", "depth", +1)],
                    lang_over=["max_nesting_depth"], cli={"max_nesting_depth": "--max-depth"}, guarded=["max_nesting_depth"]),
    # srp reports a class once, whether for its methods, its lines or both; `neutral`: values of the other measures that do not
    # decide the outcome when one limit is examined
    "srp": dict(cmd="srp", prefix="srp.", langs=["python", "typescript"], limits=[("max_methods", "methods", +1), ("max_loc", "loc", +1)],
                lang_over=["max_methods", "max_loc"], cli={"max_methods": "--max-methods", "max_loc": "--max-loc"},
                guarded=["max_methods", "max_loc"], ignore=True, neutral={"methods": 2, "loc": 22}),
    "dry": dict(cmd="dry", prefix="dry.", langs=["python"], limits=[("min_duplicate_lines", "dup_lines", -1), ("min_occurrences", "occurrences", -1)],
                lang_over=["min_duplicate_lines", "min_occurrences"],
                cli={"min_duplicate_lines": "--min-lines"}, guarded=["min_duplicate_lines", "min_occurrences"], enabled_default=False, any_count=True,
                limit_floor=2, neutral={"dup_lines": 5, "occurrences": 2}),  # the detector never reports one-line windows (C03's subject), thresholds are swept from 2
    "magic-numbers": dict(cmd="magic-numbers", prefix="magic-numbers.", langs=["python"], limits=[("max_small_integer", "range_arg", +1)],
                          lists=[("allowed_numbers", "value")], lang_over=["max_small_integer", "allowed_numbers"],
                          guarded=["max_small_integer"], ignore=True),
    "print-statements": dict(cmd="print-statements", prefix="improper-logging.print", langs=["python"], switches=[("allow_in_scripts", "main_print")],
                             lang_over=["allow_in_scripts"], ignore=True, always=["print"]),
    "improper-logging": dict(cmd="improper-logging", prefix="improper-logging.print", langs=["python"], switches=[("allow_in_scripts", "main_print")],
                             lang_over=["allow_in_scripts"], ignore=True, always=["print"]),
    "method-property": dict(cmd="method-property", prefix="method-property.", langs=["python"], limits=[("max_body_statements", "body_statements", -1)], ignore=True),
    "stateless-class": dict(cmd="stateless-class", prefix="stateless-class.", langs=["python"], limits=[("min_methods", "methods", -1)], ignore=True),
    "collection-pipeline": dict(cmd="pipeline", prefix="collection-pipeline.", langs=["python"], limits=[("min_continues", "continues", -1)],
                                cli={"min_continues": "--min-continues"}, guarded=["min_continues"], ignore=True),
    # one report per file holding the repeated membership test; the third documented guard (max_values_for_enum >= min_values_for_enum)
    # relates two options and is kept satisfied by the generator (outside the modelled domain)
    "stringly-typed": dict(cmd="stringly-typed", prefix="stringly-typed.", langs=["python"],
                           limits=[("min_occurrences", "occurrences", -1), ("min_values_for_enum", "values", -1), ("max_values_for_enum", "values", +1)],
                           lang_over=["min_occurrences", "min_values_for_enum", "max_values_for_enum"],
                           guarded=["min_occurrences", "min_values_for_enum"], bounds={"min_values_for_enum": 2},   # smallest valid value where it is not 1
                           ignore=True, any_count=True, neutral={"occurrences": 2, "values": 3}),
    "file-header": dict(cmd="file-header", prefix="file-header.", langs=["python"], always=["no_header"], ignore=True),
    "lazy-ignores": dict(cmd="lazy-ignores", prefix="lazy-ignores", langs=["python"], always=["noqa"]),
    "lbyl": dict(cmd="lbyl", prefix="lbyl", langs=["python"], switches=[("detect_dict_key", "dict_key_check")], switch_always=True),
    "cqs": dict(cmd="", prefix="cqs", langs=["python"], always=["mixed"]),
    "performance": dict(cmd="perf", prefix="performance.string-concat", langs=["python"], always=["concat_in_loop"]),
    "unwrap-abuse": dict(cmd="unwrap-abuse", prefix="unwrap-abuse", langs=["rust"], switches=[("allow_expect", "expect")], always=["unwrap"], ignore=True),
    "clone-abuse": dict(cmd="clone-abuse", prefix="clone-abuse", langs=["rust"], switches=[("detect_clone_in_loop", "clone_in_loop")], switch_always=True),
    "blocking-async": dict(cmd="blocking-async", prefix="blocking-async", langs=["rust"],
                           switches=[("detect_fs_in_async", "fs_in_async"), ("detect_sleep_in_async", "sleep_in_async")], switch_always=True),
}
METRIC_RANGE = {"depth": (2, 6), "methods": (1, 10), "dup_lines": (3, 6), "body_statements": (1, 5), "continues": (1, 3), "range_arg": (2, 40),
                "loc": (22, 30), "occurrences": (2, 3), "values": (2, 4)}
ST_VALUES = ["red", "green", "blue", "amber"]
DRY_FILES = ["case_src.py", "other_src.py", "other2_src.py"]


def srp_natural_loc(lang: str, methods: int) -> int:
    """code lines of the rendered class without padding"""
    return methods + 2 if lang == "typescript" else 1 + 2 * methods


def normalise(case: dict) -> dict:
    """cases recorded before a measure existed: the measure the renderer produces for them"""
    m = case["metrics"]
    if case["unit"] == "dry":
        m.setdefault("occurrences", 2)
    if case["unit"] == "srp" and "methods" in m:
        m.setdefault("loc", srp_natural_loc(case["lang"], m["methods"]))
    return case


def focus_metrics(u: dict, opt: str, high: int | None = None) -> dict:
    """measures for examining limit `opt`: its own measure high, the other measures at values that do not decide the outcome"""
    m = {mm: u["neutral"][mm] if "neutral" in u else (METRIC_RANGE[mm][1] if high is None else METRIC_RANGE[mm][1] + high)
         for _, mm, _ in u.get("limits", [])}
    for o, mm, _ in u.get("limits", []):
        if o == opt:
            m[mm] = METRIC_RANGE[mm][1] if high is None else METRIC_RANGE[mm][1] + high
    return m
MAGIC_VALUES = [7, 42, 60, 365, 4242]


# ------------------------------------------------------------------ source renderer
def render_source(unit: str, lang: str, m: dict) -> dict:
    """files (name -> text) whose measures, as the unit's rule computes them, are exactly `m`"""
    ext = EXT[lang]
    name = "case_src" + ext
    if unit == "nesting":
        d = m["depth"]
        if lang == "python":
            lines = ["def f(a):"]
            for i in range(d):
                lines.append("    " * (i + 1) + f"if a > {i}:")
            lines.append("    " * (d + 1) + "a = a + 1")
            lines.append("    return a")
            return {name: "\n".join(lines) + "\n"}
        n_if = d - 1  # TypeScript / Rust analyzers start the body at depth 1
        if lang in ("typescript", "javascript"):
            lines = ["function f(a: number): number {" if lang == "typescript" else "function f(a) {"]
            for i in range(n_if):
                lines.append("    " * (i + 1) + f"if (a > {i}) {{")
            lines.append("    " * (n_if + 1) + "a = a + 1;")
            for i in reversed(range(n_if)):
                lines.append("    " * (i + 1) + "}")
            lines += ["    return a;", "}"]
            return {name: "\n".join(lines) + "\n"}
        lines = ["fn f(mut a: i32) -> i32 {"]
        for i in range(n_if):
            lines.append("    " * (i + 1) + f"if a > {i} {{")
        lines.append("    " * (n_if + 1) + "a = a + 1;")
        for i in reversed(range(n_if)):
            lines.append("    " * (i + 1) + "}")
        lines += ["    a", "}"]
        return {name: "\n".join(lines) + "\n"}
    if unit == "srp":
        pad = m.get("loc", srp_natural_loc(lang, m["methods"])) - srp_natural_loc(lang, m["methods"])
        if pad < 0:
            raise ValueError("srp: loc below the lines of the methods")
        if lang == "typescript":
            return {name: "class Widget {\n" + "".join(f"  a{j} = {j};\n" for j in range(pad))
                    + "".join(f"  m{i}() {{ return {i}; }}\n" for i in range(m["methods"])) + "}\n"}
        return {name: "class Widget:\n" + "".join(f"    a{j} = {j}\n" for j in range(pad))
                + "".join(f"    def m{i}(self):\n        return {i}\n\n" for i in range(m["methods"]))}
    if unit == "dry":
        dup = "".join(f"    v{i} = compute_{i}(a, b + {i}) * other_{i}(b)\n" for i in range(m["dup_lines"]))
        files = {"case_src.py": "def fa(a, b):\n    start_a(a)\n" + dup + "    finish_a(b, a)\n    return v0\n",
                 "other_src.py": "def fb(a, b):\n    begin_b(b, b)\n" + dup + "    done_b(a)\n    return [v1]\n",
                 "other2_src.py": "def fc(a, b):\n    open_c(a, a, b)\n" + dup + "    close_c(b)\n    return (v0, v1)\n"}
        return {n: files[n] for n in DRY_FILES[:m.get("occurrences", 2)]}
    if unit == "stringly-typed":
        tup = ", ".join(json.dumps(v) for v in ST_VALUES[:m["values"]])
        names = ["case_src.py", "other_src.py", "other2_src.py"][:m["occurrences"]]
        return {n: f"def check_{i}(status):\n    if status in ({tup}):\n        return 1\n    return 0\n" for i, n in enumerate(names)}
    if unit == "magic-numbers":
        lines = ["def f(a):", "    total = a"]
        if "value" in m:
            lines.append(f"    total = total * {m['value']}")
        if "range_arg" in m:
            lines += [f"    for i in range({m['range_arg']}):", "        total = total + i"]
        lines.append("    return total")
        return {name: "\n".join(lines) + "\n"}
    if unit in ("print-statements", "improper-logging"):
        text = "def f(a):\n    print(a)\n    return a\n"
        if "main_print" in m:
            text += "\n\nif __name__ == \"__main__\":\n    print(\"run\")\n"
        return {name: text}
    if unit == "method-property":
        s = m["body_statements"]
        body = "".join(f"        x{i} = self._n\n" for i in range(1, s)) + ("        return x1\n" if s > 1 else "        return self._n\n")
        return {name: "class User:\n    def __init__(self, n):\n        self._n = n\n\n    def get_name(self):\n" + body}
    if unit == "stateless-class":
        return {name: "class Helper:\n" + "".join(f"    def op{i}(self, x):\n        return x + {i}\n\n" for i in range(m["methods"]))}
    if unit == "collection-pipeline":
        guards = ["not x", "x == 1", "x is None"][:m["continues"]]
        return {name: "def f(items):\n    out = []\n    for x in items:\n" + "".join(f"        if {g}:\n            continue\n" for g in guards)
                + "        out.append(x)\n    return out\n"}
    if unit == "file-header":
        return {name: "def f():\n    return None\n"}
    if unit == "lazy-ignores":
        return {name: "import os  # noqa: F401\n"}
    if unit == "lbyl":
        return {name: "def f(d, k):\n    if k in d:\n        return d[k]\n    return None\n"}
    if unit == "cqs":
        return {name: "def f(store, k):\n    store.save(k)\n    value = store.load(k)\n    return value\n"}
    if unit == "performance":
        return {name: "def f(items):\n    s = \"\"\n    for x in items:\n        s += str(x)\n    return s\n"}
    if unit == "unwrap-abuse":
        text = "fn main() {\n    let x: Option<i32> = Some(1);\n    let y = x.unwrap();\n"
        if "expect" in m:
            text += "    let z = x.expect(\"present\");\n    println!(\"{}\", z);\n"
        return {name: text + "    println!(\"{}\", y);\n}\n"}
    if unit == "clone-abuse":
        return {name: "fn f(items: Vec<String>, s: String) {\n    for i in items.iter() {\n        let t = s.clone();\n        println!(\"{} {}\", i, t);\n    }\n}\n"}
    if unit == "blocking-async":
        text = "async fn f() {\n"
        if "fs_in_async" in m:
            text += "    let s = std::fs::read_to_string(\"a.txt\");\n"
        if "sleep_in_async" in m:
            text += "    std::thread::sleep(std::time::Duration::from_secs(1));\n"
        return {name: text + "}\n"}
    raise ValueError(unit)


# ------------------------------------------------------------------ carrier renderers
def _toml_val(v):
    if isinstance(v, bool):
        return "true" if v else "false"
    if isinstance(v, int):
        return str(v)
    if isinstance(v, str):
        return json.dumps(v)
    if isinstance(v, list):
        return "[" + ", ".join(_toml_val(x) for x in v) + "]"
    if isinstance(v, dict):
        return "{" + ", ".join(f"{json.dumps(k)} = {_toml_val(x)}" for k, x in v.items()) + "}"
    raise ValueError(v)


def render_doc(doc, fmt: str) -> str:
    import yaml
    if fmt == "yaml":
        if doc == UNPARSABLE:
            return "nesting: [unclosed\n  x: : y\n"
        return yaml.safe_dump(doc, sort_keys=False, default_flow_style=False) if doc else "{}\n"
    if fmt == "json":
        return "{\"nesting\": " if doc == UNPARSABLE else json.dumps(doc, indent=1)
    if fmt == "pyproject":
        if doc == UNPARSABLE:
            return "[tool.thailint\nnesting = \n"
        return "[project]\nname = \"demo\"\nversion = \"0.1\"\n\n[tool.thailint]\n" + "".join(f"{json.dumps(k)} = {_toml_val(v)}\n" for k, v in doc.items())
    if fmt == "toml":  # a --config file with an unsupported suffix
        return "" if doc == UNPARSABLE else "".join(f"{json.dumps(k)} = {_toml_val(v)}\n" for k, v in doc.items())
    raise ValueError(fmt)


def suffix_fmt(suffix: str) -> str:
    return {".yaml": "yaml", ".yml": "yaml", ".json": "json"}.get(suffix, "toml")


N_FILLERS = 16   # lint_files_parallel only starts worker processes for >= 2 * min(8, cpu_count) paths


def write_project(case: dict, d: Path):
    """write carriers + sources; returns (global args, command args after the command name, targets)"""
    proj = case["proj"]
    for key, fname, fmt in (("yaml", ".thailint.yaml", "yaml"), ("json", ".thailint.json", "json"), ("pyproject", "pyproject.toml", "pyproject")):
        if proj.get(key) is not None:
            (d / fname).write_text(render_doc(proj[key], fmt))
    if proj.get("ignore_file"):
        (d / ".thailintignore").write_text("# generated\n" + "".join(x + "\n" for x in proj["ignore_file"]))
    sub = "pkg/" if proj.get("subdir") else ""
    if sub:
        (d / "pkg").mkdir()
    pre, post = [], []
    dash = proj.get("dash")
    if dash is not None:
        fn = "custom" + dash["suffix"]
        if dash["file"] is not None:
            text = render_doc(dash["file"], suffix_fmt(dash["suffix"]))
            if dash["file"] == {} and dash.get("empty_style") == "comment" and suffix_fmt(dash["suffix"]) == "yaml":
                text = "# thailint configuration: everything at its default\n"   # parses to nothing at all
            (d / fn).write_text(text)
        (pre if dash["pos"] == "global" else post).extend(["--config", fn])
    files = render_source(case["unit"], case["lang"], case["metrics"])
    for n, t in files.items():
        (d / (sub + n)).write_text(t)
    return pre, post, sorted(sub + n for n in files)


# ------------------------------------------------------------------ implementation runner
def run_impl(case: dict) -> dict:
    u = UNITS[case["unit"]]
    with scratch_dir("tv-c05-") as d:
        pre, post, targets = write_project(case, d)
        if case["via"] in ("cli", "par"):
            ov = []
            for o, z in case["overrides"]:
                ov += [o, str(z)]
            extra = []
            if case["via"] == "par":
                # enough paths that worker processes really run; the fillers are of no language any rule looks at
                for i in range(N_FILLERS):
                    (d / f"filler_{i}.txt").write_text("filler\n")
                extra = [f"filler_{i}.txt" for i in range(N_FILLERS)]
                post = ["--parallel", *post]
            args = [*pre, u["cmd"], "--format", "json", *post, *ov, *targets, *extra]
            rc, so, se = run_cli(args, cwd=d)
            if rc == 2:
                return {"exit2": True, "n": 0, "args": args, "stderr": _last(se)}
            vs = parse_json_violations(so)
            if rc not in (0, 1) or vs is None:
                return {"error": f"rc={rc} stdout={so[:200]!r} stderr={_last(se)}", "args": args}
            if (rc == 1) != (len(vs) > 0):
                return {"error": f"exit code {rc} with {len(vs)} violations", "args": args}
            return {"exit2": False, "n": len(vs), "args": args, "rules": sorted({v['rule_id'] for v in vs})}
        ensure_repo_on_path()
        install_failure_tap()
        drain_failures()
        import logging
        logging.getLogger("src.linter_config.ignore").setLevel(logging.CRITICAL)
        from src.orchestrator.core import Orchestrator
        try:
            if case["via"] == "linter":
                # the documented library API: Linter(config_file=..., project_root=...)
                from src.api import Linter
                dash = case["proj"].get("dash")
                linter = Linter(config_file=(d / ("custom" + dash["suffix"])) if dash else None, project_root=d)
                vs = linter.lint(d / targets[0]) if len(targets) == 1 else linter.orchestrator.lint_files([d / t for t in targets])
            else:
                orch = Orchestrator(project_root=d)
                vs = orch.lint_files([d / t for t in targets])
        except Exception as e:  # noqa: BLE001 - the CLI maps every exception of a run to exit code 2
            return {"exit2": True, "n": 0, "exc": f"{type(e).__name__}: {str(e)[:120]}", "failures": drain_failures()}
        mine = [v for v in vs if v.rule_id.startswith(u["prefix"])]
        return {"exit2": False, "n": len(mine), "failures": drain_failures(), "rules": sorted({v.rule_id for v in mine})}


def _last(se: str) -> str:
    lines = [l for l in se.strip().splitlines() if l.strip()]
    return re.sub(r"\x1b\[[0-9;]*m", "", lines[-1])[-200:] if lines else ""


def impl_outcome(case, impl):
    if impl.get("exit2"):
        return "Exit2"
    n = impl["n"]
    if UNITS[case["unit"]].get("any_count"):
        n = min(n, 1)
    return f"(Ran {n})"


# ------------------------------------------------------------------ Coq rendering
def coq_z(z: int) -> str:
    return f"({z})%Z"


def coq_val(v) -> str:
    if isinstance(v, bool):
        return f"VBool {coq.coq_bool(v)}"
    if isinstance(v, int):
        return f"VInt {coq_z(v)}"
    if isinstance(v, str):
        return f"VStr {coq.coq_string(v)}"
    if isinstance(v, list):
        return "VList " + coq.coq_list([f"({coq_val(x)})" for x in v])
    if isinstance(v, dict):
        return "VMap " + coq_dict(v)
    raise ValueError(v)


def coq_dict(d: dict) -> str:
    return coq.coq_list([f"({coq.coq_string(k)}, {coq_val(v)})" for k, v in d.items()])


def coq_cfile(f) -> str:
    if f is None:
        return "Absent"
    if f == UNPARSABLE:
        return "Unparsable"
    return f"(Doc {coq_dict(f)})"


def coq_case(case: dict) -> str:
    p = case["proj"]
    dash = p.get("dash")
    dterm = "None" if dash is None else (f"(Some {{| d_pos := {'PosGlobal' if dash['pos'] == 'global' else 'PosCmd'}; "
                                         f"d_suffix := {coq.coq_string(dash['suffix'])}; d_file := {coq_cfile(dash['file'])} |}})")
    proj = (f"{{| p_yaml := {coq_cfile(p.get('yaml'))}; p_json := {coq_cfile(p.get('json'))}; "
            f"p_pyproject := {coq_cfile(p.get('pyproject'))}; p_dash := {dterm}; "
            f"p_ignore_file := {coq.coq_list([coq.coq_string(x) for x in (p.get('ignore_file') or [])])}; "
            f"p_subdir := {coq.coq_bool(bool(p.get('subdir')))} |}}")
    ovs = coq.coq_list([f"({coq.coq_string(o)}, {coq_z(z)})" for o, z in case["overrides"]])
    ms = coq.coq_list([f"({coq.coq_string(k)}, {coq_z(v)})" for k, v in case["metrics"].items()])
    cmd = UNITS[case["unit"]]["cmd"] if case["via"] in ("cli", "par") else ""
    if case["via"] == "api" and not case["overrides"] and UNITS[case["unit"]]["cmd"]:  # ("linter": Linter(config_file=...) replaces the whole configuration for every unit, dry included: no command)
        cmd = UNITS[case["unit"]]["cmd"]  # a library run behaves as the command without options
    return (f"{{| c_proj := {proj}; c_cmd := {coq.coq_string(cmd)}; c_unit := {coq.coq_string(case['unit'])}; "
            f"c_lang := {coq.coq_string(case['lang'])}; c_fname := {coq.coq_string(case['fname'])}; c_overrides := {ovs}; c_metrics := {ms} |}}")


_flags_cache: list[str] = []


def _FLAGS() -> list[str]:
    if not _flags_cache:
        _flags_cache.extend(actual_flags())
    return _flags_cache


def class_flags(case) -> list[str]:
    return [f for f in _FLAGS() if in_defect_class(f, case)]


def class_flags_term(case) -> str:
    return coq.coq_list([coq.coq_string(f) for f in class_flags(case)])


def _run_shard_th(args):
    path, th = args
    p = subprocess.run(["timeout", "600", "coqc", "-Q", str(th), "TL", "-w", "-notation-overridden,-abstract-large-number", str(path)],
                       capture_output=True, text=True, cwd=str(path.parent))
    return p.returncode, p.stdout, p.stderr


def eval_shards_th(workdir: Path, shards: list[str], th: Path):
    from concurrent.futures import ThreadPoolExecutor
    workdir.mkdir(parents=True, exist_ok=True)
    jobs = []
    for i, body in enumerate(shards):
        f = workdir / f"cases_{i}.v"
        f.write_text(HEADER + "\n" + body + "\n")
        jobs.append((f, th))
    with ThreadPoolExecutor(max_workers=12 if PROCS >= 8 else PROCS) as ex:
        outs = list(ex.map(_run_shard_th, jobs))
    res = []
    for (rc, so, se), (f, _) in zip(outs, jobs):
        if rc != 0:
            raise RuntimeError(f"coqc failed on {f.name} (rc={rc}): {se[-1500:]}")
        res.append(coq.parse_nat_lists(so))
    return res


def recorded_layer_theories(dst: Path) -> Path | None:
    """When the current generated layer (or the model on top of it) no longer builds, the model can still be run with the generated
    layer recorded for the unchanged tree (coq/Gen.expected/ConfigGen.v.txt).  This discharges nothing (the run is already failed by
    the broken obligation); it only lets the search exhibit a concrete input on which the changed implementation departs from
    the specification."""
    snap = coq.COQ / "Gen.expected" / "ConfigGen.v.txt"
    if not snap.exists():
        return None
    th = dst / "theories"
    for sub in ("Lib", "Model", "Gen", "Actual"):
        (th / sub).mkdir(parents=True, exist_ok=True)
    for f in (coq.TH / "Lib").glob("*.vo"):
        shutil.copy(f, th / "Lib" / f.name)
    (th / "Gen" / "ConfigGen.v").write_text(snap.read_text())
    order = [("Model", "ConfigTypes.v"), ("Gen", "ConfigGen.v"), ("Model", "Config.v"), ("Model", "ConfigRun.v"), ("Actual", "ConfigActual.v")]
    for sub, name in order:
        if sub != "Gen":
            shutil.copy(coq.TH / sub / name, th / sub / name)
        p = subprocess.run(["timeout", "300", "coqc", "-Q", str(th), "TL", "-w", "-notation-overridden", str(th / sub / name)],
                           capture_output=True, text=True, cwd=str(dst))
        if p.returncode != 0:
            return None
    return th


def judge(cases, impls, workdir: Path, per_shard=30, th: Path | None = None):
    shards, index = [], []
    todo = [j for j in range(len(cases)) if "error" not in impls[j]]
    for s in range(0, len(todo), per_shard):
        chunk = todo[s:s + per_shard]
        body = "\n".join(f"Eval vm_compute in (judge config_actual {class_flags_term(cases[j])} {coq_case(cases[j])} {impl_outcome(cases[j], impls[j])})." for j in chunk)
        shards.append(body)
        index.append(chunk)
    outs = eval_shards_th(workdir, shards, th or coq.TH)
    verdicts = [None] * len(cases)
    for chunk, out in zip(index, outs):
        if len(out) != len(chunk):
            raise RuntimeError(f"expected {len(chunk)} results, got {len(out)}")
        for j, o in zip(chunk, out):
            verdicts[j] = o
    return verdicts


# ------------------------------------------------------------------ generator
def gen_metrics(r, unit: str) -> dict:
    u = UNITS[unit]
    m = {}
    for _, metric, _ in u.get("limits", []):
        lo, hi = METRIC_RANGE[metric]
        m[metric] = r.randint(lo, hi)
    for _, metric in u.get("lists", []):
        m[metric] = r.choice(MAGIC_VALUES)
    if unit == "magic-numbers" and r.random() < 0.3:
        m.pop(r.choice(["value", "range_arg"]))
    for _, metric in u.get("switches", []):
        if u.get("switch_always") or r.random() < 0.7:
            m[metric] = 1
    if unit == "blocking-async" and r.random() < 0.4:
        m.pop(r.choice(["fs_in_async", "sleep_in_async"]))
    for metric in u.get("always", []):
        m[metric] = 1
    return m


def near(r, x: int) -> int:
    return r.choice([x - 1, x, x, x + 1, x + 1, x + 3, max(1, x - 2), 1])


def gen_body(r, unit: str, lang: str, m: dict, fname: str, allow_invalid=True) -> dict:
    u = UNITS[unit]
    body = {}
    if r.random() < 0.5:
        if u.get("enabled_default", True):
            body["enabled"] = r.random() < 0.35
        else:
            body["enabled"] = r.random() < 0.85
    elif not u.get("enabled_default", True) and r.random() < 0.7:
        body["enabled"] = True
    for opt, metric, _ in u.get("limits", []):
        if r.random() < 0.6 and metric in m:
            body[opt] = max(near(r, m[metric]), u.get("limit_floor", -99))
    for opt, metric in u.get("lists", []):
        if r.random() < 0.6:
            vals = [-1, 0, 1, 2] + r.sample(MAGIC_VALUES, r.randint(0, 3))
            if "range_arg" in m and r.random() < 0.3:
                vals.append(m["range_arg"])
            body[opt] = sorted(set(vals))
    for opt, _ in u.get("switches", []):
        if r.random() < 0.5:
            body[opt] = r.random() < 0.5
    if u.get("lang_over") and r.random() < 0.3:
        sub = {}
        for opt in u["lang_over"]:
            if r.random() < 0.7:
                if opt == "allowed_numbers":
                    sub[opt] = sorted(set([0, 1] + r.sample(MAGIC_VALUES, r.randint(0, 3))))
                elif opt == "allow_in_scripts":
                    sub[opt] = r.random() < 0.5
                else:
                    metric = [mm for o, mm, _ in u["limits"] if o == opt][0]
                    if metric in m:
                        sub[opt] = max(near(r, m[metric]), u.get("limit_floor", -99))
        if sub:
            body[lang if r.random() < 0.75 else r.choice([l for l in LANGS if l != lang])] = sub
    if u.get("ignore") and r.random() < 0.12:
        body["ignore"] = hit_list(unit, fname) if r.random() < 0.6 else ["unrelated_name.py"]
    if allow_invalid and u.get("guarded") and r.random() < 0.07:
        body[r.choice(u["guarded"])] = r.choice([0, 0, -1, -3, "four"])
    if not allow_invalid:  # a decoy section of another linter must stay valid (an invalid value there ends every run with exit 2)
        for opt in u.get("guarded", []):
            low = 2 if opt == "min_values_for_enum" else 1
            if isinstance(body.get(opt), int):
                body[opt] = max(body[opt], low)
            for sub in body.values():
                if isinstance(sub, dict) and isinstance(sub.get(opt), int):
                    sub[opt] = max(sub[opt], low)
    if unit == "stringly-typed":
        keep_enum_range(body)
    return body


def keep_enum_range(body: dict):
    """stringly-typed: max_values_for_enum >= min_values_for_enum at the top level and in every language block (the guard that
    relates the two options is not modelled)"""
    def ints(d, k, default):
        v = d.get(k, default)
        return v if isinstance(v, int) and not isinstance(v, bool) else None
    lo, hi = ints(body, "min_values_for_enum", 2), ints(body, "max_values_for_enum", 6)
    if lo is not None and hi is not None and hi < lo:
        if "max_values_for_enum" in body:
            body["max_values_for_enum"] = lo
        else:
            body["min_values_for_enum"] = hi
    for blk in body.values():
        if isinstance(blk, dict):
            blo = ints(blk, "min_values_for_enum", ints(body, "min_values_for_enum", 2))
            bhi = ints(blk, "max_values_for_enum", ints(body, "max_values_for_enum", 6))
            if blo is not None and bhi is not None and bhi < blo:
                if "max_values_for_enum" in blk:
                    blk["max_values_for_enum"] = blo
                else:
                    blk["min_values_for_enum"] = bhi


def hit_list(unit: str, fname: str) -> list:
    """patterns that take the unit's input out of the run (dry compares two files: both)"""
    return [fname, "other_src.py", "other2_src.py"] if unit in ("dry", "stringly-typed") else [fname]


def spell(r, unit: str) -> str:
    return unit if "-" not in unit or r.random() < 0.5 else unit.replace("-", "_")


def gen_doc(r, unit: str, lang: str, m: dict, fname: str) -> dict:
    doc = {}
    entries = []
    if r.random() < 0.3:
        other = r.choice([x for x in UNITS if x != unit and not (unit in ("print-statements", "improper-logging") and x in ("print-statements", "improper-logging"))])
        om = gen_metrics(r, other)
        entries.append((spell(r, other), gen_body(r, other, r.choice(UNITS[other]["langs"]), om, "zz_" + fname, allow_invalid=False)))
    if r.random() < 0.88:
        entries.append((spell(r, unit), gen_body(r, unit, lang, m, fname)))
        if "-" in unit and r.random() < 0.05:
            other_spelling = unit.replace("-", "_") if entries[-1][0] == unit else unit
            entries.append((other_spelling, gen_body(r, unit, lang, m, fname, allow_invalid=False)))
    r.shuffle(entries)
    for k, v in entries:
        doc[k] = v
    if r.random() < 0.2:
        doc["ignore"] = hit_list(unit, fname) if r.random() < 0.6 else ["unrelated_name.py", "docs/"]
    return doc


def gen_case(r, i, unit=None) -> dict:
    unit = unit or r.choice(list(UNITS))
    u = UNITS[unit]
    lang = r.choice(u["langs"])
    m = gen_metrics(r, unit)
    fname = "case_src" + EXT[lang]
    proj = {"yaml": None, "json": None, "pyproject": None, "dash": None}
    mode = r.random()
    carriers = ["yaml", "json", "pyproject"]
    if mode < 0.5:
        present = [r.choice(carriers)]
    elif mode < 0.58:
        present = []
    else:
        present = [c for c in carriers if r.random() < 0.55]
    for c in present:
        proj[c] = UNPARSABLE if r.random() < 0.05 else gen_doc(r, unit, lang, m, fname)
    via = "api"
    overrides = []
    if u["cmd"]:
        if r.random() < 0.3:
            pos = "global" if r.random() < 0.25 else "cmd"
            kind = r.random()
            if kind < 0.06:
                dash = {"pos": pos, "suffix": ".yaml", "file": None}
            elif kind < 0.12 and unit != "dry":
                dash = {"pos": pos, "suffix": ".toml", "file": gen_doc(r, unit, lang, m, fname)}
            elif kind < 0.17:
                dash = {"pos": pos, "suffix": r.choice([".yaml", ".json"]), "file": UNPARSABLE}
            else:
                dash = {"pos": pos, "suffix": r.choice([".yaml", ".yaml", ".yml", ".json"]), "file": gen_doc(r, unit, lang, m, fname)}
            proj["dash"] = dash
            via = "cli"
        if u.get("cli") and r.random() < 0.3:
            for opt, cli in u["cli"].items():
                metric = [mm for o, mm, _ in u["limits"] if o == opt][0]
                overrides.append([cli, r.choice([0, -2]) if r.random() < 0.06 else max(near(r, m[metric]), u.get("limit_floor", -99))])
            via = "cli"
        if r.random() < 0.08:
            via = "cli"
    if r.random() < 0.08:
        proj["ignore_file"] = hit_list(unit, fname) if r.random() < 0.5 else ["unrelated_name.py"]
    case = {"i": i, "unit": unit, "lang": lang, "via": via, "metrics": m, "proj": proj, "overrides": overrides, "fname": fname}
    if not overrides and r.random() < 0.06:
        # a non-mapping where the unit's section or a per-language block is expected (not combined with CLI threshold options,
        # which write into those mappings: outside the modelled domain)
        docs = [d for d in (proj["yaml"], proj["json"], proj["pyproject"], (proj["dash"] or {}).get("file")) if isinstance(d, dict)]
        for d in docs:
            for k in list(d):
                if k.replace("-", "_") == unit.replace("-", "_") and r.random() < 0.7:
                    if isinstance(d[k], dict) and u.get("lang_over") and r.random() < 0.6:
                        d[k][r.choice([lang, lang, r.choice(LANGS)])] = r.choice(NONMAPS)
                    else:
                        d[k] = r.choice(NONMAPS)
    dash = proj["dash"]
    if dash is not None and dash["pos"] == "cmd" and dash["file"] is not None and not overrides:
        # the same explicit file through the other entry points (a missing file is not an error for Linter(): not generated)
        x = r.random()
        broken_project_file = any(proj[k] == UNPARSABLE for k in ("yaml", "json", "pyproject"))
        if x < 0.3 and not broken_project_file:
            # (Linter() never opens the project's own files when config_file is given, the command line loads them first and fails
            # on an unparsable one; which of the two the precedence rule demands is not settled by the documentation: not generated)
            case["via"] = "linter"
        elif x < 0.36:
            case["via"] = "par"
        if dash["file"] == {} and r.random() < 0.5:
            dash["empty_style"] = "comment"
    if u["cmd"] and r.random() < 0.07 and case["via"] in ("api", "cli"):
        to_subdir(case)
    return case


def to_subdir(case: dict) -> dict:
    """move the linted file(s) into pkg/ (the command still runs from the project directory); ignore patterns naming the file follow"""
    old, new = case["fname"], "pkg/" + case["fname"]

    def ren(x):
        if isinstance(x, dict):
            return {k: ren(v) for k, v in x.items()}
        if isinstance(x, list):
            return [ren(v) for v in x]
        return new if x == old else ("pkg/" + x if x in ("other_src.py", "other2_src.py") else x)
    case["proj"] = ren(case["proj"])
    pj = case["proj"]
    if pj.get("yaml") is None and pj.get("pyproject") is None and not (pj.get("dash") and pj["dash"]["pos"] == "global"):
        # the root will not be detected; rule-level ignore parsers rooted at the working directory (C09's subject) would still
        # read the project directory's lists: keep those out of the modelled domain
        pj["ignore_file"] = None
        if isinstance(pj.get("json"), dict):
            pj["json"].pop("ignore", None)
    case["proj"]["subdir"] = True
    case["fname"] = new
    case["via"] = "cli"   # root detection only happens on the command line
    return case


def layout_cases():
    """project layouts: the linted file in a sub-directory under every carrier (root detection), .thailintignore next to every
    carrier, and a missing / unparsable / unsupported file given to the root-group --config"""
    out = []

    def base(unit, tag):
        u = UNITS[unit]
        lang = u["langs"][0]
        m = {mm: METRIC_RANGE[mm][1] - 1 for _, mm, _ in u.get("limits", [])}
        for _, mm in u.get("lists", []):
            m[mm] = MAGIC_VALUES[-1]
        for mm in u.get("always", []):
            m[mm] = 1
        return {"i": f"layout:{unit}:{tag}", "unit": unit, "lang": lang, "via": "cli", "metrics": m,
                "proj": {"yaml": None, "json": None, "pyproject": None, "dash": None}, "overrides": [], "fname": "case_src" + EXT[lang]}
    for unit in ("nesting", "magic-numbers", "performance"):
        off = {unit: {"enabled": False}}
        for tag, proj in (("yaml", {"yaml": off}), ("json", {"json": off}), ("pyproject", {"pyproject": off}),
                          ("json+pyproject-marker", {"json": off, "pyproject": {}}),
                          ("yaml+ignore", {"yaml": {"ignore": ["case_src" + EXT[UNITS[unit]["langs"][0]]]}}),
                          ("cmd-config", {"dash": {"pos": "cmd", "suffix": ".json", "file": off}}),
                          ("pyproject-marker+ignorefile", {"pyproject": {}, "ignore_file": ["case_src" + EXT[UNITS[unit]["langs"][0]]]})):
            c = base(unit, "subdir:" + tag)
            c["proj"].update(proj)
            out.append(to_subdir(c))
        for tag, proj in (("yaml", {"yaml": {unit: {}}}), ("json", {"json": {unit: {}}}), ("pyproject", {"pyproject": {unit: {}}}),
                          ("cmd-config", {"dash": {"pos": "cmd", "suffix": ".yaml", "file": {unit: {}}}}), ("alone", {}),
                          ("yaml-list-too", {"yaml": {"ignore": ["unrelated_name.py"]}})):
            for hit in (True, False):
                c = base(unit, f"ignorefile:{tag}:{hit}")
                c["proj"].update(proj)
                c["proj"]["ignore_file"] = [c["fname"]] if hit else ["unrelated_name.py"]
                c["via"] = "cli" if (tag == "cmd-config" or hit) else "api"
                out.append(c)
        for tag, dash in (("missing", {"pos": "global", "suffix": ".yaml", "file": None}),
                          ("unparsable", {"pos": "global", "suffix": ".json", "file": UNPARSABLE}),
                          ("unsupported", {"pos": "global", "suffix": ".toml", "file": off})):
            c = base(unit, "global-config:" + tag)
            c["proj"]["dash"] = dash
            c["proj"]["yaml"] = {unit: {}}
            out.append(c)
    return out


def gen_cases(seed: int, n: int):
    out = []
    units = list(UNITS)
    for i in range(n):
        r = rng_for(seed, PROP, i)
        out.append(gen_case(r, i, unit=units[i % len(units)] if i < 3 * len(units) else None))
    return out


def matrix_cases(seed: int, frac: float):
    """every unit x spelling x carrier with the unit switched off (dry: on) - the systematic part of the quantifier"""
    out = []
    r = rng_for(seed, PROP, "matrix")
    for unit, u in UNITS.items():
        for sp in ([unit, unit.replace("-", "_")] if "-" in unit else [unit]):
            for carrier in ("yaml", "json", "pyproject", "cmd.yaml", "cmd.json", "global.yaml"):
                if carrier.startswith(("cmd", "global")) and not u["cmd"]:
                    continue
                if r.random() > frac:
                    continue
                lang = u["langs"][0]
                m = gen_metrics(r, unit)
                for _, metric, _ in u.get("limits", []):
                    m[metric] = METRIC_RANGE[metric][1]
                fname = "case_src" + EXT[lang]
                doc = {sp: {"enabled": not u.get("enabled_default", True)}}
                proj = {"yaml": None, "json": None, "pyproject": None, "dash": None}
                via = "api"
                if "." in carrier:
                    pos, suf = carrier.split(".")
                    proj["dash"] = {"pos": pos, "suffix": "." + suf, "file": doc}
                    via = "cli"
                else:
                    proj[carrier] = doc
                out.append({"i": f"matrix:{unit}:{sp}:{carrier}", "unit": unit, "lang": lang, "via": via, "metrics": m, "proj": proj,
                            "overrides": [], "fname": fname})
    return out


def boundary_cases():
    """every guarded limit at and around its documented bound, one carrier each (the exit-2 boundary is hit on every run)"""
    out = []
    carriers = ["yaml", "json", "pyproject"]
    n = 0
    for unit, u in UNITS.items():
        for opt in u.get("guarded", []):
            metric = [mm for o, mm, _ in u["limits"] if o == opt][0]
            for val in (-1, 0, 1, 2):
                if val > 0 and val < u.get("limit_floor", -99):
                    continue
                lang = u["langs"][0]
                m = focus_metrics(u, opt)
                for _, mm in u.get("lists", []):
                    m[mm] = MAGIC_VALUES[-1]
                body = {opt: val}
                if not u.get("enabled_default", True):
                    body["enabled"] = True
                proj = {"yaml": None, "json": None, "pyproject": None, "dash": None}
                proj[carriers[n % 3]] = {unit: body}
                n += 1
                out.append({"i": f"bound:{unit}:{opt}:{val}", "unit": unit, "lang": lang, "via": "api", "metrics": m, "proj": proj,
                            "overrides": [], "fname": "case_src" + EXT[lang]})
            if opt in (u.get("cli") or {}):
                lang = u["langs"][0]
                m = focus_metrics(u, opt)
                proj = {"yaml": {unit: {"enabled": True}}, "json": None, "pyproject": None, "dash": None}
                out.append({"i": f"bound:{unit}:{opt}:cli0", "unit": unit, "lang": lang, "via": "cli", "metrics": m, "proj": proj,
                            "overrides": [[u["cli"][opt], 0]], "fname": "case_src" + EXT[lang]})
    # a permissive CLI option against a strict per-language sub-section, for every language of the unit
    for unit, u in UNITS.items():
        for opt, cli in (u.get("cli") or {}).items():
            if opt not in u.get("lang_over", []):
                continue
            metric, direction = [(mm, dd) for o, mm, dd in u["limits"] if o == opt][0]
            for lang in u["langs"]:
                m = focus_metrics(u, opt, -1)
                strict, loose = (2, m[metric] + 3) if direction > 0 else (m[metric] + 3, 2)
                body = {lang: {opt: strict}}
                if not u.get("enabled_default", True):
                    body["enabled"] = True
                proj = {"yaml": {unit: body}, "json": None, "pyproject": None, "dash": None}
                out.append({"i": f"cli-vs-lang:{unit}:{lang}", "unit": unit, "lang": lang, "via": "cli", "metrics": m, "proj": proj,
                            "overrides": [[cli, loose]], "fname": "case_src" + EXT[lang]})
    return out


def level_cases():
    """each documented guard (non-positive limit, wrong type) written at every level where the value can be written - top level of
    the section / the block of the linted file's language - while the other level holds a valid value; every language of the
    unit, carriers in rotation (incl. --config)"""
    out, n = [], 0
    carriers = ["yaml", "json", "pyproject", "dash"]
    for unit, u in UNITS.items():
        for opt in u.get("guarded", []):
            if opt not in u.get("lang_over", []):
                continue
            metric, direction = [(mm, dd) for o, mm, dd in u["limits"] if o == opt][0]
            for lang in u["langs"]:
                for level in ("top", "block", "both"):
                    for bad in (0, -1, "four"):
                        m = focus_metrics(u, opt, -1)
                        for _, mm in u.get("lists", []):
                            m[mm] = MAGIC_VALUES[-1]
                        good = 2 if direction > 0 else m[metric] + 2   # valid and reporting
                        body = {opt: bad if level in ("top", "both") else good,
                                lang: {opt: bad if level in ("block", "both") else good}}
                        if not u.get("enabled_default", True):
                            body["enabled"] = True
                        carrier = carriers[n % 4]
                        n += 1
                        if carrier == "dash" and not u["cmd"]:
                            carrier = "yaml"
                        proj = {"yaml": None, "json": None, "pyproject": None, "dash": None}
                        via = "api"
                        if carrier == "dash":
                            proj["dash"] = {"pos": "cmd", "suffix": ".yaml" if n % 8 < 4 else ".json", "file": {unit: body}}
                            via = "cli"
                        else:
                            proj[carrier] = {unit: body}
                        out.append({"i": f"level:{unit}:{lang}:{opt}:{level}:{bad}", "unit": unit, "lang": lang, "via": via, "metrics": m,
                                    "proj": proj, "overrides": [], "fname": "case_src" + EXT[lang]})
    return out


def entry_cases(tier: str):
    """an EXPLICIT configuration that says nothing about the unit - comment-only YAML, `{}` JSON, a file with only an unrelated
    section - next to a discovered project configuration that changes the unit's verdict (switch flipped / limit on the other
    side of the measure), through every entry point: command line, command line with --parallel and enough paths that worker
    processes really run, and the library API Linter(config_file=..., project_root=...).  The explicit file must win: all defaults."""
    out, n = [], 0
    kinds = [("comment-yaml", ".yaml", {}, "comment"), ("braces-json", ".json", {}, None), ("braces-yml", ".yml", {}, None),
             ("unrelated-section", ".yaml", None, None)]
    par_units = ("nesting", "srp", "dry", "magic-numbers", "stringly-typed", "performance") if tier == "quick" else tuple(u for u in UNITS if UNITS[u]["cmd"])
    for unit, u in UNITS.items():
        lang = u["langs"][0]
        opt0 = u["limits"][0][0] if u.get("limits") else None
        m = focus_metrics(u, opt0)
        for _, mm in u.get("lists", []):
            m[mm] = MAGIC_VALUES[-1]
        for _, mm in u.get("switches", []):
            m[mm] = 1
        for mm in u.get("always", []):
            m[mm] = 1
        flipped = {unit: {"enabled": not u.get("enabled_default", True)}}
        other = "srp" if unit != "srp" else "nesting"
        for kind, suffix, doc, style in kinds:
            doc = {other: {"enabled": True}} if doc is None else doc
            for via in ("linter", "cli", "par"):
                if via != "linter" and not u["cmd"]:
                    continue
                if via == "par" and (unit not in par_units or (tier == "quick" and kind == "braces-yml")):
                    continue
                if via == "cli" and tier == "quick" and n % 2:
                    n += 1
                    continue
                carrier = ("yaml", "json", "pyproject")[n % 3]
                n += 1
                proj = {"yaml": None, "json": None, "pyproject": None, "dash": {"pos": "cmd", "suffix": suffix, "file": dict(doc)}}
                if style:
                    proj["dash"]["empty_style"] = style
                proj[carrier] = flipped
                out.append({"i": f"entry:{unit}:{kind}:{via}:{carrier}", "unit": unit, "lang": lang, "via": via, "metrics": dict(m), "proj": proj,
                            "overrides": [], "fname": "case_src" + EXT[lang]})
    return out


NONMAPS = [5, "x", [1], True]


def _unit_sections(case: dict):
    """the entries of every carrier that are the unit's section under either spelling"""
    p = case["proj"]
    for d in (p.get("yaml"), p.get("json"), p.get("pyproject"), (p.get("dash") or {}).get("file")):
        if isinstance(d, dict):
            for k, sec in d.items():
                if k.replace("-", "_") == case["unit"].replace("-", "_"):
                    yield sec


def has_nonmap_section(case: dict) -> bool:
    return any(not isinstance(sec, dict) for sec in _unit_sections(case))


def has_nonmap_block(case: dict) -> bool:
    return any(isinstance(sec, dict) and any(l in sec and not isinstance(sec[l], dict) for l in LANGS) for sec in _unit_sections(case))


def nonmap_cases():
    """something other than a mapping where a section or a per-language block is expected: every unit x each kind of
    non-mapping value for the section (spellings and carriers in rotation); for the units with per-language blocks the block of
    the file's language and the block of another language"""
    out, n = [], 0
    carriers = ["yaml", "json", "pyproject", "dash"]
    for unit, u in UNITS.items():
        lang = u["langs"][0]
        opt0 = u["limits"][0][0] if u.get("limits") else None
        m = focus_metrics(u, opt0)
        for _, mm in u.get("lists", []):
            m[mm] = MAGIC_VALUES[-1]
        for _, mm in u.get("switches", []):
            m[mm] = 1
        for mm in u.get("always", []):
            m[mm] = 1
        docs = [(f"section:{v!r}", {(unit if i % 2 == 0 else unit.replace("-", "_")): v}) for i, v in enumerate(NONMAPS)]
        if u.get("lang_over"):
            on = {} if u.get("enabled_default", True) else {"enabled": True}
            other = [l for l in LANGS if l != lang][n % 3]
            docs += [(f"block:own:{v!r}", {unit: {**on, lang: v}}) for v in NONMAPS[:3]]
            docs += [(f"block:other:{other}", {unit: {**on, other: NONMAPS[n % 3]}})]
            if opt0:
                docs += [("block:own-with-limit", {unit: {**on, opt0: max(2, u.get("limit_floor", 2)), lang: 7}})]
        for tag, doc in docs:
            carrier = carriers[n % 4]
            n += 1
            if carrier == "dash" and not u["cmd"]:
                carrier = "json"
            proj = {"yaml": None, "json": None, "pyproject": None, "dash": None}
            via = "api"
            if carrier == "dash":
                proj["dash"] = {"pos": "cmd", "suffix": ".yaml", "file": doc}
                via = "cli"
            else:
                proj[carrier] = doc
            out.append({"i": f"nonmap:{unit}:{tag}:{carrier}", "unit": unit, "lang": lang, "via": via, "metrics": dict(m), "proj": proj,
                        "overrides": [], "fname": "case_src" + EXT[lang]})
    return out


def carrier_cases(seed: int):
    """every pair and the triple of discovered carriers present at once with DISAGREEING contents (one silences the unit, one
    makes it report, one sets a limit on the other side), plus a malformed file in each position"""
    out = []
    r = rng_for(seed, PROP, "carriers")
    names = ["yaml", "json", "pyproject"]
    combos = [("yaml", "json"), ("yaml", "pyproject"), ("json", "pyproject"), ("yaml", "json", "pyproject")]
    for unit in ("nesting", "magic-numbers", "srp", "collection-pipeline", "lbyl"):
        u = UNITS[unit]
        lang = u["langs"][0]
        fname = "case_src" + EXT[lang]
        for combo in combos:
            for variant in range(len(combo) + 2):
                m = gen_metrics(r, unit)
                for _, mm, _ in u.get("limits", []):
                    m[mm] = METRIC_RANGE[mm][1] - 1
                docs = [{unit: {"enabled": False}}, {unit: {"enabled": True}}, {spell(r, unit): {"enabled": True}, "ignore": [fname]}]
                if u.get("limits"):
                    opt, metric, direction = u["limits"][0]
                    docs[1] = {unit: {opt: m[metric] + 3 * direction if m[metric] + 3 * direction > 0 else 1}}
                proj = {"yaml": None, "json": None, "pyproject": None, "dash": None}
                order = list(range(len(combo)))
                order = order[variant % len(combo):] + order[:variant % len(combo)]
                for pos, c in enumerate(combo):
                    proj[c] = docs[order[pos] % 3]
                tag = "agree"
                if variant >= len(combo):
                    bad = combo[0] if variant == len(combo) else combo[-1]   # malformed highest / lowest precedence carrier
                    proj[bad] = UNPARSABLE
                    tag = "malformed-" + bad
                out.append({"i": f"carriers:{unit}:{'+'.join(combo)}:{variant}:{tag}", "unit": unit, "lang": lang,
                            "via": "cli" if (len(out) % 3 == 0 and u["cmd"]) else "api", "metrics": m, "proj": proj, "overrides": [], "fname": fname})
    return out


# where each listed defect may show (necessary conditions on the abstract case): a failing case attributed to a flag
# outside its declared class is a new defect, not the listed one
def _winner(case):
    p = case["proj"]
    if p.get("dash") is not None:
        return "dash"
    for k in ("yaml", "json", "pyproject"):
        if p.get(k) is not None:
            return k
    return "none"


def in_defect_class(flag: str, case: dict) -> bool:
    p = case["proj"]
    dash = p.get("dash")
    m = re.match(r"(\w+)\[(.+)\]$", flag)
    kind, arg = (m.group(1), m.group(2)) if m else (flag, None)
    if kind in ("section_not_read", "enabled_option_missing", "whole_config_fallback", "language_override_ignored"):
        return case["unit"] == arg
    if kind == "cli_override_skips_language_sections":
        if not case["overrides"] or UNITS[case["unit"]]["cmd"] != arg:
            return False
        return case["lang"] == "rust" if arg == "nesting" else True
    if kind == "repo_ignore_not_loaded":
        return {"json": p.get("json") is not None, "pyproject": p.get("pyproject") is not None, "--config": dash is not None}[arg]
    if flag == "global_config_option_ignored":
        return dash is not None and dash["pos"] == "global"
    if flag == "dry_config_option_merges_section_only":
        return case["unit"] == "dry" and dash is not None and dash["pos"] == "cmd"
    if flag == "pyproject_unparsable_swallowed":
        return p.get("pyproject") == UNPARSABLE
    if flag in ("language_block_error_retried_without_language", "invalid_top_level_value_shadowed_by_language_block"):
        u = UNITS[case["unit"]]
        docs = [p.get("yaml"), p.get("json"), p.get("pyproject"), (dash or {}).get("file")]
        for d in docs:
            if not isinstance(d, dict):
                continue
            for k, sec in d.items():
                if k.replace("-", "_") != case["unit"].replace("-", "_") or not isinstance(sec, dict):
                    continue
                blk = sec.get(case["lang"])
                if not isinstance(blk, dict):
                    continue
                for opt in u.get("guarded", []):
                    if flag.startswith("language_block") and isinstance(blk.get(opt), str):
                        return True      # only a TypeError (string limit inside the block) triggers the retry
                    # the top-level value: what the section says, replaced by a CLI threshold option (written at the top level only)
                    cli_vals = [z for o, z in case["overrides"] if o == (u.get("cli") or {}).get(opt)]
                    top = cli_vals[-1] if cli_vals else sec.get(opt)
                    if flag.startswith("invalid_top") and opt in blk and top is not None and (isinstance(top, str) or top < u.get("bounds", {}).get(opt, 1)):
                        return True
        return False
    if flag == "thailint_json_is_not_a_root_marker":
        return bool(p.get("subdir")) and p.get("yaml") is None and p.get("pyproject") is None and not (dash and dash["pos"] == "global")
    if kind in ("language_block_value_not_validated", "non_mapping_section_crashes"):
        return case["unit"] == arg and (has_nonmap_section(case) if kind == "non_mapping_section_crashes" else True)
    if flag == "non_mapping_language_block_crashes":
        return has_nonmap_block(case)
    if flag == "wrong_type_swallowed":
        if has_nonmap_section(case) or has_nonmap_block(case):
            return True     # calling .get on a non-mapping raises AttributeError, swallowed the same way
        docs = [p.get("yaml"), p.get("json"), p.get("pyproject"), (dash or {}).get("file")]
        return any(isinstance(v, str) for d in docs if isinstance(d, dict) for sec in d.values() if isinstance(sec, dict)
                   for v in list(sec.values()) + [x for sub in sec.values() if isinstance(sub, dict) for x in sub.values()])
    return False


def corpus_cases():
    out = []
    d = VERIF / "corpus" / PROP
    for p in sorted(d.glob("*.json")):
        c = json.loads(p.read_text())
        c["i"] = "corpus:" + p.stem
        out.append(normalise(c))
    return out


# ------------------------------------------------------------------ the check
def is_nontrivial(case) -> bool:
    p = case["proj"]
    docs = [p.get("yaml"), p.get("json"), p.get("pyproject"), (p.get("dash") or {}).get("file")]
    names = {case["unit"], case["unit"].replace("-", "_")}
    sets = any(isinstance(d, dict) and (any(k in names and v for k, v in d.items()) or "ignore" in d) for d in docs)
    broken = any(d == UNPARSABLE for d in docs) or (p.get("dash") is not None and p["dash"]["file"] is None)
    return bool(sets or broken or case["overrides"] or p.get("ignore_file"))


def load_known_d(chk: Check):
    """known_findings.json is assembled by the lead from known.d/; this property's own file is authoritative (an entry
    recorded as fixed there must not linger as known)"""
    f = VERIF / "known.d" / f"{PROP}.json"
    if f.exists():
        chk.known = {"known": {}, "fixed": {}}
        for e in json.loads(f.read_text()).get("findings", []):
            if e.get("property") != PROP:
                continue
            if e.get("status") == "known":
                chk.known["known"][e["key"]] = e
            elif str(e.get("status", "")).startswith("fixed"):
                chk.known["fixed"][e["key"]] = e


def run(tier: str, seed: int, replay: str | None = None) -> int:
    chk = Check(PROP, tier, seed)
    load_known_d(chk)
    chk.rule = ("a case = project (parsed document per carrier .thailint.yaml/.thailint.json/pyproject [tool.thailint]/--config file in command or "
                "root-group position, each possibly absent/unparsable, --config also missing or with an unsupported suffix) x unit (documented section "
                "in hyphen or underscore spelling + the rule that must honour it, 18 units) x language x CLI threshold options x measures of the rendered "
                "source.  Systematic part: every unit x spelling x carrier with `enabled` flipped; random part: sections with limits swept around the "
                "measure (measure-1, measure, measure+1, ...), switches, allowed-number lists, per-language sub-sections, per-linter and top-level ignore "
                "lists, decoy sections, competing carriers with different values, non-positive and wrong-typed limits, non-mappings where a section or a "
                "per-language block is expected (every unit x number/string/list/bool), srp max_loc and dry/stringly-typed min_occurrences sweeps.  Run through the real CLI "
                "(exit code + --format json) or the in-process Orchestrator(project_root).  Non-trivial: some carrier sets an option of the unit or an ignore "
                "list, or a carrier is broken, or a CLI threshold option is given; distinct = distinct abstract case")
    chk.trusted_base += [
        "PyYAML / json / tomllib parsing and the three renderers (the abstract input is the parsed document; same tree rendered in each syntax), click option parsing",
        "each linter's analysis of the source text is abstracted to probes over measures of the rendered source (Model/Config.v unit_probes: depth > limit, methods >= min, ...); "
        "the renderer producing a source with exactly those measures and the probe semantics are validated by this correspondence only (exact verdict theorems are C01/C02/C03/C16)",
        "path pattern matching of ignore lists is exercised with exact file names only (fnmatch / Path.match / substring all agree there)",
        "outside the modelled domain: sections of other linters holding invalid values, a CLI threshold option together with a non-mapping per-language block, "
        "guards relating two options (stringly-typed max_values_for_enum >= min_values_for_enum, kept satisfied by the generator), YAML null as a section, "
        "file-placement runs; root detection is modelled only as 'project directory vs. the linted file's sub-directory'",
    ]
    chk.build(["theories/Props/C05.v"], ["ConfigGen"], known_v=["theories/Props/C05Known.v"])
    flags = actual_flags()
    scale = chk.budget_scale()
    if replay:
        rep = json.loads(Path(replay).read_text())
        cases = [normalise(rep["violation"]["case"])] if "case" in rep.get("violation", {}) else []
    else:
        n_rand = (420 if tier == "quick" else 5200) * min(scale, 3)
        cases = (corpus_cases() + boundary_cases() + level_cases() + carrier_cases(seed) + layout_cases() + nonmap_cases() + entry_cases(tier)
                 + matrix_cases(seed, 0.45 if tier == "quick" else 1.0) + gen_cases(seed, n_rand))
        if tier == "quick":  # cap the number of CLI subprocesses: turn surplus option-free CLI cases into library runs
            budget = 200 * min(scale, 2)
            for c in cases:
                if c["via"] == "cli":
                    if budget > 0 or c["proj"]["dash"] is not None or c["overrides"] or c["proj"].get("subdir") or str(c["i"]).startswith("corpus"):
                        budget -= 1
                    else:
                        c["via"] = "api"
    impls = pool_map(run_impl, cases, procs=PROCS)
    recorded_verdicts = None
    with scratch_dir("tv-c05-coq-") as wd:
        try:
            verdicts = judge(cases, impls, wd / "a")
        except RuntimeError as e:
            chk.broken.append(f"Model:evaluation of the configuration model failed ({str(e)[:500]})")
            verdicts = [None] * len(cases)
        if chk.broken:
            # something no longer checks: also judge the whole stream against the layer recorded for the unchanged tree, purely
            # to exhibit a concrete failing input (see recorded_layer_theories)
            th = recorded_layer_theories(wd / "recorded")
            if th is not None:
                try:
                    recorded_verdicts = judge(cases, impls, wd / "b", th=th)
                    chk.notes.append("a proof obligation / generated item / the model no longer checks: cases were also judged with the generated "
                                     "layer recorded for the unchanged tree (coq/Gen.expected/ConfigGen.v.txt) to search for a failing input")
                except RuntimeError as e2:
                    chk.notes.append(f"evaluation with the recorded generated layer failed too ({str(e2)[:200]})")

    def decide(verdicts, first: bool, note: str = ""):
        cands_all = None
        for case, impl, ver in zip(cases, impls, verdicts):
            if not first:
                if ver is None or "error" in impl:
                    continue
                bits = [bool(b) for b in ver]
                spec_ok, ideal_ok, cand, class_repairs = bits[0], bits[1], bits[2:-1], bits[-1]
                if spec_ok:
                    continue
                relevant = [flags[i] for i in range(len(flags)) if not cand[1 + i]]
                outside = [k for k in relevant if not in_defect_class(k, case)]
                if cand[0] and ideal_ok and class_repairs and not outside and (relevant or class_flags(case)):
                    continue  # a listed defect (already reported in the first pass when the current model could be evaluated)
                chk.violation({"reason": "exit status / number of violations differs from what the configuration demands" + note,
                               "impl": impl, "case": case, "model_actual_matches_impl": cand[0], "model_ideal_matches_spec": ideal_ok})
                continue
            chk.count({k: case[k] for k in ("unit", "lang", "via", "metrics", "proj", "overrides")}, is_nontrivial(case))
            chk.dist("unit:" + case["unit"])
            chk.dist("via:" + case["via"])
            p = case["proj"]
            chk.dist("carriers:" + "+".join([k for k in ("yaml", "json", "pyproject") if p.get(k) is not None]
                                            + ([f"dash-{p['dash']['pos']}{p['dash']['suffix']}"] if p.get("dash") else [])) or "carriers:none")
            if case["overrides"]:
                chk.dist("cli-override")
            chk.sample({"case": {k: case[k] for k in ("unit", "lang", "via", "metrics", "proj", "overrides")}, "impl": {k: v for k, v in impl.items() if k != "failures"}}, 4)
            if "error" in impl:
                chk.violation({"reason": "the run neither produced a result document nor exit code 2", "detail": impl, "case": case})
                continue
            if ver is None:
                continue
            chk.traces_validated += 1
            bits = [bool(b) for b in ver]
            spec_ok, ideal_ok, cand, class_repairs = bits[0], bits[1], bits[2:-1], bits[-1]
            cands_all = cand if cands_all is None else [a and b for a, b in zip(cands_all, cand)]
            fails = impl.get("failures") or []
            if fails and not (cand[0] and in_defect_class("wrong_type_swallowed", case)):
                # (a swallowed TypeError is the listed wrong_type_swallowed defect when the case gives a limit as a string and the
                # faithful model predicts the observed outcome; anything else is a rule crashing silently)
                chk.violation({"reason": "a rule failed internally (swallowed exception) during the run", "failures": fails[:3], "case": case, "impl": impl})
                continue
            if spec_ok:
                continue
            info = {"reason": "exit status / number of violations differs from what the configuration demands", "impl": impl, "case": case,
                    "model_actual_matches_impl": cand[0], "model_ideal_matches_spec": ideal_ok}
            # flags whose single removal changes the model's outcome on this case
            relevant = [flags[i] for i in range(len(flags)) if not cand[1 + i]]
            outside = [k for k in relevant if not in_defect_class(k, case)]
            if cand[0] and ideal_ok and class_repairs and not outside and (relevant or class_flags(case)):
                # explained by listed defects: the faithful model predicts the implementation, and switching off exactly the flags
                # whose declared defect class contains the case makes the model meet the specification on it.  Reported: the flags
                # that matter individually, or (several defects covering the input at once) all flags of the class
                for k in relevant or class_flags(case):
                    chk.known_finding(k, {"case": {kk: case[kk] for kk in ("unit", "lang", "via", "metrics", "proj", "overrides")}, "impl": impl})
            elif cand[0] and ideal_ok:
                info["reason"] = ("the failure follows the mechanism of listed defects but lies outside their declared defect classes (flags that matter: "
                                  + ", ".join(relevant or ["<none alone>"]) + "; class of the case: " + ", ".join(class_flags(case) or ["<none>"])
                                  + "): a listed defect now affects inputs it did not affect before")
                chk.violation(info)
            else:
                chk.violation(info)
        return cands_all

    cands_all = decide(verdicts, True)
    if recorded_verdicts is not None and not chk.violations:
        decide(recorded_verdicts, False, " [judged with the last validated generated layer, coq/Gen.expected/ConfigGen.v.txt]")
    if cands_all is not None and not cands_all[0]:
        alt = [i for i, ok in enumerate(cands_all) if ok]
        if alt:
            names = ["actual"] + [f"actual without {f}" for f in flags] + ["ideal"]
            chk.notes.append("implementation no longer matches the claimed quirk vector but matches: " + names[alt[0]] +
                             " (a listed defect is no longer observed; the theorems hold for every vector)")
        else:
            chk.correspondence_broken({"level": "observable", "detail": "Model/Config.v under Actual/ConfigActual.v disagrees with the implementation "
                                       "and no candidate quirk vector matches all cases"})
    return chk.finish()
