"""C11, the proved part's tie to the code: correspondence of Model/Contain.v with the implementation.

 * stub scenarios: PARTIAL rules (programmed to report / raise per file, to remember evidence, to fail in finalize)
   are registered in the real Orchestrator and run through lint_files and through the worker path of
   lint_files_parallel; outcome, violations and the H1 failure log are compared with the model in Coq;
 * detection: detect_language on generated names x contents against Model.detect;
 * the exception-class table (MRO) against CPython;
 * the compute/store order of the two cross-file rules against the real DRYRule / StringlyTypedRule with their
   analyses patched to fail (unit level, names looked up defensively).
"""
from __future__ import annotations

import json
import os
from pathlib import Path

from harness import coq

EXC = {
    "EValue": lambda: ValueError("v"),
    "EUnicodeDecode": lambda: UnicodeDecodeError("utf-8", b"\xff", 0, 1, "bad"),
    "EUnicodeEncode": lambda: UnicodeEncodeError("utf-8", "\ud800", 0, 1, "bad"),
    "EJSONDecode": lambda: json.JSONDecodeError("m", "doc", 0),
    "ERuntime": lambda: RuntimeError("r"), "ERecursion": lambda: RecursionError("deep"),
    "ENotImplemented": lambda: NotImplementedError("n"), "ESyntax": lambda: SyntaxError("s"),
    "EIndentation": lambda: IndentationError("i"), "EOS": lambda: OSError("o"),
    "EFileNotFound": lambda: FileNotFoundError("f"), "EPermission": lambda: PermissionError("p"),
    "EKey": lambda: KeyError("k"), "EIndex": lambda: IndexError("i"), "EType": lambda: TypeError("t"),
    "EAttribute": lambda: AttributeError("a"), "EAssertion": lambda: AssertionError("a"), "EMemory": lambda: MemoryError("m"),
    "EZeroDivision": lambda: ZeroDivisionError("z"), "EOverflow": lambda: OverflowError("o"),
    "EStopIteration": lambda: StopIteration("s"), "ENameErr": lambda: NameError("n"),
}
VALUE_FAMILY = ["EValue", "EUnicodeDecode", "EUnicodeEncode", "EJSONDecode"]
OTHERS = [k for k in EXC if k not in VALUE_FAMILY]


def coq_bytes(b: bytes) -> str:
    if all(32 <= c < 127 for c in b):
        return '"' + b.decode().replace('"', '""') + '"'
    return "(bytes_to_string [" + ";".join(str(c) for c in b) + "])"


# ------------------------------------------------------------------ stub scenarios
def gen_stub_case(r, i):
    mode = 1 if r.random() < 0.18 else 0
    nfiles = r.randrange(4, 7) if mode == 1 else r.randrange(1, 6)
    files = [f"f{j}{r.choice(['.py', '.ts', '.rs', '.txt'])}" for j in range(nfiles)]
    stubs = []
    fail_rate = r.choice([0.0, 0.15, 0.3, 0.5])
    for k in range(r.randrange(1, 5)):
        res, contrib = {}, {}
        cross = r.random() < 0.55          # overrides finalize(); a plain rule stores nothing and inherits finalize()
        for f in files:
            x = r.random()
            if x < fail_rate:
                res[f] = {"fail": r.choice(VALUE_FAMILY) if r.random() < 0.3 else r.choice(OTHERS)}
            elif x < fail_rate + 0.5:
                res[f] = {"ok": [r.randrange(1, 40) for _ in range(r.randrange(0, 3))]}
            if cross and r.random() < 0.6:
                contrib[f] = [r.randrange(1, 9) for _ in range(r.randrange(1, 3))]
        y = r.random() if cross else 1.0
        fin = ["echo"]
        if y < 0.08:
            fin = ["fail", r.choice(list(EXC))]
        elif y < 0.16:
            fin = ["failif", r.randrange(1, 9), r.choice(list(EXC))]
        stubs.append({"id": f"stub.r{k}", "res": res, "contrib": contrib, "fin": fin, "cross": cross})
    return {"kind": "stub", "i": i, "mode": mode, "files": files, "stubs": stubs}


def _make_stub_class():
    from src.core.base import BaseLintRule
    from src.core.types import Violation

    class Stub(BaseLintRule):
        def __init__(self, spec):
            self.spec = spec
            self.store = []

        @property
        def rule_id(self):
            return self.spec["id"]

        @property
        def rule_name(self):
            return "stub"

        @property
        def description(self):
            return "partial rule injected by the verification harness"

        def check(self, context):
            name = Path(context.file_path).name
            self.store.extend((name, n) for n in self.spec["contrib"].get(name, []))   # stored before returning / raising
            res = self.spec["res"].get(name)
            if res is None:
                return []
            if "fail" in res:
                raise EXC[res["fail"]]()
            return [Violation(rule_id=self.spec["id"], file_path=name, line=n, column=0, message="stub") for n in res["ok"]]

        def finalize(self):
            store, self.store = self.store, []
            fin = self.spec["fin"]
            if fin[0] == "fail":
                raise EXC[fin[1]]()
            if fin[0] == "failif" and any(n == fin[1] for _, n in store):
                raise EXC[fin[2]]()
            return [Violation(rule_id=self.spec["id"], file_path=f, line=n, column=0, message="stub-final") for f, n in store]

    class PlainStub(Stub):
        """a per-file rule: finalize() is the inherited one, nothing is stored"""

        def check(self, context):
            name = Path(context.file_path).name
            res = self.spec["res"].get(name)
            if res is None:
                return []
            if "fail" in res:
                raise EXC[res["fail"]]()
            return [Violation(rule_id=self.spec["id"], file_path=name, line=n, column=0, message="stub") for n in res["ok"]]

        finalize = BaseLintRule.finalize

    def make(spec):
        return Stub(spec) if spec.get("cross", True) else PlainStub(spec)

    return make


def _read_log(path: Path):
    out = []
    if path.exists():
        for line in path.read_text().splitlines():
            rec = json.loads(line)
            f = rec.get("file")
            out.append([str(rec.get("where")), str(rec.get("rule")), "None" if f in (None, "None") else Path(f).name, str(rec.get("exc_type"))])
        path.unlink()
    return out


def run_stub_cases(cases, root: Path):
    """implementation observations for the stub scenarios (sequential in this process; parallel ones fork workers)"""
    from src.core.registry import RuleRegistry
    from src.orchestrator.core import Orchestrator
    Stub = _make_stub_class()
    faillog = root.parent / "stub-faillog.jsonl"
    os.environ["THAILINT_VERIF"] = "1"
    os.environ["THAILINT_VERIF_FAILLOG"] = str(faillog)
    root.mkdir(parents=True, exist_ok=True)
    out = []
    for case in cases:
        for f in case["files"]:
            (root / f).write_text("x = 1\n")
        paths = [root / f for f in case["files"]]
        if faillog.exists():
            faillog.unlink()
        crashed, vs = None, []
        try:
            if case["mode"] == 0:
                o = Orchestrator(project_root=root, config={})
                o._rules_discovered = True  # noqa: SLF001 - inject instead of discovering
                for s in case["stubs"]:
                    o.registry.register(Stub(s))
                vs = o.lint_files(paths)
            else:
                orig = RuleRegistry.discover_rules
                specs = case["stubs"]

                def fake(self, _pkg, specs=specs):
                    return sum(1 for s in specs if self._try_register(Stub(s)))  # noqa: SLF001

                RuleRegistry.discover_rules = fake
                try:
                    o = Orchestrator(project_root=root, config={})
                    vs = o.lint_files_parallel(paths, max_workers=2)
                finally:
                    RuleRegistry.discover_rules = orig
        except Exception as e:  # noqa: BLE001
            crashed = type(e).__name__
            vs = []
        out.append({"crashed": crashed, "viols": sorted([v.rule_id, Path(v.file_path).name, v.line] for v in vs), "log": _read_log(faillog)})
        for f in case["files"]:
            (root / f).unlink()
    os.environ.pop("THAILINT_VERIF_FAILLOG", None)
    return out


def coq_stub_case(case, obs) -> str:
    def outcome(res):
        if "fail" in res:
            return f"Fail {res['fail']}"
        return "Ok " + coq.coq_list([str(n) for n in res["ok"]])

    stubs = []
    for s in case["stubs"]:
        res = coq.coq_list([f'("{f}", {outcome(v)})' for f, v in s["res"].items()])
        con = coq.coq_list([f'("{f}", {coq.coq_list([str(n) for n in ns])})' for f, ns in s["contrib"].items()])
        fin = {"echo": "FEcho", "fail": "(FFail %s)", "failif": "(FFailIf %s %s)"}[s["fin"][0]]
        if s["fin"][0] != "echo":
            fin = fin % tuple(s["fin"][1:])
        stubs.append(f'{{| s_id := "{s["id"]}"; s_res := {res}; s_contrib := {con}; s_fin := {fin}; s_cross := {coq.coq_bool(s.get("cross", True))} |}}')
    crashed = "None" if obs["crashed"] is None else f'(Some "{obs["crashed"]}")'
    viols = coq.coq_list([f'("{r}", "{f}", {n})' for r, f, n in obs["viols"]])
    log = coq.coq_list([f'("{w}", "{r}", "{f}", "{e}")' for w, r, f, e in obs["log"]])
    files = coq.coq_list([f'"{f}"' for f in case["files"]])
    return f"judge_run contain_actual {case['mode']} {coq.coq_list(stubs)} {files} ({crashed}, {viols}, {log})"


# ------------------------------------------------------------------ detection
STEMS = ["a", "A.b", "x.y.z", ".hidden", "-", "ünï", "a b", "Makefile", "x.", "..", "py", "a.py", "K"]
EXTS = [".py", ".PY", ".Py", ".pY", ".ts", ".TS", ".tsx", ".TSX", ".js", ".jsx", ".JSX", ".java", ".Java", ".go", ".GO", ".rs", ".Rs", ".pyc",
        ".pyi", ".txt", "", ".", ".py.", ".py.bak", ".d.ts", "..py", ".ру", ".p y", ".py ", ".Ks", ".mjs", ".t", ".s", ".jsx.map",
        ".RS.", ".Ts"]
CONTENTS = [b"", b" ", b"\n", b"x = 1\n", b"#!/usr/bin/env python3\nx = 1\n", b"#!/usr/bin/python", b"#!/bin/sh\necho python\n",
            b"#!/bin/sh\rpython\n", b"#!/usr/bin/python\r\nx\r\n", b"#! python", b"# !python", b" #!/usr/bin/python\n", b"#!PYTHON\n",
            b"\xef\xbb\xbf#!/usr/bin/python\n", b"#!/usr/bin/python\n\xff\xfe", b"\xff#!python", b"#!/usr/bin/node\n", b"#!pytho\nn",
            b"#", b"#!", b"\x00#!python", b"#!\x00python\n", b"#!/usr/bin/python\x0cfoo\n", b"#!py\xe2\x80\xa8thon\n", b"\r#!python\n"]


def gen_detect_case(r, i):
    name = r.choice(STEMS) + r.choice(EXTS)
    if name in (".", "..", "") or "/" in name:
        name = "a" + name
    content = r.choice(CONTENTS)
    if r.random() < 0.15:
        content = bytes(r.randrange(256) for _ in range(r.randrange(1, 30)))
    if r.random() < 0.1:
        content = b"#!" + bytes(r.choice(b"python \n\r/xy\t") for _ in range(r.randrange(0, 25)))
    return {"kind": "detect", "i": i, "name": name, "present": r.random() > 0.08, "content": content}


def run_detect_cases(cases, root: Path):
    from src.orchestrator.language_detector import detect_language
    root.mkdir(parents=True, exist_ok=True)
    out = []
    for c in cases:
        p = root / c["name"]
        if c["present"]:
            p.write_bytes(c["content"])
        try:
            lang = detect_language(p)
        except Exception as e:  # noqa: BLE001
            lang = f"<raised {type(e).__name__}>"
        if p.exists():
            p.unlink()
        out.append(lang)
    return out


def decodes(b: bytes) -> bool:
    try:
        b.decode("utf-8")
        return True
    except UnicodeDecodeError:
        return False


def coq_detect_case(name: str, present: bool, content: bytes, impl: str) -> str:
    return (f"judge_detect {coq_bytes(name.encode())} {coq.coq_bool(present)} {coq.coq_bool(decodes(content))} "
            f"{coq_bytes(content)} {coq_bytes(impl.encode())}")


# ------------------------------------------------------------------ exception classes
def python_mro_table():
    import builtins
    out = []
    for key, mk in EXC.items():
        cls = type(mk())
        out.append((cls.__name__, [c.__name__ for c in cls.__mro__ if c is not object]))
        assert getattr(builtins, cls.__name__, None) is cls or cls is json.JSONDecodeError
    return out


def coq_mro_case() -> str:
    return "judge_mro " + coq.coq_list([f'("{n}", {coq.coq_list([chr(34) + m + chr(34) for m in mro])})' for n, mro in python_mro_table()])


# ------------------------------------------------------------------ compute / store order of the cross-file rules
PY_SRC = '''"""
Purpose: staged probe
"""
LIMITPROBE = 4711
RATEPROBE = "probe-constant"


def first_probe(values):
    total = 0
    for value in values:
        total = total + value * 31
        total = total - value // 7
        total = total ^ 977
    return total


def status_probe(kind):
    if kind in ("open", "closed", "held"):
        return kind == "open"
    return False
'''


class _Boom(Exception):
    pass


def run_staged_cases(root: Path):
    """-> list of (ops name, failing {analysis: exc key}, raised | None, stored names) or a note when internals moved"""
    from src.orchestrator.core import FileLintContext
    root.mkdir(parents=True, exist_ok=True)
    out, notes = [], []
    p = root / "probe.py"
    p.write_text(PY_SRC)
    t = root / "probe.ts"
    t.write_text('export function f(kind: string): boolean {\n  if (kind === "open" || kind === "closed") { return true; }\n  return false;\n}\n')

    def raise_or(fail, key, orig):
        def w(*a, **k):
            if key in fail:
                raise EXC[fail[key]]()
            return orig(*a, **k)
        return w

    # ---- DRY
    try:
        import src.linters.dry.linter as L
        from src.linters.dry.duplicate_storage import DuplicateStorage
        for fail in [{}, {"inline_ignore": "ERuntime"}, {"blocks": "ERecursion"}, {"blocks": "EKey"}, {"constants": "ERecursion"},
                     {"constants": "EMemory"}, {"blocks": "EType", "constants": "EKey"}]:
            rule = L.DRYRule()
            stored = []
            o_analyze, o_const, o_add = L.FileAnalyzer.analyze, L.extract_python_constants, DuplicateStorage.add_blocks
            rule._helpers.inline_ignore.parse_file = raise_or(fail, "inline_ignore", rule._helpers.inline_ignore.parse_file)  # noqa: SLF001

            def analyze(self, *a, _o=o_analyze, _fail=fail, **k):
                if "blocks" in _fail:
                    raise EXC[_fail["blocks"]]()
                return _o(self, *a, **k)
            L.FileAnalyzer.analyze = analyze
            L.extract_python_constants = raise_or(fail, "constants", o_const)

            def add(self, *a, _o=o_add, **k):
                stored.append("blocks")
                return _o(self, *a, **k)
            DuplicateStorage.add_blocks = add
            raised = None
            try:
                ctx = FileLintContext(p, "python", metadata={"dry": {"enabled": True, "storage_mode": "memory", "min_duplicate_lines": 3},
                                                             "_project_root": root})
                rule.check(ctx)
            except Exception as e:  # noqa: BLE001
                raised = type(e).__name__
            finally:
                L.FileAnalyzer.analyze, L.extract_python_constants, DuplicateStorage.add_blocks = o_analyze, o_const, o_add
            if rule._constants:  # noqa: SLF001
                stored.append("constants")
            out.append(("dry_steps", fail, raised, stored))
    except (ImportError, AttributeError) as e:
        notes.append(f"DRY internals not found ({e}); unit-level order check skipped, the observable level carries the tie")

    # ---- stringly-typed
    try:
        import src.linters.stringly_typed.linter as S
        from src.linters.stringly_typed.storage import StringlyTypedStorage
        names = {"add_patterns": "patterns", "add_function_calls": "calls", "add_comparisons": "comparisons"}
        for lang, path, steps, fails in (
                ("python", p, "stringly_py_steps", [{}, {"patterns": "ERecursion"}, {"calls": "ERecursion"}, {"comparisons": "EMemory"}, {"calls": "EKey", "comparisons": "EType"}]),
                ("typescript", t, "stringly_ts_steps", [{}, {"ts_results": "ERecursion"}, {"ts_results": "EAttribute"}])):
            for fail in fails:
                rule = S.StringlyTypedRule()
                stored = []
                origs = {m: getattr(StringlyTypedStorage, m) for m in names}

                def mk(m, orig):
                    def w(self, *a, **k):
                        stored.append(names[m])
                        return orig(self, *a, **k)
                    return w
                for m, orig in origs.items():
                    setattr(StringlyTypedStorage, m, mk(m, orig))
                pa, ta = rule._helpers.python_analyzer, rule._helpers.typescript_analyzer  # noqa: SLF001
                pa.analyze = raise_or(fail, "patterns", pa.analyze)
                pa.analyze_function_calls = raise_or(fail, "calls", pa.analyze_function_calls)
                pa.analyze_comparisons = raise_or(fail, "comparisons", pa.analyze_comparisons)
                ta.analyze_all = raise_or(fail, "ts_results", ta.analyze_all)
                raised = None
                try:
                    ctx = FileLintContext(path, lang, metadata={"stringly_typed": {"enabled": True}, "_project_root": root})
                    rule.check(ctx)
                except Exception as e:  # noqa: BLE001
                    raised = type(e).__name__
                finally:
                    for m, orig in origs.items():
                        setattr(StringlyTypedStorage, m, orig)
                if lang == "typescript":
                    stored = ["ts_results"] if stored else []
                out.append((steps, fail, raised, stored))
    except (ImportError, AttributeError) as e:
        notes.append(f"stringly-typed internals not found ({e}); unit-level order check skipped")
    return out, notes


def coq_staged_case(steps, fail, raised, stored) -> str:
    failing = coq.coq_list([f'("{k}", {v})' for k, v in fail.items()])
    r = "None" if raised is None else f'(Some "{raised}")'
    return f"judge_staged {steps} {failing} {r} {coq.coq_list([chr(34) + s + chr(34) for s in stored])}"


# ------------------------------------------------------------------ the recursive tree walkers (Model/ContainWalk.v)
def _depth_count(root, ty):
    """depth of a tree-sitter tree and number of nodes of a type, without recursion"""
    depth, count, stack = 0, 0, [(root, 1)]
    while stack:
        node, d = stack.pop()
        depth = max(depth, d)
        if node.type == ty:
            count += 1
        for ch in node.children:
            stack.append((ch, d + 1))
    return depth, count


def _walk_call(analyzer, root, ty):
    """always called from run_walk_cases directly: the number of interpreter frames in use is the same for every case"""
    try:
        return len(analyzer.walk_tree(root, ty))
    except RecursionError:
        return None


def run_walk_cases(r, n):
    """-> (fuel, [(lang, kind, size, node type, real depth, real count, impl result)], notes).  The frames left (`fuel`) are
    calibrated in this run on parenthesis chains; every other shape / language must then fail exactly when its depth exceeds fuel."""
    from harness.props import c11_mut
    try:
        from src.analyzers.rust_base import RUST_PARSER, RustBaseAnalyzer
        from src.analyzers.typescript_base import TS_PARSER, TypeScriptBaseAnalyzer
    except ImportError as e:
        return None, [], [f"tree-sitter analyzers not importable ({e}): walker correspondence skipped"]
    an = {"ts": (TypeScriptBaseAnalyzer(), TS_PARSER), "rs": (RustBaseAnalyzer(), RUST_PARSER)}

    def one(lang, kind, size, ty):
        a, parser = an[lang]
        root = parser.parse(c11_mut.blowup_text(lang, kind, size)).root_node
        d, c = _depth_count(root, ty)
        return d, c, _walk_call(a, root, ty)

    ok_max, fail_min = 0, 10 ** 9
    lo, hi = 10, 4000
    while lo <= hi:                       # calibration: largest depth that still fits / smallest that does not
        mid = (lo + hi) // 2
        d, _c, res = one("ts", "paren", mid, "number")
        if res is None:
            fail_min = min(fail_min, d)
            hi = mid - 1
        else:
            ok_max = max(ok_max, d)
            lo = mid + 1
    if fail_min == 10 ** 9 or ok_max == 0:
        return None, [], ["walker calibration found no threshold below 4000 nested parentheses"]
    fuel = fail_min - 1
    notes = [] if ok_max == fuel else [f"walker calibration: largest fitting depth {ok_max}, smallest overflowing depth {fail_min}"]
    shapes = {"ts": [("paren", "number"), ("array", "array"), ("binop", "number"), ("not", "identifier"), ("attr", "identifier"), ("call", "identifier"),
                     ("block", "if_statement"), ("arrow", "arrow_function"), ("object", "pair"), ("ternary", "number")],
              "rs": [("paren", "integer_literal"), ("array", "array_expression"), ("binop", "integer_literal"), ("not", "identifier"),
                     ("call", "identifier"), ("block", "if_expression"), ("closure", "closure_expression"), ("ref", "primitive_type"), ("match", "match_arm")]}
    out = []
    for i in range(n):
        lang = "ts" if i % 2 == 0 else "rs"
        kind, ty = shapes[lang][(i // 2) % len(shapes[lang])]
        size = r.choice([r.randrange(20, 200), r.randrange(200, 700), r.randrange(700, 1400), r.randrange(fuel // 3, fuel + 300)])
        d, c, res = one(lang, kind, size, ty)
        out.append((lang, kind, size, ty, d, c, res))
    return fuel, out, notes


def coq_walk_case(fuel, d, c, res) -> str:
    return f"judge_walk walk_actual {fuel} {d} {c} {'None' if res is None else '(Some %d)' % res}"
