"""C08 — results depend only on current file contents and config, not on order or history.

Generated multi-language projects and seeded histories (lint file / files / directory, Linter.lint, edits,
deletions, additions) on ONE long-lived Linter object; after every lint call the same call is made on a fresh
object.  The Coq model (Model/OrchHist.v) is run on the same history under the claimed quirk vector, that vector
with one flag off, and the ideal; rule behaviour enters the model as measured tables (per-file results per file
version; cross-file reports per evidence list, measured single-shot on fresh rule objects).
Side-effect freedom is a runtime fact: project tree and TMPDIR are snapshotted around every call (in-process) and
around CLI runs of every linter command (sequential / parallel, both DRY storage modes); it is not proved.
Hash-seed independence is likewise observed on CLI runs under several PYTHONHASHSEED values, not proved."""
from __future__ import annotations

import json
import os
import re
import tempfile
from pathlib import Path

from harness import coq
from harness.common import (PY, REPO, VERIF, clean_env, drain_failures, ensure_repo_on_path, install_failure_tap, parse_json_violations,
                            pool_map, rng_for, run_cli, scratch_dir)
from harness.framework import Check
from harness.props import orchhist_common as oc

PROP = "C08"
FLAGS = ["q_dry_keeps_storage", "q_lintfile_leaves_evidence", "q_consts_in_processing_order", "q_ignore_parser_reused",
         "q_dry_config_sticky", "q_fp_config_sticky"]
HEADER = "From Coq Require Import NArith.\nFrom TL Require Import Lib.Base Model.OrchHist Model.OrchHistRun Actual.OrchHistActual.\n"
LINT_KINDS = ("LintFile", "LintFiles", "LintDir", "ApiFile", "ApiDir")
OBJECT_OPS = ("NewLinter", "ReloadConfig")
CLI_COMMANDS = ["blocking-async", "clone-abuse", "dry", "file-header", "file-placement", "improper-logging", "lazy-ignores", "lbyl",
                "magic-numbers", "method-property", "nesting", "perf", "pipeline", "print-statements", "regex-in-loop", "srp",
                "stateless-class", "string-concat-loop", "stringly-typed", "unwrap-abuse"]


# ------------------------------------------------------------------ generation
def gen_history(r, proj: dict, n_ops: int) -> list:
    paths = proj["paths"]
    ign = paths.index(oc.IGNORE_NAME)
    special = {paths.index(oc.CONFIG_NAME), ign}
    fs = {int(k): v for k, v in proj["fs0"].items()}
    hist = []

    def code_files():
        return sorted(p for p in fs if p not in special)

    def new_content(pid, base=None):
        path = paths[pid]
        tag = re.sub(r"[^a-z]", "", path.split(".")[0])[-3:] or "x"
        items = oc.gen_items(r, path, tag)
        flip = [k for k, x in enumerate(proj["contents"][base][1]) if x[0] in ("B", "BI", "BN")] if base is not None and oc.lang_of(path) == "py" else []
        if flip and r.random() < 0.3:
            # the same file with one inline DRY suppression comment added or removed (nothing else changes)
            items = [list(x) for x in proj["contents"][base][1]]
            k = r.choice(flip)
            items[k][0] = "B" if items[k][0] != "B" else r.choice(["BI", "BN"])
        elif base is not None and r.random() < 0.5:
            # a rewrite that keeps the file's share of the cross-file plants (so that groups with >= 3 participants survive edits)
            items += [list(x) for x in proj["contents"][base][1] if x[0] in oc.PLANT_KINDS]
            r.shuffle(items)
        elif base is not None and r.random() < 0.5:
            # a small edit: drop or add one item of the current version
            items = [list(x) for x in proj["contents"][base][1]]
            if items and r.random() < 0.6:
                items.pop(r.randrange(len(items)))
            items.append(["U", 0, tag + str(r.randrange(1000))])
        proj["contents"].append([path, items])
        return len(proj["contents"]) - 1

    cfgp = paths.index(oc.CONFIG_NAME)
    cfg_versions = [cid for cid, e in enumerate(proj["contents"]) if e[0] == oc.CONFIG_NAME]

    def config_change():
        """another configuration file for the same root (other file-placement rules or none, other thresholds), then either a
        new Linter in the same process or a reload of the configuration into the live object"""
        others = [c for c in cfg_versions if c != fs[cfgp]]
        if not others:
            return [["NewLinter"]]
        fs[cfgp] = r.choice(others)
        return [["Edit", cfgp, fs[cfgp]], [r.choice(["NewLinter", "ReloadConfig", "ReloadConfig"])]]

    def pick_dir():
        live = [di for di, d in enumerate(proj["dirs"]) if any(oc.in_dir(d, paths[p]) for p in fs)]
        return r.choice([0, 0] + live)

    def ignore_edit():
        """change the ignore file, then (configuration is read at construction) build a new Linter in the same process"""
        cur = proj["contents"][fs[ign]][1][1] if ign in fs else None
        choices = [x for x in oc.IGNORE_POOL + [None] if x != cur]
        new = r.choice(choices)
        if new is None:
            ops = [["Delete", ign]]
            del fs[ign]
        else:
            proj["contents"].append([oc.IGNORE_NAME, ["IGNORE", new]])
            c = len(proj["contents"]) - 1
            ops = [["Edit" if ign in fs else "Add", ign, c]]
            fs[ign] = c
        return ops + [["NewLinter"]]

    def flip_candidates():
        """(path id, item index) of duplicate-able bodies in Python files whose body also occurs in another file"""
        occ = {}
        for p in code_files():
            for k, x in enumerate(proj["contents"][fs[p]][1]):
                if x[0] in ("B", "BI", "BN"):
                    occ.setdefault(x[1] % len(oc.PY_BODIES), []).append((p, k))
        return [(p, k) for lst in occ.values() if len({q for q, _ in lst}) >= 2 for p, k in lst if oc.lang_of(paths[p]) == "py"]

    templates = r.random()
    if templates < 0.07:                                   # lint, change the ignore file, new Linter, lint again
        hist += [[r.choice(["ApiDir", "LintDir"]), 0]] + ignore_edit() + [["ApiDir", 0]]
    elif templates < 0.14:                                 # lint, change the configuration, new Linter, lint again
        hist += [[r.choice(["ApiDir", "LintDir"]), 0]] + config_change() + [["ApiDir", 0]]
    elif templates < 0.2 and len(code_files()) >= 2:       # delete between two directory runs
        victim = r.choice(code_files())
        hist += [["ApiDir", 0], ["Delete", victim], ["ApiDir", 0]]
        del fs[victim]
    elif templates < 0.3 and len(code_files()) >= 2:      # single-file call, then a batch elsewhere
        a, b = r.sample(code_files(), 2)
        hist += [[r.choice(["LintFile", "ApiFile"]), a], ["LintFiles", [b]]]
    elif 0.42 <= templates < 0.5 and flip_candidates():   # an inline suppression comment of a duplicated body is removed / added between two runs
        fc = flip_candidates()
        rem = [(p, k) for p, k in fc if proj["contents"][fs[p]][1][k][0] != "B"]     # removal of a comment: twice as likely as addition
        p, k = r.choice(rem if rem and r.random() < 0.67 else fc)
        items = [list(x) for x in proj["contents"][fs[p]][1]]
        items[k][0] = "B" if items[k][0] != "B" else r.choice(["BI", "BN"])
        proj["contents"].append([paths[p], items])
        fs[p] = len(proj["contents"]) - 1
        hist += [[r.choice(["ApiDir", "LintDir"]), 0], ["Edit", p, fs[p]], [r.choice(["ApiDir", "LintDir"]), 0]]
    elif templates < 0.42 and len(code_files()) >= 3:     # the same file list in several orders (every participant first once)
        cf = code_files()
        for k in range(min(3, len(cf))):
            ps = list(cf)
            r.shuffle(ps)
            first = cf[(k * 7 + len(cf) // 2) % len(cf)]
            ps.remove(first)
            hist.append(["LintFiles", [first] + ps])
    while len(hist) < n_ops:
        x = r.random()
        cf = code_files()
        if x < 0.16 and cf:
            hist.append(["LintFile", r.choice(cf + sorted(special)) if r.random() < 0.9 else r.randrange(len(paths))])
        elif x < 0.36 and cf:
            k = r.randint(1, min(6, len(fs)))
            ps = r.sample(sorted(fs), k)
            if r.random() < 0.08:
                ps.append(r.randrange(len(paths)))
            r.shuffle(ps)
            hist.append(["LintFiles", ps])
        elif x < 0.50:
            hist.append(["LintDir", pick_dir()])
        elif x < 0.60 and cf:
            hist.append(["ApiFile", r.choice(cf) if r.random() < 0.9 else r.randrange(len(paths))])
        elif x < 0.72:
            hist.append(["ApiDir", pick_dir()])
        elif x < 0.84 and cf:
            p = r.choice(cf)
            c = new_content(p, fs[p])
            hist.append(["Edit", p, c])
            fs[p] = c
        elif x < 0.91 and len(cf) > 1:
            p = r.choice(cf)
            hist.append(["Delete", p])
            del fs[p]
        elif x < 0.955:
            y = r.random()
            if y < 0.45:
                hist += ignore_edit()
            elif y < 0.85:
                hist += config_change()
            else:
                hist.append(["NewLinter"])
        else:
            gone = [i for i in range(len(paths)) if i not in fs and i not in special]
            if gone:
                p = r.choice(gone)
                c = new_content(p)
                hist.append(["Add", p, c])
                fs[p] = c
    if not any(o[0] in LINT_KINDS for o in hist[-2:]):
        hist.append(["ApiDir", 0])
    return hist


def gen_cases(seed: int, n: int, max_ops: int) -> list:
    cases = []
    for i in range(n):
        r = rng_for(seed, PROP, i)
        proj = oc.gen_project(r)
        hist = gen_history(r, proj, r.randint(3, max_ops))
        cases.append({"i": i, "proj": proj, "history": hist})
    return cases


def _add_ignore_path(case: dict) -> None:
    """insert the (absent) ignore file into the sorted path universe of a case recorded before it was mandatory"""
    proj = case["proj"]
    old = proj["paths"]
    new = sorted(old + [oc.IGNORE_NAME])
    ren = {i: new.index(p) for i, p in enumerate(old)}
    proj["paths"] = new
    proj["fs0"] = {str(ren[int(k)]): v for k, v in proj["fs0"].items()}

    def fix(op):
        k = op[0]
        if k in ("LintFile", "ApiFile", "Delete"):
            return [k, ren[op[1]]]
        if k == "LintFiles":
            return [k, [ren[p] for p in op[1]]]
        if k in ("Edit", "Add"):
            return [k, ren[op[1]], op[2]]
        return op
    case["history"] = [fix(o) for o in case["history"]]


def corpus_cases() -> list:
    out = []
    for p in sorted((VERIF / "corpus" / PROP).glob("*.json")):
        c = json.loads(p.read_text())
        out.append({"i": "corpus:" + p.stem, "proj": c["proj"], "history": c["history"]})
    return out


# ------------------------------------------------------------------ implementation
def _apply_fs(root: Path, proj: dict, fs: dict, op: list) -> None:
    k = op[0]
    f = root / proj["paths"][op[1]]
    if k == "Edit":
        if op[1] in fs:
            f.write_text(oc.content_text(proj, op[2]))
            fs[op[1]] = op[2]
    elif k == "Delete":
        if op[1] in fs:
            f.unlink()
            del fs[op[1]]
    elif k == "Add":
        f.parent.mkdir(parents=True, exist_ok=True)
        f.write_text(oc.content_text(proj, op[2]))
        fs[op[1]] = op[2]


def _call(lin, root: Path, proj: dict, op: list):
    k = op[0]
    if k == "LintFile":
        return lin.orchestrator.lint_file(root / proj["paths"][op[1]])
    if k == "LintFiles":
        return lin.orchestrator.lint_files([root / proj["paths"][p] for p in op[1]])
    if k == "LintDir":
        return lin.orchestrator.lint_directory(root / proj["dirs"][op[1]] if proj["dirs"][op[1]] else root)
    if k == "ApiFile":
        return lin.lint(str(root / proj["paths"][op[1]]))
    if k == "ApiDir":
        return lin.lint(root / proj["dirs"][op[1]] if proj["dirs"][op[1]] else root)
    raise ValueError(k)


_iso_counter = [0]


def _fresh_call(root: Path, proj: dict, op: list, prepare=None) -> list:
    """the call on a Linter built as in a fresh process, released before returning.  'Fresh process' is approximated in
    this process by (i) dropping the ignore-parser singleton (put back afterwards for the object under test) and (ii) running
    on a COPY of the project under a directory never used before, so that no process-wide table keyed by project root or by
    path (class attributes, module dictionaries) can carry anything over from earlier objects"""
    import shutil
    _iso_counter[0] += 1
    iso = root.parent / f"iso{_iso_counter[0]}" / "proj"
    shutil.copytree(root, iso, symlinks=True)
    if prepare is not None:
        prepare(iso)
    cwd = os.getcwd()
    try:
        with oc.ProcessStateGuard():
            os.chdir(iso)
            fl = oc.fresh_linter(iso)
            try:
                return [oc.canon_violation(v, iso) for v in _call(fl, iso, proj, op)]
            finally:
                del fl
    finally:
        os.chdir(cwd)
        shutil.rmtree(iso.parent, ignore_errors=True)


def _perfile_call(root: Path, proj: dict, p: int, cfg_cid) -> list:
    """what the rules' check() returns for this file when it IS linted under configuration version cfg_cid: measured on a
    fresh object, on a project copy whose ignore file is moved out of the way (whether a path is ignored is a separate
    parameter of the model) and whose configuration file holds that version"""
    def prepare(iso: Path):
        ig = iso / oc.IGNORE_NAME
        if ig.exists() and proj["paths"][p] != oc.IGNORE_NAME:
            ig.unlink()
        if cfg_cid is not None:
            (iso / oc.CONFIG_NAME).write_text(oc.content_text(proj, cfg_cid))
    return _fresh_call(root, proj, ["LintFile", p], prepare)


def run_impl(case: dict) -> dict:
    """the history on one long-lived Linter; after each lint call the same call on a fresh Linter"""
    ensure_repo_on_path()
    install_failure_tap()
    proj = case["proj"]
    res = {"ops": [], "impl": [], "fresh": [], "pf": [], "fp": [], "side": [], "tmp_left": [], "failures": [], "error": None}
    old_tmp = tempfile.tempdir
    old_cwd = os.getcwd()
    with scratch_dir("tv-c08-") as d:
        root, tmp = d / "proj", d / "tmp"
        root.mkdir()
        tmp.mkdir()
        tempfile.tempdir = str(tmp)
        try:
            os.chdir(root)      # a long-lived process working in its project root (editor plug-in, daemon)
            fs = {int(k): v for k, v in proj["fs0"].items()}
            oc.write_project(root, proj, fs)
            res["hard"], res["ign"] = oc.path_flags(root, proj)
            lin = oc.fresh_linter(root)
            measured = set()
            cfgp = proj["paths"].index(oc.CONFIG_NAME)
            seen_cfgs = []
            for si, op in enumerate(case["history"]):
                if op[0] in OBJECT_OPS:
                    if op[0] == "NewLinter":
                        del lin
                        lin = oc.same_process_linter(root)   # nothing is cleared: what a long-lived process does
                    else:
                        # the embedding reloads the configuration file into the live object
                        lin.config = lin.config_loader.load(root / oc.CONFIG_NAME)
                        lin.orchestrator.config = lin.config
                    res["ops"].append(op)
                    res["impl"].append([])
                    res["fresh"].append([])
                    continue
                if op[0] not in LINT_KINDS:
                    _apply_fs(root, proj, fs, op)
                    res["ops"].append(op)
                    res["impl"].append([])
                    res["fresh"].append([])
                    continue
                op = list(op)
                if op[0] in ("LintDir", "ApiDir"):
                    op = [op[0], op[1], oc.os_listing(root, proj["dirs"][op[1]], proj)]
                res["ops"].append(op)
                s0, t0 = oc.snapshot(root), oc.snapshot(tmp)
                used = [oc.canon_violation(v, root) for v in _call(lin, root, proj, op)]
                s1, t1 = oc.snapshot(root), oc.snapshot(tmp)
                for x in oc.snapshot_diff(s0, s1):
                    res["side"].append([si, "project: " + x])
                for x in oc.snapshot_diff(t0, t1):
                    res["tmp_left"].append([si, x])
                res["impl"].append(used)
                res["fresh"].append(_fresh_call(root, proj, op))
                # per-file tables: every file version the call may have looked at, measured on a fresh object
                look = []
                if op[0] in ("LintFile", "ApiFile"):
                    look = [op[1]]
                elif op[0] == "LintFiles":
                    look = op[1]
                else:
                    look = [p for p in op[2] if oc.in_dir(proj["dirs"][op[1]], proj["paths"][p])]
                if fs.get(cfgp) not in seen_cfgs:
                    seen_cfgs.append(fs.get(cfgp))
                for p in look:
                    # per-file tables for this file version under every configuration the object has held so far
                    # (DRYRule / FilePlacementRule may still be using an earlier one)
                    for kc in seen_cfgs:
                        key = (p, fs.get(p), kc)
                        if key in measured:
                            continue
                        measured.add(key)
                        vs = _perfile_call(root, proj, p, kc)
                        # a path without a file is still judged (file-placement looks at the path alone): one row per configuration
                        ver = oc.absent_version(kc) if fs.get(p) is None else oc.enc_version(fs[p], kc)
                        res["pf"].append([p, ver, [v for v in vs if not str(v[0]).startswith("file-placement")]])
                        res["fp"].append([p, ver, [v for v in vs if str(v[0]).startswith("file-placement")]])
            del lin
            import gc
            gc.collect()
            left = sorted(oc.snapshot(tmp))
            if left:
                res["side"].append([len(case["history"]), "TMPDIR not empty after the Linter object was released: " + ", ".join(left[:5])])
            res["failures"] = drain_failures()
        except Exception as e:  # noqa: BLE001
            import traceback
            res["error"] = f"{type(e).__name__}: {e}\n{traceback.format_exc()[-1500:]}"
        finally:
            tempfile.tempdir = old_tmp
            os.chdir(old_cwd)
    return res


def measure_queries(job) -> list:
    """job = (proj, [(kind, n_pending, report_cfg_key, [(pid, version), ...]), ...]) -> canonical violations per query.
    version = enc content configuration; report_cfg_key = 0 (none) or content id of the configuration file version + 1."""
    proj, queries = job
    ensure_repo_on_path()
    install_failure_tap()
    out = []
    mproj = json.loads(json.dumps(proj))
    force = mproj.get("_force_config")
    with scratch_dir("tv-c08-m-") as d, oc.AnalyzeMemo():
        root = d / "m" / "proj"
        root.mkdir(parents=True)
        oc.write_project(root, mproj, {kk: v for kk, v in mproj["fs0"].items() if mproj["paths"][int(kk)] in (oc.CONFIG_NAME, oc.IGNORE_NAME)})
        # every configuration-file version, loaded the way the implementation loads it (in a directory of its own)
        cfg_dicts = {}
        for cid, e in enumerate(mproj["contents"]):
            if e[0] != oc.CONFIG_NAME:
                continue
            cd = d / f"cfg{cid}" / "proj"
            cd.mkdir(parents=True)
            dct = json.loads(json.dumps(force if force is not None else oc.config_of_cid(mproj, cid)))
            dct.setdefault("dry", {"enabled": False})["storage_mode"] = "memory"   # the report does not depend on where SQLite keeps its rows
            import yaml
            (cd / oc.CONFIG_NAME).write_text(yaml.safe_dump(dct, sort_keys=True))
            cfg_dicts[cid] = dict(oc.fresh_linter(cd).orchestrator.config)
        for kind, npend, rkey, ev in queries:
            try:
                triples = [(pid,) + oc.dec_version(ver) for pid, ver in ev]
                out.append(oc.measure_report(root, mproj, kind, triples, npend, (rkey - 1) if rkey else None, cfg_dicts))
            except Exception as e:  # noqa: BLE001
                out.append({"error": f"{type(e).__name__}: {e}"})
    drain_failures()
    return out


# ------------------------------------------------------------------ Coq side
def _coq_ctx(case, impl) -> str:
    proj = case["proj"]
    return (f"{oc.coq_nat_list(impl['hard'])} {oc.coq_ign(impl['ign'])} {proj['paths'].index(oc.IGNORE_NAME)} "
            f"{proj['paths'].index(oc.CONFIG_NAME)} {oc.coq_dirs(proj)}")


def _hist(ops) -> str:
    return "[" + "; ".join(oc.coq_op(o) for o in ops) + "]"


def phase_queries(cases, impls, wd: Path, per_shard=12, th=None):
    lines = []
    for case, impl in zip(cases, impls):
        ops = impl["ops"]
        lines.append(f"Eval vm_compute in (queries08 {_coq_ctx(case, impl)} orch_actual {oc.coq_fs(case['proj']['fs0'])} "
                     f"{_hist(ops)} {_hist([oc.canon_op(o) for o in ops])}).")
    shards = ["\n".join(lines[s:s + per_shard]) for s in range(0, len(lines), per_shard)]
    outs = oc.eval_shards(th, wd / "q", HEADER, shards)
    flat = [x for o in outs for x in o]
    if len(flat) != len(cases):
        raise RuntimeError(f"expected {len(cases)} query lists, got {len(flat)}")
    res = []
    for q in flat:
        seen, lst = set(), []
        for enc in q:
            key = tuple(enc)
            if key in seen:
                continue
            seen.add(key)
            lst.append((enc[0], enc[1], enc[2], [(enc[i], enc[i + 1]) for i in range(3, len(enc), 2)]))
        res.append(lst)
    return res


def phase_judge(cases, impls, queries, measured, wd: Path, per_shard=8, th=None):
    lines, idmaps = [], []
    for case, impl, qs, ms in zip(cases, impls, queries, measured):
        ids = oc.Ids()
        pf_tbl = "[" + "; ".join(f"({p}, {coq.coq_option(c)}, {oc.coq_N_list(ids.many(vs))})" for p, c, vs in impl["pf"]) + "]"
        pf_tbl += " [" + "; ".join(f"({p}, {coq.coq_option(c)}, {oc.coq_N_list(ids.many(vs))})" for p, c, vs in impl["fp"]) + "]"
        rows = []
        for (kind, npend, rkey, ev), m in zip(qs, ms):
            if isinstance(m, dict):
                continue   # unmeasurable query: the lookup yields the sentinel
            key = [kind, npend, rkey] + [x for pc in ev for x in pc]
            rows.append(f"({oc.coq_nat_list(key)}, {oc.coq_N_list(ids.many(m))})")
        rep_tbl = "[" + "; ".join(rows) + "]"
        imp = "[" + "; ".join(oc.coq_N_list(ids.many(s)) for s in impl["impl"]) + "]"
        fre = "[" + "; ".join(oc.coq_N_list(ids.many(s)) for s in impl["fresh"]) + "]"
        ops = impl["ops"]
        lines.append(f"Eval vm_compute in (judge08 {_coq_ctx(case, impl)} {pf_tbl} {rep_tbl} orch_actual {oc.coq_fs(case['proj']['fs0'])} "
                     f"{_hist(ops)} {_hist([oc.canon_op(o) for o in ops])} {imp} {fre}).")
        idmaps.append(ids)
    shards = ["\n".join(lines[s:s + per_shard]) for s in range(0, len(lines), per_shard)]
    outs = oc.eval_shards(th, wd / "j", HEADER, shards)
    flat = [x for o in outs for x in o]
    if len(flat) != len(cases):
        raise RuntimeError(f"expected {len(cases)} verdicts, got {len(flat)}")
    return flat


# ------------------------------------------------------------------ CLI level: hash seeds, argument order, side effects
def _cli_project(seed: int, i: int, storage: str, big: bool = False):
    r = rng_for(seed, PROP, "cli", i)
    proj = oc.gen_project(r, n_files=(5, 8), with_skips=False, plant=0.85)
    proj["config"]["dry"]["storage_mode"] = storage
    if big:
        # --parallel falls back to the sequential path below 2 x workers files: make the process pool actually run
        extra = [f"extra/u{k:02d}.py" for k in range(14)]
        old = proj["paths"]
        proj["paths"] = sorted(set(old + extra))
        proj["fs0"] = {str(proj["paths"].index(old[int(k)])): v for k, v in proj["fs0"].items()}
        for k, p in enumerate(extra):
            proj["contents"].append([p, [["B", k % 3, f"u{k}"], ["C", k % 2, f"u{k}"], ["U", 0, f"u{k}"]]])
            proj["fs0"][str(proj["paths"].index(p))] = len(proj["contents"]) - 1
        proj["dirs"] = sorted(set(proj["dirs"]) | {"extra"})
    return proj


def cli_job(job) -> dict:
    """one CLI scenario in its own scratch project: returns observations"""
    kind, proj, args, variants = job
    out = {"kind": kind, "args": args, "runs": [], "side": []}
    with scratch_dir("tv-c08-cli-") as d:
        root, tmp, home = d / "proj", d / "tmp", d / "home"
        for x in (root, tmp, home):
            x.mkdir()
        oc.write_project(root, proj, proj["fs0"])
        for v in variants:
            argv = list(args) + list(v.get("paths", ["."]))
            s0, t0, h0 = oc.snapshot(root), oc.snapshot(tmp), oc.snapshot(home)
            rc, so, se = run_cli(argv, cwd=root, home=home, env_extra={"TMPDIR": str(tmp), **v.get("env", {})}, timeout=180)
            s1, t1, h1 = oc.snapshot(root), oc.snapshot(tmp), oc.snapshot(home)
            for tag, a, b in (("project", s0, s1), ("TMPDIR", t0, t1), ("HOME", h0, h1)):
                for x in oc.snapshot_diff(a, b):
                    out["side"].append({"argv": argv, "env": v.get("env", {}), "what": f"{tag}: {x}"})
            vs = parse_json_violations(so)
            out["runs"].append({"argv": argv, "env": v.get("env", {}), "rc": rc,
                                "violations": None if vs is None else sorted(oc.canon_dict_violation(x, root, root) for x in vs),
                                "stderr": se[-300:] if rc not in (0, 1) else ""})
    return out


CONST_REFS_RE = re.compile(r"Also found in: .*?(?= Consider consolidating| These appear to represent)")


def _strip_const_refs(vs):
    return sorted(tuple(CONST_REFS_RE.sub("Also found in: <refs>", x) if isinstance(x, str) else x for x in v) for v in vs)


def cli_jobs(seed: int, tier: str) -> list:
    jobs = []
    n_seed = 2 if tier == "quick" else 12
    seeds = ["0", "1", "42", "random"] if tier == "quick" else [str(x) for x in range(10)] + ["4294967295", "random", "random"]
    for i in range(n_seed):
        proj = _cli_project(seed, i, "memory")
        for cmd in (["dry"], ["stringly-typed"], ["magic-numbers"], ["nesting"]) if tier != "quick" else (["dry"], ["stringly-typed"]):
            jobs.append(("hashseed", proj, ["--config", oc.CONFIG_NAME, *cmd, "--format", "json"],
                         [{"env": {"PYTHONHASHSEED": s}} for s in (seeds if cmd[0] in ("dry", "stringly-typed") else seeds[:3])]))
    for i in range(4 if tier == "quick" else 20):
        proj = _cli_project(seed, 100 + i, "memory")
        r = rng_for(seed, PROP, "cliperm", i)
        files = [p for pid, p in enumerate(proj["paths"]) if str(pid) in proj["fs0"] and p not in (oc.CONFIG_NAME, oc.IGNORE_NAME)]
        vars_ = [{"paths": sorted(files)}]
        for _ in range(2):
            sh = list(files)
            r.shuffle(sh)
            vars_.append({"paths": sh})
        jobs.append(("argorder", proj, ["--config", oc.CONFIG_NAME, r.choice(["dry", "dry", "stringly-typed"]), "--format", "json"], vars_))
    cmds = CLI_COMMANDS if tier != "quick" else None
    k = 0
    for storage in ("memory", "tempfile"):
        for par in (False, True):
            lst = cmds or (["dry", "stringly-typed", "file-placement", "magic-numbers", "nesting", "srp"] if not par else ["dry", "stringly-typed", "nesting"])
            proj = _cli_project(seed, 200 + k, storage, big=par)
            k += 1
            for cmd in lst:
                args = ["--config", oc.CONFIG_NAME, cmd, "--format", "json"] + (["--parallel"] if par else [])
                jobs.append(("sidefx", proj, args, [{"paths": ["."]}]))
    return jobs


def judge_cli(chk: Check, obs: dict):
    chk.dist("cli:" + obs["kind"], len(obs["runs"]))
    for s in obs["side"]:
        chk.violation({"reason": "a CLI lint run changed the file system: " + s["what"], "case": {"argv": s["argv"], "env": s["env"]}})
    bad = [r for r in obs["runs"] if r["violations"] is None or r["rc"] not in (0, 1)]
    for r in bad:
        chk.violation({"reason": f"CLI run failed (rc={r['rc']}): {r['stderr']}", "case": {"argv": r["argv"], "env": r["env"]}})
    if bad or len(obs["runs"]) < 2:
        return
    base = obs["runs"][0]
    for r in obs["runs"][1:]:
        if r["violations"] == base["violations"] and r["rc"] == base["rc"]:
            continue
        case = {"kind": obs["kind"], "argv_a": base["argv"], "env_a": base["env"], "argv_b": r["argv"], "env_b": r["env"],
                "only_a": [v for v in base["violations"] if v not in r["violations"]][:4],
                "only_b": [v for v in r["violations"] if v not in base["violations"]][:4]}
        if obs["kind"] == "argorder" and r["rc"] == base["rc"] and _strip_const_refs(r["violations"]) == _strip_const_refs(base["violations"]):
            chk.known_finding("q_consts_in_processing_order", case)
        else:
            chk.violation({"reason": ("results depend on PYTHONHASHSEED" if obs["kind"] == "hashseed" else "results depend on the order of the path arguments"),
                           "case": case})


# ------------------------------------------------------------------ hash seeds through the library API (separate interpreter processes)
HS_SEEDS = {"quick": ["0", "1", "7", "random"],
            "thorough": ["0", "1", "2", "3", "7", "42", "4294967295", "random"]}
HS_CHUNK = 6


def hashseed_cases(seed: int, n: int) -> list:
    """planted projects (cross-file groups with >= 3 files / >= 6 sites) and, for the explicit-list call, a shuffled file order"""
    out = []
    for i in range(n):
        r = rng_for(seed, PROP, "hs", i)
        proj = oc.gen_project(r, n_files=(5, 9), with_skips=(i % 3 == 0), plant=0.85)
        files = [p for pid, p in enumerate(proj["paths"]) if str(pid) in proj["fs0"] and p not in (oc.CONFIG_NAME, oc.IGNORE_NAME)]
        r.shuffle(files)
        out.append({"i": i, "proj": proj, "order": files})
    return out


def hashseed_job(job) -> dict:
    """one interpreter process under PYTHONHASHSEED = hs linting a chunk of projects (harness/props/c08_hashseed.py)"""
    import subprocess
    cases, hs = job
    with scratch_dir("tv-c08-hs-") as d:
        for c in cases:
            pd = d / f"p{int(c['i']):04d}"
            root = pd / "proj"
            root.mkdir(parents=True)
            oc.write_project(root, c["proj"], c["proj"]["fs0"])
            (pd / "order.json").write_text(json.dumps(c["order"]))
        home, tmp = d / "home", d / "tmp"
        home.mkdir()
        tmp.mkdir()
        env = clean_env(home)
        env.update({"PYTHONPATH": f"{REPO}:{VERIF}", "PYTHONHASHSEED": hs, "TMPDIR": str(tmp)})
        try:
            p = subprocess.run([PY, "-P", "-m", "harness.props.c08_hashseed", str(d)], cwd=str(d), env=env, capture_output=True, timeout=1200)
            rc, so, se = p.returncode, p.stdout.decode("utf-8", "replace"), p.stderr.decode("utf-8", "replace")
        except subprocess.TimeoutExpired:
            rc, so, se = 124, "", "TIMEOUT"
        try:
            doc = json.loads(so)
        except json.JSONDecodeError:
            doc = None
        return {"hs": hs, "rc": rc, "projects": (doc or {}).get("projects"), "stderr": se[-400:], "ids": [f"p{int(c['i']):04d}" for c in cases]}


def hashseed_jobs(cases: list, tier: str) -> list:
    return [(cases[k:k + HS_CHUNK], hs) for k in range(0, len(cases), HS_CHUNK) for hs in HS_SEEDS["quick" if tier == "quick" else "thorough"]]


def _max_refs(vs) -> int:
    """largest number of cross-references in one message (', '-separated after 'Also ...: ')"""
    best = 0
    for v in vs or []:
        m = re.search(r"Also (?:found|called|compared) in: (.*)", str(v[4]))
        if m:
            best = max(best, m.group(1).count(", ") + 1)
    return best


def judge_hashseed(chk: Check, cases: list, jobs: list, results: list):
    by_chunk: dict = {}
    for (chunk, hs), res in zip(jobs, results):
        by_chunk.setdefault(tuple(str(c["i"]) for c in chunk), [chunk, []])[1].append(res)
    for chunk, runs in by_chunk.values():
        for c in chunk:
            pid = f"p{int(c['i']):04d}"
            payload = {"hashseed_case": {"i": c["i"], "proj": c["proj"], "order": c["order"]}}
            obs = []
            for res in runs:
                rec = (res["projects"] or {}).get(pid)
                if rec is None or rec.get("error") or res["rc"] != 0:
                    chk.violation({"reason": f"linting under PYTHONHASHSEED={res['hs']} failed (rc={res['rc']}): " + str((rec or {}).get("error") or res["stderr"])[:300],
                                   "case": payload})
                    continue
                obs.append((res["hs"], rec))
            chk.dist("hashseed_api_projects")
            for fam, nf, ns in c["proj"].get("planted", []):
                chk.dist(f"planted:{fam}:files{'>=3' if nf >= 3 else '<3'}:sites{'>=6' if ns >= 6 else '<6'}")
            if obs:
                chk.dist("max_cross_refs_in_one_message:%s" % min(_max_refs(obs[0][1]["dir"]), 6))
            chk.count(["hs", c["proj"]["paths"], c["proj"]["contents"], c["order"]],
                      bool(obs) and any(oc.kind_of(v[0], v[4]) is not None for v in obs[0][1]["dir"]))
            for hs, rec in obs[1:]:
                chk.traces_validated += 1
                for mode in ("dir", "files"):
                    a, b = obs[0][1][mode], rec[mode]
                    if a != b:
                        chk.violation({"reason": "results depend on PYTHONHASHSEED (library API, separate interpreter processes): the multisets of violations differ",
                                       "mode": mode, "hashseed_a": obs[0][0], "hashseed_b": hs,
                                       "only_a": [v for v in a if v not in b][:4], "only_b": [v for v in b if v not in a][:4], "case": payload})
                        break


# ------------------------------------------------------------------ grouping of near-equal constant names (modelled: Model/OrchConsts.v)
HEADER_C = "From TL Require Import Lib.Base Model.OrchConsts.\n"
CG_FILES = ["a.py", "b.py", "pkg/c.py", "pkg/d.py", "lib/p.py", "web/f.ts"]


def constgroup_cases(seed: int, n: int) -> list:
    """constant definitions (file, name, line) whose names come from 1-3 random walks of small edits (equal names, near-equal
    names, chains whose ends are not near, word permutations, antonym swaps), and several orders in which they reach the rule:
    every definition first once, the reverse, random ones; all orders when there are at most 4 definitions"""
    import itertools
    out = []
    for i in range(n):
        r = rng_for(seed, PROP, "cg", i)
        names = []
        for _ in range(r.choice([1, 1, 2, 3])):
            for nm in oc.name_walk(r, r.choice(oc.CONST_BASES), r.randint(1, 5)):
                if nm not in names:
                    names.append(nm)
        names = names[:8]
        r.shuffle(names)
        sites = [[r.choice(CG_FILES), nm, k + 2] for k, nm in enumerate(names)]
        for _ in range(r.choice([0, 0, 1, 2])):          # the same name again in another file (an exact duplicate)
            sites.append([r.choice(CG_FILES), r.choice(names), len(sites) + 2])
        idx = list(range(len(sites)))
        if len(sites) <= 4:
            orders = [list(pm) for pm in itertools.permutations(idx)]
        else:
            orders = [idx, idx[::-1]]
            for k in idx:
                rest = [j for j in idx if j != k]
                r.shuffle(rest)
                orders.append([k] + rest)
            orders = orders[:10]
        out.append({"i": i, "sites": sites, "orders": orders})
    return out


def run_constgroup_case(case: dict) -> dict:
    res = {"error": None, "names": [], "pairs": [], "asym": [], "runs": []}
    try:
        ensure_repo_on_path()
        from src.linters.dry.constant import ConstantInfo
        from src.linters.dry import constant_matcher as cm
        names = sorted({s_[1] for s_ in case["sites"]})
        ix = {nm: k for k, nm in enumerate(names)}
        res["names"] = names
        for a in names:
            for b in names:
                if a < b:
                    ab, ba = bool(cm._is_fuzzy_match(a, b)), bool(cm._is_fuzzy_match(b, a))
                    if ab != ba:
                        res["asym"].append([a, b])
                    if ab or ba:
                        res["pairs"].append([ix[a], ix[b]])
        for order in case["orders"]:
            consts = [(Path(case["sites"][k][0]), ConstantInfo(name=case["sites"][k][1], line_number=case["sites"][k][2], value="1")) for k in order]
            groups = cm.find_constant_groups(consts)
            first = []
            for k in order:
                if ix[case["sites"][k][1]] not in first:
                    first.append(ix[case["sites"][k][1]])
            impl = []
            for g in groups:
                ms = []
                for loc in g.locations:
                    if ix[loc.name] not in ms:
                        ms.append(ix[loc.name])
                impl.append([ix[g.canonical_name], ms, bool(g.is_fuzzy_match), sorted(g.all_names), g.file_count, len(g.locations)])
            res["runs"].append({"names_in_order": first, "groups": impl})
    except Exception as e:  # noqa: BLE001
        import traceback
        res["error"] = f"{type(e).__name__}: {e}\n{traceback.format_exc()[-600:]}"
    return res


def phase_constgroups(ccases, cres, wd: Path, th=None):
    lines, owners = [], []
    for ci, (case, res) in enumerate(zip(ccases, cres)):
        if res["error"]:
            continue
        tbl = "[" + "; ".join(f"({a}, {b})" for a, b in res["pairs"]) + "]"
        for oi, run_ in enumerate(res["runs"]):
            impl = "[" + "; ".join(f"({g[0]}, {oc.coq_nat_list(g[1])})" for g in run_["groups"]) + "]"
            fz = "[" + "; ".join("true" if g[2] else "false" for g in run_["groups"]) + "]"
            lines.append(f"Eval vm_compute in (judge_consts {tbl} {oc.coq_nat_list(run_['names_in_order'])} {impl} {fz}).")
            owners.append((ci, oi))
    if not lines:
        return {}
    shards = ["\n".join(lines[k:k + 60]) for k in range(0, len(lines), 60)]
    outs = oc.eval_shards(th, wd / "cg", HEADER_C, shards)
    flat = [x for o in outs for x in o]
    if len(flat) != len(lines):
        raise RuntimeError(f"expected {len(lines)} constant-group verdicts, got {len(flat)}")
    return dict(zip(owners, flat))


def judge_constgroups(chk: Check, ccases, cres, verdicts):
    for ci, (case, res) in enumerate(zip(ccases, cres)):
        payload = {"constgroup_case": case}
        if res["error"]:
            chk.broken.append("Corr:the constant-grouping stream cannot call find_constant_groups / _is_fuzzy_match: " + res["error"][:300])
            chk.violation({"reason": "the constant-grouping functions could not be run: " + res["error"][:300], "case": payload})
            continue
        sizes = sorted((len(g[1]) for g in res["runs"][0]["groups"]), reverse=True)
        chk.count(["cg", case["sites"], case["orders"]], bool(sizes) and sizes[0] >= 2)
        chk.dist("constgroups:largest_group_names:%d" % min(sizes[0] if sizes else 0, 5))
        chk.dist("constgroups:orders", len(res["runs"]))
        if res["asym"]:
            chk.violation({"reason": "the name-match predicate is not symmetric (hypothesis of C08_constant_grouping_order_independent): " + str(res["asym"][:3]), "case": payload})
            continue
        part0 = sorted(sorted(g[1]) for g in res["runs"][0]["groups"])
        obs0 = sorted((sorted(g[1]), g[2], g[3], g[4], g[5]) for g in res["runs"][0]["groups"])
        for oi, run_ in enumerate(res["runs"]):
            chk.traces_validated += 1
            part = sorted(sorted(g[1]) for g in run_["groups"])
            obs = sorted((sorted(g[1]), g[2], g[3], g[4], g[5]) for g in run_["groups"])
            info = {"names": res["names"], "order_a": case["orders"][0], "order_b": case["orders"][oi],
                    "groups_a": res["runs"][0]["groups"], "groups_b": run_["groups"], "case": payload}
            if part != part0 or obs != obs0:
                chk.violation({"reason": "the groups of near-equal constants (members / fuzzy flag / names / file count) depend on the order in which the definitions reach the rule", **info})
                break
            ver = verdicts.get((ci, oi))
            if ver is None:
                continue
            bits = [bool(b) for b in ver]
            if not bits[2]:
                chk.broken.append("Model:the modelled partition is not the set of connected components on a generated input (contradicts C08_constant_groups_are_match_components)")
            if not (bits[0] and bits[1]):
                chk.violation({"reason": "find_constant_groups does not return the groups of the model (Model/OrchConsts.v: roots, group order, member order, fuzzy flags)",
                               "groups_equal": bits[0], "fuzzy_flags_equal": bits[1], **info})
                break


# ------------------------------------------------------------------ suppression comments changed between runs (validated, not modelled)
DIR_KEY = "st_ignore_content_cache_stale"
DIRECTIVES = ["# thailint: ignore-file[stringly-typed]\n", "# thailint: ignore-file\n", "# thailint: ignore-file[dry]\n"]


def directive_cases(seed: int, n: int) -> list:
    """small projects whose files share a stringly-typed pattern and a duplicate block; between the runs of one long-lived
    Linter a file-level suppression comment is added to / removed from one file"""
    out = []
    for i in range(n):
        r = rng_for(seed, PROP, "directive", i)
        names = r.sample(["a.py", "b.py", "pkg/c.py", "pkg/d.py"], r.randint(2, 3))
        sv, bv = r.randrange(len(oc.PY_STRINGLY)), r.randrange(len(oc.PY_BODIES))
        files = {nm: '"""m."""\n\n' + oc.PY_STRINGLY[sv].format(n=f"f{j}") + "\n\n" + oc.PY_BODIES[bv].format(n=f"f{j}") for j, nm in enumerate(names)}
        steps = []
        has = {nm: None for nm in names}
        if r.random() < 0.5:                       # start with a suppressed file
            nm = r.choice(names)
            has[nm] = r.choice(DIRECTIVES)
        init = dict(has)
        for _ in range(r.randint(2, 4)):
            nm = r.choice(names)
            has[nm] = None if has[nm] else r.choice(DIRECTIVES)
            steps.append([nm, has[nm]])
        out.append({"i": i, "files": files, "init": init, "steps": steps})
    return out


def run_directive_case(case: dict) -> dict:
    ensure_repo_on_path()
    install_failure_tap()
    res = {"runs": [], "error": None}
    old_cwd = os.getcwd()
    proj = {"paths": []}
    with scratch_dir("tv-c08-d-") as d:
        root = d / "proj"
        root.mkdir()
        try:
            (root / oc.CONFIG_NAME).write_text("dry:\n  enabled: true\n  min_duplicate_lines: 3\n  min_duplicate_tokens: 10\n")
            cur = dict(case["init"])

            def write(nm):
                f = root / nm
                f.parent.mkdir(parents=True, exist_ok=True)
                f.write_text((cur[nm] or "") + case["files"][nm])
            for nm in case["files"]:
                write(nm)
            os.chdir(root)
            lin = oc.fresh_linter(root)
            for k in range(len(case["steps"]) + 1):
                if k:
                    nm, dr = case["steps"][k - 1]
                    cur[nm] = dr
                    write(nm)
                used = sorted(oc.canon_violation(v, root) for v in lin.lint(root))

                def call(fl, iso, _proj, _op):
                    return fl.lint(iso)
                import shutil
                iso = d / f"iso{k}" / "proj"
                shutil.copytree(root, iso)
                with oc.ProcessStateGuard():
                    os.chdir(iso)
                    fl = oc.fresh_linter(iso)
                    fresh = sorted(oc.canon_violation(v, iso) for v in fl.lint(iso))
                    del fl
                os.chdir(root)
                res["runs"].append({"used": used, "fresh": fresh, "state": dict(cur)})
            res["failures"] = drain_failures()
        except Exception as e:  # noqa: BLE001
            import traceback
            res["error"] = f"{type(e).__name__}: {e}\n{traceback.format_exc()[-1000:]}"
        finally:
            os.chdir(old_cwd)
    return res


def judge_directive(chk: Check, case: dict, res: dict):
    if res["error"]:
        chk.violation({"reason": "the implementation raised in a suppression-comment scenario: " + res["error"][:400], "case": {"directive_case": case}})
        return
    changed = set()
    for k, run_ in enumerate(res["runs"]):
        if k:
            changed.add(case["steps"][k - 1][0])
        chk.traces_validated += 1
        if run_["used"] == run_["fresh"]:
            continue
        diff = [v for v in run_["used"] if v not in run_["fresh"]] + [v for v in run_["fresh"] if v not in run_["used"]]
        info = {"step": k, "state": run_["state"], "used_only": [v for v in run_["used"] if v not in run_["fresh"]][:4],
                "fresh_only": [v for v in run_["fresh"] if v not in run_["used"]][:4]}
        # the listed defect: only stringly-typed findings differ, only in (or pointing at) runs after a suppression comment of a
        # file changed on an object whose stringly-typed IgnoreChecker had read that file before
        if k and changed and all(str(v[0]).startswith("stringly-typed") for v in diff):
            chk.known_finding(DIR_KEY, {**info, "files": sorted(case["files"]), "steps": case["steps"], "init": case["init"]})
        else:
            chk.violation({"reason": "a used Linter and a fresh one disagree after a suppression comment changed, outside the listed stringly-typed ignore-cache defect",
                           **info, "case": {"directive_case": case}})


# ------------------------------------------------------------------ decision
def run(tier: str, seed: int, replay: str | None = None) -> int:
    chk = Check(PROP, tier, seed)
    # known.d/C08.json is the source of the listed findings (tools/mkmanifest.py assembles known_findings.json from it)
    kd = VERIF / "known.d" / f"{PROP}.json"
    if kd.exists():
        for f in json.loads(kd.read_text()).get("findings", []):
            if f.get("property") == PROP and f.get("status") == "known":
                chk.known["known"][f["key"]] = f
                chk.known["fixed"].pop(f["key"], None)
            elif f.get("property") == PROP and str(f.get("status", "")).startswith("fixed"):
                chk.known["fixed"][f["key"]] = f     # a fixed entry suppresses nothing: observed again = violation
                chk.known["known"].pop(f["key"], None)
    chk.rule = ("seeded multi-language projects (3-14 files in nested directories, Python/TypeScript/JavaScript/Rust, hard-excluded and "
                ".thailintignore'd paths) with EVERY registered rule running; files are built from snippets that trigger the cross-file rules "
                "(shared blocks, constants, string sets, `# dry: ignore-...` comments), from the documented examples of every linter "
                "(docs/*-linter.md) and from snippets that interact by name across files (the same identifier is a module alias / a string "
                "accumulator / a class in one file and something else in another); histories of 3-12 operations "
                "(Orchestrator.lint_file / lint_files / lint_directory, Linter.lint on a file or directory, edit, delete, add, a change of "
                ".thailintignore followed by the construction of a new Linter in the same process, working directory = project root) "
                "on one long-lived Linter, each lint call repeated on a Linter built as in a fresh process; per-file tables are measured on "
                "fresh single-file runs, so a rule that carries state from one file to the next is reported; a history is non-trivial when some lint call follows "
                "an earlier lint call and reports at least one cross-file finding on either object; distinct = distinct (project, history); "
                "projects carry cross-file plants (for every cross-file rule a finding group with >= 3 participating files and >= 6 sites: families of "
                "equal / near-equal constant names built by random walks of small edits, call sites of one function with string literals, scattered "
                "comparisons, membership tests, duplicate bodies) and some histories lint the same file list in several orders; "
                "plus (stream hashseed_api) planted projects linted through the library API in separate interpreter processes under several "
                "PYTHONHASHSEED values (directory walk and an explicit file list in a shuffled order; the multisets of violations including messages must "
                "be equal); (stream constgroups) families of constant names handed to find_constant_groups in up to 24 orders, compared with the Coq model "
                "of the grouping and with one another (non-trivial: some group has two names); "
                "plus CLI runs under several PYTHONHASHSEED values, with permuted path arguments, and file-system snapshots around "
                "every linter command (sequential/parallel, both DRY storage modes)")
    chk.trusted_base += [
        "rule behaviour is a PARAMETER of the model: per-file results per file version and cross-file reports per evidence list are measured from the implementation (fresh objects) and handed to the model as tables; that per-file rules are functions of (path, content, config) is validated by the correspondence, not proved",
        "order independence is proved under the hypothesis that the duplicate-code and stringly-typed reports are permutation-invariant in their evidence (SQL ORDER BY in the source, text checked by the generated layer); the hypothesis is validated on every run (specification measured on sorted evidence, implementation in processing order)",
        "freedom from side effects on the project tree / TMPDIR / HOME is a runtime observation (snapshots around every in-process call and CLI run), not a theorem; the model's file-system component being untouched by lint operations is proved",
        "independence of PYTHONHASHSEED is observed, not proved (the model has no hash values): separate interpreter processes under several seeds (library API on planted projects, CLI runs of dry / stringly-typed) must return equal multisets of violations",
        "the name-match predicate of the duplicate-constant grouping (_is_fuzzy_match: word sets, antonym pairs, Levenshtein distance) is a parameter of Model/OrchConsts.v: measured per generated pair, its symmetry (hypothesis of the grouping theorems) is checked on every pair; the union-find is modelled by the table name -> root that find() returns (path compression never changes a root)",
        "os.walk order is an oracle: each directory call carries the listing observed at that moment",
        "suppression comments: generated Python files carry `# dry: ignore-block` / `# dry: ignore-next` comments, whose per-run lifetime in DRYRule is modelled (rows that outlive a run lose their ranges: measured with the comments neutralised); `thailint:` directives and the caches behind them (stringly-typed IgnoreChecker._file_content_cache, has_file_ignore reading the disk) are outside the model and absent from generated files",
        "configuration is read when an object is built: histories change .thailintignore only right before building a new Linter (hist_synced, a hypothesis of the theorems); histories also change .thailint.yaml (other file-placement rules or none, other thresholds / language blocks) right before building a new Linter in the same process: to the model this is a re-versioning of every file (a content id stands for (text, configuration read at construction)) followed by NewLinter, so rule behaviour stays a function of (path, version); a 'fresh object' is one built in a fresh process, approximated in-process by dropping the ignore-parser singleton (put back for the object under test) and by running baseline and measurement objects on a copy of the project under a directory never used before (so that tables keyed by project root or path cannot carry anything over); the process works in its project root (with another working directory the rule constructors re-key the singleton and the stale-parser defect is masked)",
        "cross-file reports of files under directories that histories add to / remove from .thailintignore are kept empty by construction (the reports filter by the patterns current at finalize time, which the measured report tables do not carry)",
        "single-shot report measurements memoise the DRY FileAnalyzer.analyze function per (path, content) inside the measuring worker process (harness-side wrapper, nothing under /repo is touched) and use storage_mode memory",
    ]
    import time as _t
    t0 = _t.time()
    phases = chk.extra_cov.setdefault("phase_seconds", {})
    chk.build(["theories/Props/C08.v"], ["OrchHistGen"], known_v=["theories/Props/C08Known.v"])
    phases["build"] = round(_t.time() - t0, 1)
    scale = chk.budget_scale()
    n = (70 if tier == "quick" else 1000) * scale
    dcases = directive_cases(seed, 14 if tier == "quick" else 150)
    n = min(n, int(os.environ.get("VERIF_CASES_CAP", n)))   # self-test runs on mutated copies use a smaller budget
    max_ops = 12 if tier == "quick" else 16
    hcases = hashseed_cases(seed, 12 if tier == "quick" else 60)
    ccases = constgroup_cases(seed, (60 if tier == "quick" else 600) * scale)
    skip = set(filter(None, os.environ.get("VERIF_C08_SKIP", "").split(",")))   # self-test trials of history mutations only: skip the slow side streams
    if "hs" in skip:
        hcases = []
    if "cg" in skip:
        ccases = []
    if skip:
        chk.notes.append("streams skipped on request (VERIF_C08_SKIP, self-test trials only): " + ",".join(sorted(skip)))
    if replay:
        hcases, ccases = [], []
        rc = json.loads(Path(replay).read_text())["violation"].get("case", {})
        if "constgroup_case" in rc:
            cases, cjobs, dcases, ccases = [], [], [], [rc["constgroup_case"]]
        elif "hashseed_case" in rc:
            cases, cjobs, dcases, hcases = [], [], [], [rc["hashseed_case"]]
        elif "directive_case" in rc:
            cases, cjobs, dcases = [], [], [rc["directive_case"]]
        elif "proj" in rc:
            cases, cjobs = [{"i": "replay", "proj": rc["proj"], "history": rc["history"]}], []
        else:   # a command-line level observation: re-run the command-line scenarios
            cases, cjobs = [], cli_jobs(seed, tier)
    else:
        cases = corpus_cases() + gen_cases(seed, n, max_ops)
        cjobs = [] if "cli" in skip else cli_jobs(seed, tier)
    for c in cases:     # older corpus / replay files: the ignore file is always part of the path universe
        if oc.IGNORE_NAME not in c["proj"]["paths"]:
            _add_ignore_path(c)
    t1 = _t.time()
    impls = pool_map(run_impl, cases, procs=oc.PROCS)
    phases["histories_on_implementation"] = round(_t.time() - t1, 1)
    dres = pool_map(run_directive_case, dcases, procs=oc.PROCS) if dcases else []
    t1 = _t.time()
    cli_obs = pool_map(cli_job, cjobs, procs=oc.PROCS, chunks=1) if cjobs else []
    phases["cli_runs"] = round(_t.time() - t1, 1)
    t1 = _t.time()
    hjobs = hashseed_jobs(hcases, tier)
    hres = pool_map(hashseed_job, hjobs, procs=oc.PROCS, chunks=1) if hjobs else []
    phases["hashseed_api_runs"] = round(_t.time() - t1, 1)
    cres = [run_constgroup_case(c) for c in ccases]
    cverdicts = {}
    ok_idx = [i for i, im in enumerate(impls) if not im["error"]]
    for i, im in enumerate(impls):
        if im["error"]:
            chk.violation({"reason": "the implementation raised during a history: " + im["error"][:600], "case": {"proj": cases[i]["proj"], "history": cases[i]["history"]}})
    verdicts = {}
    with scratch_dir("tv-c08-coq-") as wd:
        try:
            sub_c, sub_i = [cases[i] for i in ok_idx], [impls[i] for i in ok_idx]
            t1 = _t.time()
            th = oc.model_theories(chk, wd)
            if th is False:
                raise RuntimeError("no executable model")
            queries = phase_queries(sub_c, sub_i, wd, th=th)
            phases["coq_queries"] = round(_t.time() - t1, 1)
            t1 = _t.time()
            measured = pool_map(measure_queries, [(c["proj"], q) for c, q in zip(sub_c, queries)], procs=oc.PROCS)
            phases["report_measurements"] = round(_t.time() - t1, 1)
            t1 = _t.time()
            vs = phase_judge(sub_c, sub_i, queries, measured, wd, th=th)
            phases["coq_judge"] = round(_t.time() - t1, 1)
            verdicts = dict(zip(ok_idx, vs))
            t1 = _t.time()
            cverdicts = phase_constgroups(ccases, cres, wd, th=th)
            phases["coq_constgroups"] = round(_t.time() - t1, 1)
            unmeasurable = sum(1 for ms in measured for m in ms if isinstance(m, dict))
            if unmeasurable:
                chk.notes.append(f"{unmeasurable} report queries could not be measured on fresh rule objects")
        except RuntimeError as e:
            if str(e) != "no executable model":
                chk.broken.append(f"Model:evaluation of the orchestrator model failed ({str(e)[:400]})")
    cands_all = None
    names = ["actual"] + [f"actual without {f}" for f in FLAGS] + ["all C08 flags off"]
    for i, (case, impl) in enumerate(zip(cases, impls)):
        if impl["error"]:
            continue
        ops = impl["ops"]
        lint_steps = [k for k, o in enumerate(ops) if o[0] in LINT_KINDS]
        cross = any(oc.kind_of(v[0], v[4]) is not None for k in lint_steps[1:] for v in impl["impl"][k] + impl["fresh"][k])
        chk.count([case["proj"]["paths"], case["proj"]["contents"], case["history"]], len(lint_steps) >= 2 and cross)
        chk.dist("ops_per_history:%d" % len(ops))
        for o in ops:
            chk.dist("op:" + o[0])
        chk.dist("storage:" + case["proj"]["config"]["dry"]["storage_mode"])
        for fam, nf, ns in case["proj"].get("planted", []):
            chk.dist(f"planted:{fam}:files{'>=3' if nf >= 3 else '<3'}:sites{'>=6' if ns >= 6 else '<6'}")
        chk.sample({"paths": case["proj"]["paths"], "history": case["history"],
                    "last_call_used_vs_fresh": [len(impl["impl"][lint_steps[-1]]), len(impl["fresh"][lint_steps[-1]])] if lint_steps else None}, 3)
        payload = {"proj": case["proj"], "history": case["history"]}
        if impl["failures"]:
            chk.violation({"reason": "a rule failed internally (swallowed exception) during the history", "failures": impl["failures"][:3], "case": payload})
            continue
        for si, what in impl["side"]:
            chk.violation({"reason": f"lint call {si} had a side effect: {what}", "case": payload})
        tempfile_mode = case["proj"]["config"]["dry"]["storage_mode"] == "tempfile"
        own_tmp = set()
        for si, what in impl["tmp_left"]:
            m_own = re.fullmatch(r"(created|modified|deleted) (tmp[^/]*\.db(?:-journal)?)", what)
            if m_own and m_own.group(1) == "created":
                own_tmp.add(m_own.group(2))
            if m_own and m_own.group(1) == "deleted" and m_own.group(2) in own_tmp:
                continue   # the object removes a temporary database it created in an earlier call: cleanup, not a side effect
            if tempfile_mode and re.fullmatch(r"(created|modified) tmp[^/]*\.db(-journal)?", what):
                # the DRY tempfile database outlives the call: after a finalizing call because the storage survives
                # finalize(), after a bare single-file call because its evidence is left pending
                bare = ops[si][0] in ("LintFile", "ApiFile")
                chk.known_finding("q_lintfile_leaves_evidence" if bare else "q_dry_keeps_storage",
                                  {"observed": f"after call {si} ({ops[si][0]}): TMPDIR {what}", "history": case["history"], "paths": case["proj"]["paths"]})
            else:
                chk.violation({"reason": f"lint call {si} left something in TMPDIR: {what}", "case": payload})
        ver = verdicts.get(i)
        if ver is None:
            # the model could not be evaluated (a generated item or proof broke): plain differential oracle on what every
            # quirk vector agrees on - the per-file findings of the used and of the fresh object
            for k in lint_steps:
                a = sorted((v for v in impl["impl"][k] if oc.kind_of(v[0], v[4]) is None), key=repr)
                b = sorted((v for v in impl["fresh"][k] if oc.kind_of(v[0], v[4]) is None), key=repr)
                if a != b:
                    chk.violation({"reason": "per-file findings of a used object differ from those of a fresh object (model not evaluated)", "step": k, "op": ops[k],
                                   "used_only": [v for v in a if v not in b][:4], "fresh_only": [v for v in b if v not in a][:4], "case": payload})
                    break
            continue
        if len(ver) != len(ops):
            chk.broken.append(f"Model:judge returned {len(ver)} rows for {len(ops)} operations")
            continue
        for k in lint_steps:
            bits = [bool(b) for b in ver[k]]
            spec_ok, fresh_corr, ideal_ok, cand = bits[0], bits[1], bits[2], bits[3:]
            chk.traces_validated += 1
            cands_all = cand if cands_all is None else [a and b for a, b in zip(cands_all, cand)]
            oracle_same = sorted(impl["impl"][k], key=repr) == sorted(impl["fresh"][k], key=repr)
            info = {"step": k, "op": ops[k], "used_only": [v for v in impl["impl"][k] if v not in impl["fresh"][k]][:4],
                    "fresh_only": [v for v in impl["fresh"][k] if v not in impl["impl"][k]][:4], "case": payload}
            if not fresh_corr:
                chk.violation({"reason": "a FRESH object does not return what the model of a fresh object returns (per-file union + single-shot reports)", **info})
                continue
            if spec_ok:
                if not oracle_same:
                    chk.violation({"reason": "used and fresh object differ although the result equals the specification (inconsistent oracle)", **info})
                continue
            relevant = [FLAGS[j] for j in range(len(FLAGS)) if not cand[1 + j]]
            if cand[0] and ideal_ok and not relevant:
                relevant = list(FLAGS)
            if cand[0] and ideal_ok:
                for f in relevant:
                    chk.known_finding(f, {"step": k, "op": ops[k], "used_only": info["used_only"], "fresh_only": info["fresh_only"],
                                          "history": case["history"], "paths": case["proj"]["paths"]})
            else:
                chk.violation({"reason": "result of a call on a used object differs from the specification (fresh object, canonical order) and the listed defects do not explain it",
                               "model_actual_matches_impl": cand[0], "model_ideal_matches_spec": ideal_ok, **info})
    for dc, dr in zip(dcases, dres):
        chk.count(["directive", dc["files"], dc["init"], dc["steps"]], not dr["error"] and any(r_["used"] for r_ in dr["runs"]))
        chk.dist("directive_scenarios")
        judge_directive(chk, dc, dr)
    judge_constgroups(chk, ccases, cres, cverdicts)
    judge_hashseed(chk, hcases, hjobs, hres)
    for obs in cli_obs:
        chk.count(["cli", obs["kind"], obs["args"], [r["argv"] for r in obs["runs"]], [r["env"] for r in obs["runs"]]],
                  any(r["violations"] for r in obs["runs"]))
        judge_cli(chk, obs)
    if cands_all is not None and not cands_all[0]:
        alt = [j for j, ok in enumerate(cands_all) if ok]
        if alt:
            chk.notes.append("implementation no longer matches the claimed quirk vector but matches: " + names[alt[0]] +
                             " (a listed defect is no longer observed; the theorems hold for every vector)")
        elif not chk.violations:
            chk.correspondence_broken({"level": "observable", "detail": "Model/OrchHist.v under Actual/OrchHistActual.v disagrees with the implementation and no candidate quirk vector matches all cases"})
    return chk.finish()
