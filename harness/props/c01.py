"""C01 — nesting: exact depth, off-by-one boundary, cross-language agreement."""
from __future__ import annotations

import json
import re
from pathlib import Path

from harness import coq, skel
from harness.common import (drain_failures, make_orchestrator, parse_json_violations, pool_map, rng_for, run_cli,
                            scratch_dir)
from harness.framework import Check

PROP = "C01"
FLAGS = ["q_py_start_from_code", "q_py_table_from_code", "q_ts_elseif_nests", "q_rs_elseif_nests", "q_rs_table_from_code",
         "q_ts_fn_types_from_code"]
LANG_FLAGS = {"Py": FLAGS[0:1], "Ts": FLAGS[5:6], "Rs": []}  # flags still claimed for the current tree
LANGS = ["python", "typescript", "javascript", "rust"]


class Renderer(skel.Renderer):
    """the shared renderer plus the two TS/JS function forms only C01 generates: a function expression bound to a
    constant and a generator function declaration"""

    def n_ts(self, n, level):
        if skel.kind_name(n) == "Fn" and n[0][1] in ("FFnExpr", "FGen"):
            fk, name = n[0][1], n[0][2]
            col = self.unit * level
            if fk == "FFnExpr":
                head = f"const {name} = "
                self.emit(level, head + "function () {")
                col += len(head)
            else:
                self.emit(level, f"function* {name}() {{")
            n[0][3], n[0][4] = len(self.lines), col
            self.body(n[1], level + 1)
            self.emit(level, "};" if fk == "FFnExpr" else "}")
            return
        super().n_ts(n, level)


def render(lang, items, **kw):
    return Renderer(lang, **kw).render(items)


class BoundedGen(skel.Gen):
    """the shared generator with a node budget per top-level function / method: at depth 12 (thorough tier) its
    branching makes megabyte files whose lint + judging takes minutes each; children are generated depth first, left
    to right, so the budget keeps a deepest path of full depth and cuts the width.  Not used up to depth 8."""
    budget = 150

    def fn(self, depth, nested=False, method=False):
        if not nested:
            self._left = self.budget
        return super().fn(depth, nested=nested, method=method)

    def stmt(self, depth):
        self._left = getattr(self, "_left", self.budget) - 1
        if self._left <= 0:
            return ["Simple", []]
        return super().stmt(depth)


def _lang_ok(lang, items):
    import copy
    plain = copy.deepcopy(items)

    def strip(nodes):
        bad = False
        for n in nodes:
            if skel.is_fn(n) and n[0][1] in ("FFnExpr", "FGen"):
                bad = bad or lang not in ("ts", "js")
                n[0][1] = "FDef"
            bad = strip(n[1]) or bad
        return bad
    if strip(plain):
        return False
    return skel.lang_ok(lang, plain)


def _sprinkle_fn_forms(nodes, r, p=0.15):
    """TS/JS: some plain function declarations become function expressions / generator functions"""
    for n in nodes:
        if skel.is_fn(n) and n[0][1] in ("FDef", "FAsyncDef") and r.random() < p:
            n[0][1] = r.choice(["FFnExpr", "FFnExpr", "FGen"])
        _sprinkle_fn_forms(n[1], r, p)

HEADER = "From TL Require Import Lib.Base Model.Skel Model.Nesting Model.NestingDisc Model.NestingRun Actual.NestingActual.\n"
MSG_RE = re.compile(r"^Function '(.*)' has excessive nesting depth \((\d+)\)$", re.S)


def gen_cases(seed: int, n_files: int, max_depth: int, cli_cap: int = 10 ** 9):
    cases = []
    n_cli = 0
    Gen = skel.Gen if max_depth <= 8 else BoundedGen
    for i in range(n_files):
        r = rng_for(seed, PROP, i)
        mode = r.choice(["common", "common", "py", "ts", "rs", "js"])
        lk = "ts" if mode == "js" else mode
        if mode == "common":
            g = Gen(r, skel.COMMON, ["FDef"], max_depth=max_depth, else_single_if_ok=r.random() < 0.3)
            langs = ["py", "ts", "js", "rs"]
        else:
            g = Gen(r, skel.LANG_KINDS[lk], skel.LANG_FKINDS[lk], max_depth=max_depth,
                         else_single_if_ok=(lk != "py"), curried=(lk == "ts"), nobrace=(lk == "ts"))
            if lk == "ts":
                g.max_handlers = 1
            langs = [mode]
        items = g.file()
        if lk == "ts":
            _one_catch(items)
            _sprinkle_fn_forms(items, r)
        group = []
        for lang in langs:
            if not _lang_ok(lang, items):
                continue
            text, placed = render(lang, items, top_offset=r.choice([0, 0, 1, 3]))
            dmax = max([skel.doc_depth(f[1]) for f in skel.functions_of(placed)], default=1)
            c = {"i": i, "mode": mode, "lang": lang, "items": placed, "text": text,
                 "limits": list(range(1, dmax + 3)), "dmax": dmax,
                 "via": "cli" if r.random() < 0.04 else "api", "cli_seed": r.randint(0, 10 ** 9)}
            if c["via"] == "cli":   # subprocess runs cost seconds each: an enlarged budget goes to in-process cases
                n_cli += 1
                if n_cli > cli_cap:
                    c["via"] = "api"
            cases.append(c)
            group.append(c)
        if mode == "common" and len(group) >= 3 and r.random() < 0.5:
            # one project, one Orchestrator run over all languages, documented per-language overrides
            # (nesting.<language>.max_nesting_depth) next to a global limit
            dmax = max(c["dmax"] for c in group)
            cfg = {"max_nesting_depth": r.randint(1, dmax + 2)}
            for lang in group:
                if r.random() < 0.6:
                    cfg[LANG_NAME[lang["lang"]]] = {"max_nesting_depth": r.randint(1, dmax + 2)}
            order = list(range(len(group)))
            r.shuffle(order)
            cases.append({"i": i, "mode": "project", "via": "project", "members": group, "config": {"nesting": cfg},
                          "order": order, "lang": "project", "dmax": dmax})
    return cases


LANG_NAME = {"py": "python", "ts": "typescript", "js": "javascript", "rs": "rust"}


def effective_limit(cfg: dict, lang: str) -> int:
    """documented meaning of the nesting section: a language block overrides the global limit for that language"""
    sec = cfg["nesting"]
    return sec.get(LANG_NAME[lang], {}).get("max_nesting_depth", sec["max_nesting_depth"])


def run_project(case):
    with scratch_dir("tv-c01p-") as d:
        files = []
        for k, m in enumerate(case["members"]):
            f = d / (f"m{k}" + skel.EXT[m["lang"]])
            f.write_text(m["text"])
            files.append(f)
        orch = make_orchestrator(d, case["config"])
        vs = orch.lint_files([files[k] for k in case["order"]])
        by_file = {str(f): [] for f in files}
        for v in vs:
            by_file.setdefault(str(v.file_path), []).append({"rule_id": v.rule_id, "line": v.line, "column": v.column, "message": v.message})
        return {"members": [_parse(by_file[str(f)]) for f in files], "failures": drain_failures()}


def expand_projects(cases, impls):
    """a project run becomes one ordinary judged case per member file, at that language's effective limit"""
    out_c, out_i = [], []
    for c, im in zip(cases, impls):
        if c.get("via") != "project":
            out_c.append(c)
            out_i.append(im)
            continue
        for m, runs in zip(c["members"], im["members"]):
            lim = effective_limit(c["config"], m["lang"])
            out_c.append({**m, "limits": [lim], "via": "project", "mode": "project", "project_config": c["config"]})
            out_i.append({"runs": [runs], "failures": im["failures"]})
    return out_c, out_i


def _one_catch(nodes):
    """JavaScript allows a single catch clause: keep the first handler only"""
    for n in nodes:
        if skel.kind_name(n) == "Try":
            seen = False
            keep = []
            for c in n[1]:
                if skel.kind_name(c) == "Handler":
                    if seen:
                        continue
                    seen = True
                keep.append(c)
            if not any(skel.kind_name(c) in ("Handler", "Finally") for c in keep):
                keep.append(["Finally", [["Simple", []]]])
            n[1] = keep
        _one_catch(n[1])


def _parse(vs):
    out = []
    for v in vs:
        if not str(v["rule_id"]).startswith("nesting"):
            continue
        m = MSG_RE.match(v["message"])
        if not m:
            out.append([v["line"], v["column"], "<unparsed:" + v["message"][:40] + ">", 0])
        else:
            out.append([v["line"], v["column"], m.group(1), int(m.group(2))])
    return sorted(out)


_orch = None


def run_impl(case):
    """implementation output for every limit: list of sorted [line, col, name, depth]"""
    global _orch
    if case.get("via") == "project":
        return run_project(case)
    with scratch_dir("tv-c01-") as d:
        f = d / ("case" + skel.EXT[case["lang"]])
        f.write_text(case["text"])
        res = []
        if case["via"] == "cli":
            import random as _random
            rr = _random.Random(case.get("cli_seed", 0))
            for lim in case["limits"]:
                args = cli_args(case, lim, d, rr) + [str(f)]
                rc, so, se = run_cli(args, cwd=d)
                for _ in range(2):          # an overloaded machine (timeout / killed child) is not a verdict: run again, patiently
                    if rc in (0, 1):
                        break
                    rc, so, se = run_cli(args, cwd=d, timeout=400)
                vs = parse_json_violations(so)
                if vs is None or rc not in (0, 1):
                    res.append({"error": f"rc={rc} stdout={so[:200]} stderr={se[-300:]}"})
                else:
                    res.append(_parse(vs))
            return {"runs": res, "failures": []}
        if _orch is None:
            _orch = make_orchestrator(d, {})
        _orch.project_root = d
        for lim in case["limits"]:
            _orch.config = {"nesting": {"max_nesting_depth": lim}}
            vs = _orch.lint_file(f)
            res.append(_parse([{"rule_id": v.rule_id, "line": v.line, "column": v.column, "message": v.message} for v in vs]))
        return {"runs": res, "failures": drain_failures()}


def cli_args(case, lim, d, rr):
    """three ways of asking for the limit `lim` on the command line, all meaning `lim` by the documented precedence:
    --max-depth alone; --max-depth over a configuration whose top-level key and language blocks say otherwise;
    a configuration alone whose block for this file's language (or, without such a block, top-level key) says lim"""
    mode = rr.choice(["flag", "flag+config", "config"])
    if mode == "flag":
        return ["nesting", "--format", "json", "--max-depth", str(lim)]
    me = LANG_NAME[case["lang"]]
    other = lambda: rr.choice([x for x in range(1, case["dmax"] + 4) if x != lim])  # noqa: E731
    sec = {}
    if mode == "flag+config":
        sec["max_nesting_depth"] = other()
        for l in LANGS:
            if rr.random() < 0.6:
                sec[l] = {"max_nesting_depth": other()} if rr.random() < 0.8 else {}
    else:
        own_block = rr.random() < 0.6
        if own_block:
            sec[me] = {"max_nesting_depth": lim}
            if rr.random() < 0.7:
                sec["max_nesting_depth"] = other()
        else:
            sec["max_nesting_depth"] = lim
            if rr.random() < 0.3:
                sec[me] = {}
        for l in LANGS:
            if l != me and rr.random() < 0.5:
                sec[l] = {"max_nesting_depth": other()}
    cfg = d / f"cfg{lim}.json"
    cfg.write_text(json.dumps({"nesting": sec}))
    args = ["nesting", "--format", "json", "--config", str(cfg)]
    if mode == "flag+config":
        args += ["--max-depth", str(lim)]
    return args


# ---------------------------------------------------------------- the limit chain at unit level
def gen_limit_cases(seed, n):
    out = []
    for i in range(n):
        r = rng_for(seed, PROP + "-limit", i)
        top = r.choice([None, r.randint(1, 9)])
        blocks = [(l, r.choice([None, r.randint(1, 9), r.randint(1, 9)])) for l in r.sample(LANGS, r.randint(0, 4))]
        out.append({"top": top, "blocks": blocks, "cli": r.choice([None, None, r.randint(1, 9)]), "language": r.choice(LANGS)})
    return out


def run_limit_cases(cases):
    """what limit the rule object resolves: --max-depth override applied to the orchestrator configuration
    (structure_quality._apply_nesting_config_override), then NestingDepthRule._load_config on a context of the
    language (one rule object for the whole stream, as in a real run)"""
    from src.cli.linters.structure_quality import _apply_nesting_config_override
    from src.linters.nesting.linter import NestingDepthRule

    class _Orch:
        def __init__(self, config):
            self.config = config

    class _Ctx:
        def __init__(self, metadata, language):
            self.metadata, self.language, self.file_path, self.file_content = metadata, language, None, ""
    rule = NestingDepthRule()
    out = []
    from loguru import logger as _logger
    _logger.disable("src.cli.linters.structure_quality")
    for c in cases:
        sec = {}
        if c["top"] is not None:
            sec["max_nesting_depth"] = c["top"]
        for l, v in c["blocks"]:
            sec[l] = {} if v is None else {"max_nesting_depth": v}
        orch = _Orch({"nesting": sec} if (sec or c["top"] is not None or c["blocks"]) else {})
        try:
            _apply_nesting_config_override(orch, c["cli"], False)
            out.append(int(rule._load_config(_Ctx(orch.config, c["language"])).max_nesting_depth))
        except Exception as e:  # noqa: BLE001
            out.append(f"{type(e).__name__}: {e}")
    _logger.enable("src.cli.linters.structure_quality")
    return out


def coq_limit_case(c, got) -> str:
    blocks = coq.coq_list([f"({coq.coq_string(l)}, {coq.coq_option(v)})" for l, v in c["blocks"]])
    return (f"judge_limit {{| s_top := {coq.coq_option(c['top'])}; s_langs := {blocks} |}} {coq.coq_option(c['cli'])} "
            f"{coq.coq_string(c['language'])} {got}")


def check_limits(chk, seed, n, wd, cases=None):
    cases = cases if cases is not None else gen_limit_cases(seed, n)
    gots = run_limit_cases(cases)
    evals, idx = [], []
    for j, (c, g) in enumerate(zip(cases, gots)):
        chk.dist("limit:cli" if c["cli"] is not None else ("limit:block" if any(l == c["language"] and v is not None for l, v in c["blocks"]) else "limit:top-or-default"))
        if not isinstance(g, int):
            chk.violation({"reason": "resolving the nesting limit raised", "detail": g, "case": c, "stream": "limit"})
            continue
        evals.append(f"Eval vm_compute in ({coq_limit_case(c, g)}).")
        idx.append(j)
    shards = ["\n".join(evals[s:s + 200]) for s in range(0, len(evals), 200)]
    try:
        outs = eval_shards(wd / "limit", shards)
    except RuntimeError as e:
        chk.broken.append(f"Model:evaluation of the limit model failed ({str(e)[:300]})")
        return
    flat = [o for out in outs for o in out]
    if len(flat) != len(idx):
        chk.broken.append(f"Model:limit stream returned {len(flat)} results for {len(idx)} cases")
        return
    chk.traces_validated += len(flat)
    for j, bits in zip(idx, flat):
        impl_ok, model_ok, same = [bool(b) for b in bits]
        if not impl_ok:
            chk.violation({"reason": "the limit applied to a file is not the one the documented precedence gives "
                                     "(command line > language block > top-level key > default)",
                           "stream": "limit", "case": cases[j], "impl_limit": gots[j], "model_matches_impl": same,
                           "model_matches_documented": model_ok})
        elif not same:
            chk.correspondence_broken({"level": "limit chain", "detail": "Model/NestingDisc.v effective_limit disagrees with the implementation", "case": cases[j], "impl_limit": gots[j]})


MODEL_FILES = ["Lib/Base.v", "Lib/GenTypes.v", "Gen/NestingGen.v", "Model/Skel.v", "Model/Nesting.v", "Model/NestingDisc.v",
               "Model/NestingRun.v", "Actual/NestingActual.v"]
_FALLBACK_TH = None


def fallback_theories(workdir: Path):
    """When the generated layer / the model no longer builds (a source idiom changed shape; the obligations are already
    recorded as broken) the SEARCH for a concrete failing input still needs an executable model: a scratch copy of the
    model compiled against the last recorded generated layer coq/Gen.expected/NestingGen.v.txt.  Never used when the
    real layer builds."""
    import shutil
    import subprocess
    snap = coq.COQ / "Gen.expected" / "NestingGen.v.txt"
    if not snap.exists():
        return None
    th = workdir / "theories"
    for rel in MODEL_FILES:
        dst = th / rel
        dst.parent.mkdir(parents=True, exist_ok=True)
        shutil.copy(snap if rel == "Gen/NestingGen.v" else coq.TH / rel, dst)
    for rel in MODEL_FILES:
        p = subprocess.run(["timeout", "300", "coqc", "-Q", str(th), "TL", "-w", "-notation-overridden", str(th / rel)],
                           capture_output=True, text=True, cwd=str(th))
        if p.returncode != 0:
            return None
    return th


def eval_shards(workdir: Path, shards):
    if _FALLBACK_TH is None:
        return coq.eval_shards(workdir, HEADER, shards)
    import subprocess
    from concurrent.futures import ThreadPoolExecutor
    workdir.mkdir(parents=True, exist_ok=True)
    paths = []
    for i, body in enumerate(shards):
        p = workdir / f"cases_{i}.v"
        p.write_text(HEADER + "\n" + body + "\n")
        paths.append(p)

    def one(p):
        r = subprocess.run(["timeout", "600", "coqc", "-Q", str(_FALLBACK_TH), "TL", "-w", "-notation-overridden,-abstract-large-number", str(p)],
                           capture_output=True, text=True, cwd=str(p.parent))
        if r.returncode != 0:
            raise RuntimeError(f"coqc failed on {p.name}: {r.stderr[-800:]}")
        return coq.parse_nat_lists(r.stdout)
    with ThreadPoolExecutor(max_workers=6) as ex:
        return list(ex.map(one, paths))


def coq_case(case, impl) -> str:
    runs = []
    for lim, r in zip(case["limits"], impl["runs"]):
        if isinstance(r, dict):   # a failed CLI run: reported as such by the decision loop, judged here as an empty report
            r = []
        reps = coq.coq_list([f"({l}, {c}, {coq.coq_string(n)}, {d})" for l, c, n, d in r])
        runs.append(f"({lim}, {reps})")
    return f"judge nesting_actual {skel.COQ_LANG[case['lang']]} {skel.coq_file(case['items'])} {coq.coq_list(runs)}"


def judge(cases, impls, workdir: Path, per_shard=40):
    shards, index = [], []
    for s in range(0, len(cases), per_shard):
        chunk = list(range(s, min(len(cases), s + per_shard)))
        body = "\n".join(f"Eval vm_compute in ({coq_case(cases[j], impls[j])})." for j in chunk)
        shards.append(body)
        index.append(chunk)
    outs = eval_shards(workdir / "cases", shards)
    verdicts = [None] * len(cases)
    for chunk, out in zip(index, outs):
        if len(out) != len(chunk):
            raise RuntimeError(f"expected {len(chunk)} results, got {len(out)}")
        for j, o in zip(chunk, out):
            verdicts[j] = o
    return verdicts


def run(tier: str, seed: int, replay: str | None = None) -> int:
    chk = Check(PROP, tier, seed)
    own = Path(__file__).resolve().parent.parent.parent / "known.d" / f"{PROP}.json"
    if own.exists():  # known.d/C01.json is this check's own list; known_findings.json is assembled from it by tools/mkmanifest.py
        for f in json.loads(own.read_text()).get("findings", []):
            if f.get("property") == PROP:
                chk.known["known" if f.get("status") == "known" else "fixed"][f["key"]] = f
                if f.get("status") == "known":
                    chk.known["fixed"].pop(f["key"], None)
                else:
                    chk.known["known"].pop(f["key"], None)
    chk.rule = ("seeded random control-flow skeleton files (1-4 top-level functions/classes, depth 0..max, every construct kind of the "
                "language, nested functions, methods, arrow functions) rendered to .py/.ts/.js/.rs and linted under every limit "
                "1..doc_depth+2 (in-process Orchestrator, a fraction through the CLI); a case (file, language) is non-trivial when some "
                "function has documented depth >= 2, i.e. limits on both sides of the boundary are exercised; distinct = distinct (skeleton, language)")
    chk.trusted_base.append("to_py/to_ts/to_rs and their tagged versions to_pyd/to_tsd (Model/Nesting.v, Model/NestingDisc.v): the statement-level shape of the parse tree of rendered skeletons, and the name / header position a function node carries, are a parser oracle, validated by this correspondence")
    chk.rule += ("; limit stream: random nesting sections (top-level key present or not, 0-4 language blocks with or without a key), optional --max-depth, a language; "
                 "the limit the rule object resolves is compared with the documented precedence and with the Gallina model of from_dict + the override")
    chk.build(["theories/Props/C01.v"], ["NestingGen"], known_v=["theories/Props/C01Known.v"])
    scale = chk.budget_scale()
    n_files = (140 if tier == "quick" else 1500) * scale
    max_depth = 7 if tier == "quick" else 12
    if replay:
        viol = json.loads(Path(replay).read_text())["violation"]
        if viol.get("stream") == "limit":
            with scratch_dir("tv-c01-coq-") as wd:
                check_limits(chk, seed, 1, wd, cases=[viol["case"]])
            return chk.finish()
        cases = [viol["case"]]
    else:
        cases = corpus_cases() + gen_cases(seed, n_files, max_depth, cli_cap=(16 if tier == "quick" else 60))
    impls = pool_map(run_impl, cases)
    cases, impls = expand_projects(cases, impls)
    with scratch_dir("tv-c01-coq-") as wd:
        global _FALLBACK_TH
        _FALLBACK_TH = None
        if "theories/Model/NestingRun.v" not in chk.build_result.compiled or "theories/Actual/NestingActual.v" not in chk.build_result.compiled:
            _FALLBACK_TH = fallback_theories(wd / "fallback")
            chk.notes.append("the generated layer / model no longer builds; the search for a failing input evaluated the model against the last "
                             "recorded generated layer coq/Gen.expected/NestingGen.v.txt" if _FALLBACK_TH else
                             "the generated layer / model no longer builds and no recorded layer is available: cases could not be judged")
        if not replay:
            check_limits(chk, seed, (400 if tier == "quick" else 4000) * scale, wd)
        try:
            verdicts = judge(cases, impls, wd)
        except RuntimeError as e:
            chk.broken.append(f"Model:evaluation of the nesting model failed ({str(e)[:400]})")
            verdicts = [None] * len(cases)
    cands_all = None
    for case, impl, ver in zip(cases, impls, verdicts):
        nontrivial = case["dmax"] >= 2
        chk.count([case["lang"], case["items"]], nontrivial)
        chk.dist("lang:" + case["lang"])
        chk.dist("via:" + case["via"])
        chk.dist(f"max_doc_depth:{case['dmax']}")
        for k in skel.kinds_used(case["items"]):
            chk.dist("kind:" + k)
        chk.sample({"lang": case["lang"], "text": case["text"][:600], "limits": case["limits"], "impl_at_limit_1": impl["runs"][0]}, 3)
        if impl["failures"]:
            chk.violation({"reason": "a rule failed internally (swallowed exception) during the run", "failures": impl["failures"][:3], "case": case})
            continue
        if ver is None:
            continue
        chk.traces_validated += len(case["limits"])
        for lim, r, bits in zip(case["limits"], impl["runs"], ver):
            if isinstance(r, dict):
                chk.violation({"reason": "CLI run failed", "detail": r, "limit": lim, "case": case})
                continue
            spec_ok, ideal_ok, cand = bool(bits[0]), bool(bits[1]), [bool(b) for b in bits[2:]]
            cands_all = cand if cands_all is None else [a and b for a, b in zip(cands_all, cand)]
            if spec_ok:
                continue
            info = {"limit": lim, "impl": r, "case": case, "reason": "reported functions/depths differ from the documented depth rule"}
            relevant = [FLAGS[i] for i in range(len(FLAGS)) if not cand[1 + i]]
            if cand[0] and ideal_ok and not relevant:
                # several listed defects compensate one another on this input: no single flag changes the
                # output, switching all of them off does (model ideal = spec); attribute to the language's flags
                relevant = LANG_FLAGS[skel.COQ_LANG[case["lang"]]]
            if cand[0] and ideal_ok and relevant:
                for k in relevant:
                    chk.known_finding(k, {"lang": case["lang"], "text": case["text"], "limit": lim, "impl": r})
            else:
                info["model_actual_matches_impl"] = cand[0]
                info["model_ideal_matches_spec"] = ideal_ok
                chk.violation(info)
    if cands_all is not None and not cands_all[0]:
        alt = [i for i, ok in enumerate(cands_all) if ok]
        if alt:
            names = ["actual"] + [f"actual without {f}" for f in FLAGS] + ["ideal"]
            chk.notes.append("implementation no longer matches the claimed quirk vector but matches: " + names[alt[0]] +
                             " (a listed defect is no longer observed; theorems hold for every vector)")
        else:
            chk.correspondence_broken({"level": "observable", "detail": "Model/Nesting.v under Actual/NestingActual.v disagrees with the implementation and no candidate quirk vector matches all cases"})
    return chk.finish()


def corpus_cases():
    """refutation witnesses and minimised earlier failures; replayed first on every run"""
    out = []
    d = Path(__file__).resolve().parent.parent.parent / "corpus" / PROP
    for p in sorted(d.glob("*.json")):
        c = json.loads(p.read_text())
        text, placed = render(c["lang"], c["items"])
        dmax = max([skel.doc_depth(f[1]) for f in skel.functions_of(placed)], default=1)
        out.append({"i": "corpus:" + p.stem, "mode": "corpus", "lang": c["lang"], "items": placed, "text": text,
                    "limits": list(range(1, dmax + 3)), "dmax": dmax, "via": c.get("via", "api")})
    return out
