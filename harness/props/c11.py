"""C11 — no input makes a linter crash, hang, or silently drop its analysis.   (PARTLY proof, PARTLY validation)

PROVED (Coq, Props/C11.v): the orchestrator's failure containment with rules as partial functions - sibling
isolation, exactness, what escapes the except table and what that costs, completeness of the H1 failure log, exit
status, the parallel path, the store order of the two cross-file rules, language detection; the output stage
(exit status 0/1 iff every formatter operation is defined on every field; SARIF region); analyzers with memory
(functional abstraction exact iff history free; a stale memo breaks isolation); censuses of raising expressions,
analyzer state and SyntaxError position attributes.  Tied to the code by the
generated layer (ContainGen) and by the correspondence runs of c11_logic (injected partial rules through the real
Orchestrator, detect_language, CPython's exception classes, the real DRY / stringly-typed rules with failing analyses).

VALIDATED (cannot be a theorem: parsers, recursion limits, OS): a grammar-aware mutation stream placed among healthy
files, in-process (fresh Orchestrator per run, in watched worker processes) and through the CLI, with the oracle
  exit status in {0,1} / nothing escapes  -  no swallowed failure (hook H1)  -  CPU time within a size-proportional
  limit  -  the siblings' violations equal those of the run without the offending file.
Every failure is keyed (rule id, exception type, mutation class); keys listed in known.d/C11.json are KNOWN-FINDINGs,
any other key is a VIOLATION.
"""
from __future__ import annotations

import base64
import hashlib
import json
import re
import threading
import time
from concurrent.futures import ThreadPoolExecutor
from pathlib import Path

from harness import coq
from harness.common import VERIF, parse_json_violations, rng_for, run_cli, scratch_dir
from harness.framework import Check
import os

from harness.props import c11_carriers, c11_logic, c11_mut, c11_output, c11_pool, c11_stream

PROP = "C11"
FLAG = "q_value_error_escapes"
FLAGS = [FLAG, "q_finalize_unguarded"]
HEADER = ("From TL Require Import Lib.Base Lib.GenTypes Model.ContainTypes Gen.ContainGen Model.Contain Model.ContainRun Model.ContainWalk "
          "Actual.ContainActual.\n")
VALUE_FAMILY_NAMES = {"ValueError", "UnicodeDecodeError", "UnicodeEncodeError", "UnicodeError", "JSONDecodeError"}
COMMANDS = ["nesting", "srp", "magic-numbers", "dry", "improper-logging", "print-statements", "file-header", "file-placement", "lazy-ignores",
            "lbyl", "method-property", "perf", "pipeline", "regex-in-loop", "stateless-class", "string-concat-loop", "stringly-typed",
            "unwrap-abuse", "clone-abuse", "blocking-async"]
CLI_WALL_LIMIT = 150.0
CORPUS = VERIF / "corpus" / PROP
WORKERS = max(1, int(os.environ.get("C11_WORKERS", "4")))      # worker processes of the in-process stream; the CLI part uses half as many threads


def msg_slug(msg) -> str:
    """first words of an exception message with numbers and quoted text removed: part of a failure's key, so that a rule raising
    the same exception class for a different reason is a different (unlisted) key"""
    m = re.sub(r"'[^']*'|\"[^\"]*\"", "", str(msg or ""))
    words = re.findall(r"[A-Za-z_]+", m.lower())[:3]
    return "-".join(words) or "no-message"


def fail_key(rule, exc_type, msg, cls) -> str:
    """(rule id, exception type, message start, mutation class).  Exhausting the interpreter's recursion limit or the parser's stack
    is the same failure whichever mutation produced the nesting (a dropped closing bracket, a repeated token, a reversed file ...):
    those keys carry the class `nesting-blowup`."""
    if exc_type == "RecursionError" or (exc_type == "MemoryError" and msg_slug(msg) in ("parser-stack-overflowed", "no-message")):
        cls = "nesting-blowup"
    return f"fail:{rule}:{exc_type}:{msg_slug(msg)}:{cls}"


def output_key(op: dict, cls: str) -> str:
    words = re.findall(r"[A-Za-z_]+", re.sub(r"'[^']*'|\"[^\"]*\"|`[^`]*`", "", op["problem"]).lower())[:5]
    return f"output:{op['fmt']}:{'-'.join(words)}:{cls}"


HANG_FACTOR = 100.0     # a run counts as a hang when it needs this many times the CPU time of the reference workload (scaled by size)
NOTE_FACTOR = 20.0      # between NOTE_FACTOR and HANG_FACTOR: recorded as a note, never decides the exit status


def _merge_known(chk: Check):
    """known.d/C11.json is the source of the list (known_findings.json is assembled from it by the lead)"""
    p = VERIF / "known.d" / f"{PROP}.json"
    if p.exists():
        for f in json.loads(p.read_text()).get("findings", []):
            if f.get("property") == PROP and f.get("status") == "known":
                chk.known["known"].setdefault(f["key"], f)
            elif f.get("property") == PROP and str(f.get("status", "")).startswith("fixed"):
                chk.known["fixed"].setdefault(f["key"], f)


# ------------------------------------------------------------------ stream cases
def _mk_case(cid, off, config, mode, pos):
    data = off["data"]
    heavy = off["cls"] in ("nesting-blowup", "length-blowup")
    return {"id": cid, "name": off["name"], "data": data, "config": config, "mode": mode, "pos": pos,
            "weight": 1.0 + len(data) / 20000 + (6 if heavy else 0),
            "meta": {"cls": off["cls"], "kind": off["kind"], "lang": off["lang"]}}


def sweep_cases():
    """deterministic part: every nesting blow-up shape of every language beyond the interpreter's recursion limit"""
    out = []
    for lang in c11_mut.LANGS:
        for kind in c11_mut.BLOWUP[lang]:
            ns = [1100]
            if kind in ("binop", "lambda", "paren"):
                ns.append(3000)
            for n in ns:
                if lang == "py" and kind in ("if-block", "def"):
                    n = 99
                off = {"cls": "nesting-blowup", "kind": f"{kind}:{n}:alone", "lang": lang, "name": "case" + c11_pool.EXT[lang],
                       "data": c11_mut.blowup_text(lang, kind, n)}
                out.append(_mk_case(f"sweep:{lang}:{kind}:{n}", off, "dry", "files", len(out)))
    return out


def corpus_cases():
    out = []
    for p in sorted(CORPUS.glob("*.json")):
        c = json.loads(p.read_text())
        if c.get("part") != "stream":
            continue
        if "data_b64" in c:
            data = base64.b64decode(c["data_b64"])
        elif "blowup" in c:
            data = c11_mut.blowup_text(*c["blowup"])
        else:
            rp = c["repeat"]
            data = base64.b64decode(rp["prefix_b64"]) + base64.b64decode(rp["unit_b64"]) * rp["n"] + base64.b64decode(rp["suffix_b64"])
        off = {"cls": c["cls"], "kind": c["kind"], "lang": c["lang"], "name": c["name"], "data": data}
        out.append(_mk_case("corpus:" + p.stem, off, c.get("config", "default"), c.get("mode", "files"), c.get("pos", 3)))
    return out


def grid_cases(seed: int, rounds: int = 1):
    """every linter (its documented examples, per language) x every mutation class, plus the other properties' generators x the
    token-level classes, plus `drop the last path segment everywhere` on every chunk: sampled from one PRNG chain, but each
    (linter, class) pair is hit in every run"""
    from harness.props import c11_seeds
    groups, notes = c11_seeds.all_groups(seed)
    out = []
    for rd in range(rounds):
        for (who, lang), chunks in sorted(groups.items()):
            is_gen = who.startswith("gen:")
            r0 = rng_for(seed, PROP, "grid-classes", rd, who, lang)
            classes = (c11_mut.TOKEN_CLASSES + r0.sample(c11_mut.GRID_CLASSES[:9], 2)) if is_gen else c11_mut.GRID_CLASSES
            for cls in classes:
                r = rng_for(seed, PROP, "grid", rd, who, lang, cls)
                j = r.randrange(len(chunks))
                off = c11_mut.offender_from(r, cls, lang, chunks[j].encode("utf-8"))
                off["kind"] = f"{who}#{j}:{off['kind']}"
                out.append(_mk_case(f"grid{rd}:{who}:{lang}:{cls}", off, r.choice(["default", "dry", "dry"]), r.choice(["files", "files", "dir"]), r.randrange(20)))
            if rd == 0:
                for j, ch in enumerate(chunks):
                    r = rng_for(seed, PROP, "grid-path", who, lang, j)
                    off = c11_mut.offender_from(r, "path-segment", lang, ch.encode("utf-8"), variant="drop-last", mode="all")
                    off["kind"] = f"{who}#{j}:{off['kind']}"
                    out.append(_mk_case(f"grid-path:{who}:{lang}:{j}", off, "default", "files", j))
    return out, notes


def literal_and_comment_sweeps(seed: int, thin: bool):
    """deterministic: every numeric spelling in every language; every directive / header / doc-comment form x every payload shape"""
    out = []
    for lang in c11_mut.LANGS:
        for j, data in enumerate(c11_mut.numeric_sweep(lang)):
            off = {"cls": "numeric-literal", "kind": f"sweep:spellings#{j}", "lang": lang, "name": "case" + c11_pool.EXT[lang], "data": data}
            out.append(_mk_case(f"numsweep:{lang}:{j}", off, "default", "files", 2 + j))
        forms = c11_mut.forms_for(lang)
        for k, form in enumerate(forms):
            if thin and lang == "js" and k % 2:
                continue      # js and ts share the analyzers: the quick tier runs every other form for js
            r = rng_for(seed, PROP, "comment-sweep", lang, k)
            off = {"cls": "comment-payload", "kind": "sweep:" + form.split("{")[0].strip()[:30], "lang": lang, "name": "case" + c11_pool.EXT[lang],
                   "data": c11_mut.comment_sweep(lang, form, r)}
            out.append(_mk_case(f"cmtsweep:{lang}:{k}", off, "dry" if k % 3 == 0 else "default", "files", k))
    return out


def state_leak_and_shebang_sweeps(thin: bool):
    """deterministic: (a) files ending inside a multi-line construct, placed at the head of the run, directly before and between the
    healthy twins of their language that have cross-file findings (duplicate-code and stringly-typed on) - sibling findings must not
    change; (b) extension-less files with degenerate shebang lines"""
    names = [n for n, _ in c11_pool.siblings()]
    out = []
    for lang in (["py", "ts", "rs"] if thin else ["py", "ts", "js", "rs"]):
        twin_lang = "ts" if lang in ("js", "rs") else lang
        first_twin = names.index("top_a" + c11_pool.EXT[twin_lang])
        donor = c11_pool.donor(lang, 3).encode()
        for cname, data in c11_mut.open_constructs(lang):
            variants = [("alone", data, [0, first_twin, first_twin + 1]), ("appended", donor + b"\n" + data, [first_twin]),
                        ("prepended-to-donor", data + donor, [first_twin + 1])]
            for vname, d, positions in variants:
                for pos in positions:
                    off = {"cls": "truncate", "kind": f"open-construct:{cname}:{vname}", "lang": lang, "name": "case" + c11_pool.EXT[lang], "data": d}
                    out.append(_mk_case(f"open:{lang}:{cname}:{vname}:{pos}", off, "dry", "files", pos))
    for i, off in enumerate(c11_mut.shebang_sweep()):
        out.append(_mk_case(f"shebang:{i}", off, "dry" if i % 2 else "default", "files", i))
    return out


def carrier_cases(quick: bool):
    """deterministic: isolation of the STATEFUL per-file analyzers of the cross-file rules.  A carrier (healthy, carries stringly-typed /
    duplicate-code / duplicate-constant material, below the cross-file threshold on its own) is linted directly before and directly
    after each kind of damaged file (truncated, open string, bracket dropped / extra, NUL, undecodable, empty, whitespace) of every
    language; its findings must equal the run without the damaged file.  `material:*` cases show the carriers are live: next to a
    byte-identical copy every cross-file family fires."""
    out = []

    def mk(cid, files, config, meta):
        layout = [[n, base64.b64encode(b).decode(), bool(off)] for n, b, off in files]
        data = b"".join(b for _, b, off in files if off)
        return {"id": cid, "name": "layout", "data": data, "config": config, "mode": "files", "pos": 0, "layout": layout,
                "weight": 1.0 + sum(len(b) for _, b, _ in files) / 20000, "meta": meta}

    for cid, files, m in c11_carriers.pair_layouts(quick):
        meta = {"cls": "carrier-neighbour", "kind": f"{m['kind']}:{m['order']}:carrier-{m['carrier_lang']}", "lang": m["lang"]}
        out.append(mk(cid, files, "dry", meta))
        if not quick and m["order"] == "after":
            out.append(mk(cid + ":default", files, "default", meta))
    for lang in c11_carriers.CARRIER_LANGS:
        n, t = c11_carriers.carrier(lang, 90)
        files = [(n, t.encode(), False), ("copy_" + n, t.encode(), False)]
        out.append(mk(f"material:{lang}", files, "dry", {"cls": "carrier-material", "kind": "carrier-next-to-its-copy", "lang": lang}))
    return out


MATERIAL = {"py": ["dry.duplicate-code", "dry.duplicate-code:constant", "stringly-typed.limited-values", "stringly-typed.repeated-validation",
                   "stringly-typed.scattered-comparison"],
            "ts": ["dry.duplicate-code", "dry.duplicate-code:constant", "stringly-typed.limited-values", "stringly-typed.scattered-comparison"]}
MATERIAL["js"] = MATERIAL["ts"]


def gen_stream_cases(seed: int, n: int):
    out = []
    for i in range(n):
        r = rng_for(seed, PROP, "stream", i)
        off = c11_mut.offender(r)
        out.append(_mk_case(f"s{i}", off, r.choice(["default", "dry", "dry"]), r.choice(["files", "files", "files", "dir"]), r.randrange(20)))
    return out


def replay_payload(case) -> dict:
    if case.get("layout") is not None:
        return {"part": "layout", "id": case["id"], "config": case["config"], **case["meta"], "layout": case["layout"]}
    return {"part": "stream", "id": case["id"], "name": case["name"], "config": case["config"], "mode": case["mode"], "pos": case["pos"],
            **case["meta"], "bytes": len(case["data"]), "sha256": hashlib.sha256(case["data"]).hexdigest(),
            "data_b64": base64.b64encode(case["data"]).decode() if len(case["data"]) <= 200000 else "(too large: regenerate from seed and id)"}


def judge_stream(chk: Check, case, res, healthy_rules):
    """the runtime oracle on one in-process run"""
    m = case["meta"]
    cls = m["cls"]
    info = {"case": replay_payload(case)}
    problems = 0

    def known_or_violation(key, reason, extra=None):
        nonlocal problems
        problems += 1
        payload = {"reason": reason, "key": key, **(extra or {}), **info}
        if key in chk.known["known"]:
            chk.known_seen.setdefault(key, payload)
        elif key in chk.known["fixed"]:
            chk.violation({**payload, "reason": f"finding {key} is recorded as fixed but was observed again: " + reason})
        else:
            chk.violation(payload)

    if res is None:
        chk.violation({"reason": "no result came back for this case (harness lost it)", **info})
        return True
    if res.get("skipped"):
        if not any("skipped after" in n for n in chk.notes):
            chk.notes.append(f"stream cases were skipped after {c11_stream.MAX_HANGS} hangs (each hang is reported)")
        return False
    if res.get("harness_error"):
        chk.violation({"reason": "worker process died outside a case: " + res["harness_error"], "detail": res, **info})
        return True
    if res.get("hang"):
        known_or_violation(f"hang:{cls}", f"linting did not finish within {c11_stream.HARD_WALL_LIMIT:.0f} CPU seconds (worker killed)", {"detail": res})
        return True
    if res.get("hard_crash") is not None:
        known_or_violation(f"hardcrash:{cls}", f"the interpreter died (exit {res['hard_crash']}) while linting", {"detail": res})
        return True
    crash = res.get("crash")
    if crash:
        fam = bool(set(crash.get("mro", [])) & {"ValueError"})
        if fam and crash.get("rule"):
            # explained by the containment model: ValueError is re-raised by _safe_check_rule (flag) ...
            known_or_violation(FLAG, "an exception of the ValueError family raised by a rule aborted the whole run", {"crash": crash})
            # ... and the rule raising on this content is a finding of its own
            known_or_violation(fail_key(crash["rule"], crash["exc_type"], crash.get("exc_msg"), cls), "a rule raised on file content", {"crash": crash})
        else:
            problems += 1
            chk.violation({"reason": "an exception escaped Orchestrator.lint_files / lint_directory and is not explained by the containment model",
                           "crash": crash, **info})
    for f in res.get("failures", []):
        known_or_violation(fail_key(f.get("rule"), f.get("exc_type"), f.get("exc_msg"), cls),
                           "a rule failed internally and its analysis of the file was dropped (swallowed exception, hook H1)", {"failure": f})
    if res.get("siblings_equal") is False:
        problems += 1
        chk.violation({"reason": "the violations reported for the healthy files differ from the run without the offending file",
                       "missing": res.get("sib_missing"), "extra": res.get("sib_extra"), **info})
    for op in res.get("output_problems") or []:
        # the output stage is outside the per-rule safety net: an exception there is exit 2 and loses every result of the run
        known_or_violation(output_key(op, cls), "output stage (--format " + op["fmt"] + "): " + op["problem"], {"output_problem": op})
    if case.get("layout") is not None:
        if res.get("baseline_problem"):
            problems += 1
            chk.violation({"reason": "the run on the healthy files of a layout alone crashed or had a swallowed failure", "detail": res["baseline_problem"], **info})
        if cls == "carrier-neighbour" and res.get("base_cross"):
            chk.broken.append(f"Generator:carrier of {case['id']} has cross-file findings on its own ({res['base_cross']}): it is not below the threshold")
        if cls == "carrier-material":
            lacking = [f for f in MATERIAL[m["lang"]] if f not in (res.get("cross_families") or [])]
            if lacking:
                chk.broken.append(f"Generator:carrier material is dead for {m['lang']}: next to its copy no finding of {lacking}")
    limit = res.get("cpu_limit")
    if res.get("cpu") is not None and limit and res["cpu"] > limit * NOTE_FACTOR / HANG_FACTOR:
        timed = sorted(res.get("slow_rules") or [], key=lambda x: -x[1])
        rules = [r for r, t in timed if t > res["cpu"] / 3] or [r for r, _ in timed[:1]] or ["unattributed"]
        reason = (f"linting took {res['cpu']} CPU s for {len(case['data'])} bytes: {res['cpu'] / max(res.get('expected') or 1e-9, 1e-9):.0f} x the reference "
                  f"workload of this run ({res.get('expected')} s); hang threshold {HANG_FACTOR:.0f} x")
        if res["cpu"] > limit:
            # the mutation class is not what makes a run slow, so slow spots are keyed by rule
            for r in rules:
                known_or_violation(f"slow:{r}", reason, {"slow_rules": res.get("slow_rules")})
        else:
            problems += 1
            chk.notes.append(f"slow but below the hang threshold, not counted: {'+'.join(rules)} {reason} [{case['id']}]")
    nontrivial = problems > 0 or res.get("own_rules") != healthy_rules.get(m["lang"]) or res.get("lang") not in ("python", "typescript", "javascript", "rust")
    return nontrivial


# ------------------------------------------------------------------ CLI
def _strip_ansi(s: str) -> str:
    return re.sub(r"\x1b\[[0-9;]*m", "", s)


def _cli_one(job):
    d, args, faillog, timeout = job
    t0 = time.time()
    rc, so, se = run_cli(args, cwd=d, home=d.parent / "home", timeout=timeout, env_extra={"THAILINT_VERIF_FAILLOG": str(faillog)})
    fails = []
    if faillog.exists():
        for line in faillog.read_text(errors="replace").splitlines():
            try:
                fails.append(json.loads(line))
            except json.JSONDecodeError:
                fails.append({"rule": "?", "exc_type": "unparsable-log-line", "where": "?"})
    return {"rc": rc, "stdout": so, "stderr": se[-6000:], "failures": fails, "wall": round(time.time() - t0, 2),
            "via_safe_check": "_safe_check_rule" in se}


def _viols(stdout, offender_name=None):
    vs = parse_json_violations(stdout)
    if vs is None:
        return None
    out = []
    for v in vs:
        fp = str(v.get("file_path", v.get("file", "")))
        if offender_name is not None and Path(fp).name == offender_name:
            continue
        out.append([v.get("rule_id"), Path(fp).name, v.get("line"), v.get("column"), v.get("message")])
    return sorted(out, key=json.dumps)


def cli_part(chk: Check, seed: int, stream_cases, n_cli: int, sd: Path):
    def fits(c):
        m = c["meta"]
        if m["cls"] == "length-blowup" and "many-lines" in m["kind"]:
            return False
        return len(c["data"]) <= (120000 if m["cls"] in ("comment-payload", "numeric-literal") else 25000)

    pool = [c for c in stream_cases if fits(c)]
    fixed = [c for c in pool if c["id"].startswith("corpus:")]
    rest = [c for c in pool if re.match(r"s\d+$|grid|cmtsweep|numsweep", c["id"])]
    rng_for(seed, PROP, "cli-sample").shuffle(rest)
    # token-level / literal / comment classes first: they are the ones whose effect depends on the command's own analyzers
    rest.sort(key=lambda c: 0 if c["meta"]["cls"] in c11_mut.TOKEN_CLASSES else 1)
    chosen = fixed[:10] + rest[: max(0, n_cli - len(fixed[:10]))]
    sibs = c11_pool.siblings()
    extra = [(f"extra{k}{c11_pool.EXT[l]}", c11_pool.pool_file(l, 30 + k)) for k, l in enumerate(["py", "ts", "js", "rs", "py", "ts", "py", "rs", "js"])]
    (sd / "home").mkdir(exist_ok=True)
    jobs, metas = [], []

    def mkdir(tag, files):
        d = sd / tag
        d.mkdir()
        for n, t in files:
            (d / n).write_text(t, encoding="utf-8")
        return d

    base_dirs = {False: mkdir("cli-base", sibs), True: mkdir("cli-base-par", sibs + extra)}
    ref = _cli_one((base_dirs[False], ["nesting", "--format", "json", "."], sd / "cli-fl-ref", 600))   # reference run: calibrates the wall limit
    wall_limit = max(CLI_WALL_LIMIT, HANG_FACTOR * ref["wall"])
    chk.extra_cov["cli_reference_wall_s"] = ref["wall"]
    base_keys = {}
    for i, c in enumerate(chosen):
        r = rng_for(seed, PROP, "cli", c["id"])
        cmd = COMMANDS[i % len(COMMANDS)]
        par = i % 7 == 3
        if par:
            cmd = ["nesting", "magic-numbers", "dry"][(i // 7) % 3]
        explicit = (COMMANDS.index(cmd) % 2 == 0) and not par     # one baseline per command
        files = (sibs + extra) if par else sibs
        d = mkdir(f"cli-{i}", files)
        (d / c["name"]).write_bytes(c["data"])
        names = [n for n, _ in files]
        args = [cmd, "--format", "json"] + (["--parallel"] if par else [])
        key = (cmd, par, explicit)
        if key not in base_keys:
            base_keys[key] = len(jobs)
            jobs.append((base_dirs[par], args + (names if explicit else ["."]), sd / f"cli-fl-base-{len(jobs)}", wall_limit))
            metas.append(("base", key, None))
        pos = r.randrange(len(names) + 1)
        jobs.append((d, args + ((names[:pos] + [c["name"]] + names[pos:]) if explicit else ["."]), sd / f"cli-fl-{i}", wall_limit))
        metas.append(("case", key, c))
    with ThreadPoolExecutor(max_workers=max(2, WORKERS // 2)) as ex:
        outs = list(ex.map(_cli_one, jobs))
    bases = {}
    for (kind, key, _), o in zip(metas, outs):
        if kind == "base":
            bases[key] = o
            if o["rc"] not in (0, 1) or o["failures"] or _viols(o["stdout"]) is None:
                chk.violation({"reason": "CLI run on the healthy files alone failed", "command": key[0], "rc": o["rc"], "stderr": _strip_ansi(o["stderr"])[-1500:],
                               "failures": o["failures"]})
    for (kind, key, c), o in zip(metas, outs):
        if kind != "case":
            continue
        cls = c["meta"]["cls"]
        chk.count(["cli", key[0], key[1], key[2], c["name"], hashlib.sha256(c["data"]).hexdigest()], True)
        chk.dist("cli:command:" + key[0])
        chk.dist("cli:parallel" if key[1] else "cli:sequential")
        info = {"case": {**replay_payload(c), "part": "cli", "command": key[0], "parallel": key[1], "explicit_paths": key[2]}}

        def kv(k, reason, extra=None, info=info):
            payload = {"reason": reason, "key": k, **(extra or {}), **info}
            if k in chk.known["known"]:
                chk.known_seen.setdefault(k, payload)
            else:
                chk.violation(payload)

        if o["rc"] == 124:
            kv(f"hang:{cls}", f"thailint {key[0]} did not finish within {wall_limit:.0f} s (100 x a reference CLI run of this moment, at least {CLI_WALL_LIMIT:.0f} s)")
            continue
        err = _strip_ansi(o["stderr"])
        if o["rc"] not in (0, 1):
            m = re.findall(r"^\s*([A-Za-z_][A-Za-z0-9_.]*(?:Error|Exception|Interrupt|Exit))\s*:", err, re.M)
            exc = m[-1].split(".")[-1] if m else "?"
            if o["rc"] == 2 and exc in VALUE_FAMILY_NAMES and o.get("via_safe_check"):
                kv(FLAG, f"thailint {key[0]} exited 2: a ValueError-family exception raised by a rule aborted the command", {"exception": exc, "stderr_tail": err[-600:]})
            else:
                chk.violation({"reason": f"thailint {key[0]} exited {o['rc']} (allowed: 0, 1)", "exception": exc, "stderr_tail": err[-1500:], **info})
            continue
        for f in o["failures"]:
            if f.get("where") == "worker" and f.get("exc_type") in VALUE_FAMILY_NAMES:
                # theorem C11_par_escaping_failure_drops_the_whole_file: the parallel face of the same containment defect
                kv(FLAG, "parallel run: the worker's catch-all dropped every finding for the file after a rule raised a ValueError-family exception",
                   {"failure": f})
                continue
            rule = f.get("rule") if f.get("rule") not in (None, "None") else f.get("where")
            kv(fail_key(rule, f.get("exc_type"), f.get("exc_msg"), cls), "a rule failed internally during a CLI run (hook H1)", {"failure": f})
        got = _viols(o["stdout"], c["name"])
        want = _viols(bases[key]["stdout"]) if key in bases else None
        if got is None:
            chk.violation({"reason": f"thailint {key[0]} --format json printed no JSON document", "stdout_head": o["stdout"][:400], **info})
        elif want is not None and got != want:
            chk.violation({"reason": "CLI: the violations reported for the healthy files differ from the run without the offending file",
                           "missing": [v for v in want if v not in got][:5], "extra": [v for v in got if v not in want][:5], **info})
    chk.extra_cov["cli_runs"] = len(jobs)


def _by_file(vs, healthy):
    """violations of the healthy files as [rule, file name, line, column, message], sorted"""
    return sorted(([v[0], Path(str(v[1])).name, v[2], v[3], v[4]] for v in vs if Path(str(v[1])).name in healthy), key=json.dumps)


def cli_sequence_part(chk: Check, sd: Path, commands, quick: bool = False):
    """every linter command x every --format on ONE run holding, per language, carrier / damaged / carrier / damaged ... (every damage kind
    with a healthy carrier of cross-file material directly before and directly after it; duplicate-code enabled by .thailint.yaml):
    exit status in {0,1}, a well-formed document, and the healthy files' violations equal to the run without the damaged files - in
    every format (the sarif and text documents must carry the same findings as the json one)."""
    files = c11_carriers.sequence_layout()
    healthy = {n for n, _, off in files if not off}
    cfg = "dry:\n  enabled: true\n  min_duplicate_lines: 3\n"
    (sd / "home").mkdir(exist_ok=True)

    def mkdir(tag, with_offenders):
        d = sd / tag
        d.mkdir()
        (d / ".thailint.yaml").write_text(cfg)
        names = []
        for n, b, off in files:
            if off and not with_offenders:
                continue
            (d / n).write_bytes(b)
            names.append(n)
        return d, names

    base_d, base_names = mkdir("seq-base", False)
    case_d, case_names = mkdir("seq-case", True)
    ref = _cli_one((base_d, ["nesting", "--format", "json"] + base_names, sd / "seq-fl-ref", 900))
    wall_limit = max(CLI_WALL_LIMIT, HANG_FACTOR * ref["wall"])
    jobs, metas = [], []
    for ci, cmd in enumerate(commands):
        jobs.append((base_d, [cmd, "--format", "json"] + base_names, sd / f"seq-fl-base-{cmd}", wall_limit))
        metas.append((cmd, "json", True))
        # quick tier: json (isolation) and sarif (the format that computes with the fields) for every command, text for every fourth
        for fmt in (["json", "sarif"] + (["text"] if not quick or ci % 4 == 0 else [])):
            jobs.append((case_d, [cmd, "--format", fmt] + case_names, sd / f"seq-fl-{cmd}-{fmt}", wall_limit))
            metas.append((cmd, fmt, False))
    with ThreadPoolExecutor(max_workers=max(2, WORKERS // 2)) as ex:
        outs = list(ex.map(_cli_one, jobs))
    bases = {}
    for (cmd, fmt, is_base), o in zip(metas, outs):
        if is_base:
            probs, vs = c11_output.check_json(o["stdout"])
            if o["rc"] not in (0, 1) or o["failures"] or vs is None or probs:
                chk.violation({"reason": "CLI sequence: the run on the healthy carriers alone failed", "command": cmd, "rc": o["rc"], "problems": probs,
                               "stderr": _strip_ansi(o["stderr"])[-1200:], "failures": o["failures"]})
            else:
                bases[cmd] = _by_file(vs, healthy)
    for (cmd, fmt, is_base), o in zip(metas, outs):
        if is_base:
            continue
        chk.count(["cli-sequence", cmd, fmt], True)
        chk.dist("cli-sequence:format:" + fmt)
        info = {"case": {"part": "cli-sequence", "command": cmd, "format": fmt, "files_in_order": case_names,
                         "note": "files: harness/props/c11_carriers.sequence_layout() (deterministic)"}}

        def kv(k, reason, extra=None, info=info):
            payload = {"reason": reason, "key": k, **(extra or {}), **info}
            if k in chk.known["known"]:
                chk.known_seen.setdefault(k, payload)
            else:
                chk.violation(payload)

        err = _strip_ansi(o["stderr"])
        if o["rc"] == 124:
            kv("hang:carrier-sequence", f"thailint {cmd} --format {fmt} did not finish within {wall_limit:.0f} s on the carrier / damaged file sequence")
            continue
        if o["rc"] not in (0, 1):
            m = re.findall(r"^\s*([A-Za-z_][A-Za-z0-9_.]*(?:Error|Exception|Interrupt|Exit))\s*:", err, re.M)
            first = (re.findall(r"Error during linting: .*", err) or [""])[0]
            chk.violation({"reason": f"thailint {cmd} --format {fmt} exited {o['rc']} on the carrier / damaged file sequence (allowed: 0, 1): {first[:200]}",
                           "exception": m[-1].split(".")[-1] if m else "?", "stderr_tail": err[-1500:], **info})
            continue
        for f in o["failures"]:
            rule = f.get("rule") if f.get("rule") not in (None, "None") else f.get("where")
            kv(fail_key(rule, f.get("exc_type"), f.get("exc_msg"), "carrier-sequence"), "a rule failed internally during a CLI run (hook H1)", {"failure": f})
        probs, vs = c11_output.CHECKERS[fmt](o["stdout"])
        for pr in probs[:4]:
            kv(output_key({"fmt": fmt, "problem": pr}, "carrier-sequence"), f"thailint {cmd} --format {fmt}: malformed document: {pr}")
        if vs is None or cmd not in bases:
            continue
        if fmt == "text":
            got = sorted(([v[0], Path(v[1].split(":")[0]).name] for v in vs if Path(v[1].split(":")[0]).name in healthy), key=json.dumps)
            want = sorted(([v[0], v[1]] for v in bases[cmd]), key=json.dumps)
        else:
            got, want = _by_file(vs, healthy), bases[cmd]
        if got != want:
            chk.violation({"reason": f"CLI sequence ({cmd} --format {fmt}): the violations reported for the healthy carriers differ from the run without the damaged files",
                           "missing": [v for v in want if v not in got][:5], "extra": [v for v in got if v not in want][:5], **info})
    chk.extra_cov["cli_sequence_runs"] = len(jobs)


# ------------------------------------------------------------------ logic part
def logic_part(chk: Check, seed: int, n_stub: int, n_detect: int, stream_cases, sd: Path, only=None):
    stub_cases = [json.loads(p.read_text())["case"] for p in sorted(CORPUS.glob("*.json")) if json.loads(p.read_text()).get("part") == "stub"]
    stub_cases += [c11_logic.gen_stub_case(rng_for(seed, PROP, "stub", i), i) for i in range(n_stub)]
    det_cases = [c11_logic.gen_detect_case(rng_for(seed, PROP, "detect", i), i) for i in range(n_detect)]
    if only is not None:
        stub_cases = [only] if only.get("kind") == "stub" else []
        det_cases = [only] if only.get("kind") == "detect" else []
        if only.get("kind") == "detect" and isinstance(only.get("content"), str):
            only["content"] = base64.b64decode(only["content"])
    stub_obs = c11_logic.run_stub_cases(stub_cases, sd / "stubproj")
    det_obs = c11_logic.run_detect_cases(det_cases, sd / "detproj")
    for c, o in zip(det_cases, det_obs):
        if o.startswith("<raised"):      # judged here, without the model: holds even when Model/Contain.v does not build
            chk.violation({"reason": f"detect_language raised {o[8:-1]} on a file name / first line (outside every except clause of lint_file: the run aborts)",
                           "case": {"part": "detect", "case": {"kind": "detect", "name": c["name"], "present": c["present"],
                                                               "content": base64.b64encode(c["content"]).decode()}}})
    staged, notes = c11_logic.run_staged_cases(sd / "stagedproj") if only is None else ([], [])
    chk.notes.extend(notes)
    lines, tags = [], []
    for c, o in zip(stub_cases, stub_obs):
        lines.append(c11_logic.coq_stub_case(c, o))
        tags.append(("stub", c, o))
    for c, o in zip(det_cases, det_obs):
        lines.append(c11_logic.coq_detect_case(c["name"], c["present"], c["content"], o))
        tags.append(("detect", c, o))
    small = [c for c in stream_cases if len(c["data"]) <= 1500][:80] if only is None else []
    for c in small:
        tags.append(("detect-stream", c, None))
        lines.append(None)   # filled in after the stream has run (needs the implementation's answer)
    if only is None:
        lines.append(c11_logic.coq_mro_case())
        tags.append(("mro", None, None))
    for s in staged:
        lines.append(c11_logic.coq_staged_case(*s))
        tags.append(("staged", s, None))
    if only is None:
        fuel, walks, wnotes = c11_logic.run_walk_cases(rng_for(seed, PROP, "walk"), max(40, n_stub // 4))
        chk.notes.extend(wnotes)
        chk.extra_cov["walker_frames_left"] = fuel
        for w in walks:
            lines.append(c11_logic.coq_walk_case(fuel, w[4], w[5], w[6]))
            tags.append(("walk", w, fuel))
    return lines, tags


def judge_logic(chk: Check, lines, tags, stream_results, sd: Path):
    keep = []
    for k, (kind, c, _) in enumerate(tags):
        if kind == "detect-stream":
            res = stream_results.get(c["id"]) or {}
            if "lang" not in res:
                continue          # the stream run of this file was killed or skipped: reported there, nothing to compare here
            lines[k] = c11_logic.coq_detect_case(c["name"], True, c["data"], str(res["lang"]))
        keep.append(k)
    lines = [lines[k] for k in keep]
    tags = [tags[k] for k in keep]
    shards, index = [], []
    per = 40
    for s in range(0, len(lines), per):
        chunk = list(range(s, min(len(lines), s + per)))
        shards.append("\n".join(f"Eval vm_compute in ({lines[j]})." for j in chunk))
        index.append(chunk)
    try:
        outs = coq.eval_shards(sd / "coq", HEADER, shards)
    except RuntimeError as e:
        chk.broken.append(f"Model:evaluation of the containment model failed ({str(e)[:400]})")
        return
    verdict = {}
    for chunk, out in zip(index, outs):
        if len(out) != len(chunk):
            chk.broken.append(f"Model:expected {len(chunk)} results from a shard, got {len(out)}")
            return
        for j, o in zip(chunk, out):
            verdict[j] = [bool(b) for b in o]
    cand_all = None
    for j, (kind, c, o) in enumerate(tags):
        v = verdict[j]
        chk.traces_validated += 1
        if kind == "stub":
            failing = any("fail" in r for s in c["stubs"] for r in s["res"].values()) or any(s["fin"][0] != "echo" for s in c["stubs"])
            chk.count(["stub", c["mode"], c["files"], c["stubs"]], failing)
            chk.dist("stub:mode:" + ("parallel-worker-path" if c["mode"] else "lint_files"))
            chk.dist("stub:" + ("with-failing-pairs" if failing else "no-failure"))
            chk.sample({"part": "stub scenario", "mode": c["mode"], "files": c["files"], "stubs": c["stubs"], "impl": o}, 5)
            in_dom, impl_spec, ideal_spec, cand = v[0], v[1], v[2], v[3:]
            cand_all = cand if cand_all is None else [a and b for a, b in zip(cand_all, cand)]
            if in_dom and not impl_spec:
                relevant = [FLAGS[i] for i in range(len(FLAGS)) if not cand[1 + i]]
                if cand[0] and ideal_spec and not relevant:
                    relevant = list(FLAGS)      # only switching both off changes the output on this scenario
                if cand[0] and ideal_spec:
                    for k in relevant:
                        chk.known_finding(k, {"part": "stub scenario (injected partial rules)", "case": c, "impl": o})
                else:
                    chk.violation({"reason": "orchestrator output on injected partial rules violates the containment specification and the listed "
                                             "quirks do not explain it", "model_actual_matches_impl": cand[0], "model_ideal_matches_spec": ideal_spec,
                                   "case": {"part": "stub", "case": c}, "impl": o})
            elif not any(cand):
                chk.correspondence_broken({"level": "observable", "detail": "orchestrator output on injected partial rules matches no candidate "
                                           "quirk vector of Model/Contain.v", "case": c, "impl": o})
        elif kind in ("detect", "detect-stream"):
            name = c["name"]
            content = c["content"] if kind == "detect" else c["data"]
            chk.count(["detect", name, hashlib.sha256(content).hexdigest()], "." in name[1:] or content.startswith(b"#!"))
            chk.dist("detect:" + kind)
            if kind == "detect":
                chk.sample({"part": "detection", "name": name, "present": c["present"], "content_head": content[:40].decode("latin-1"), "impl": o}, 6)
            if not (v[0] and v[1]):
                chk.violation({"reason": "detect_language disagrees with Model.detect (the theorems about detection no longer describe the code)",
                               "case": {"part": "detect", "case": {"kind": "detect", "name": name, "present": c.get("present", True),
                                                                   "content": base64.b64encode(content).decode()}},
                               "impl": o if kind == "detect" else (stream_results.get(c["id"]) or {}).get("lang"), "in_range": v[1]})
        elif kind == "mro":
            if not all(v):
                chk.violation({"reason": "the exception-class table of Model/Contain.v (mro) disagrees with CPython", "per_class": v,
                               "python": c11_logic.python_mro_table()})
        elif kind == "walk":
            lang, wkind, size, ty, d, cnt, res = c
            chk.count(["walk", lang, wkind, size], d > o - 40)
            chk.dist("walk:" + ("overflows" if res is None else "fits"))
            if not v[2]:
                chk.broken.append("Model:skeleton depth mismatch in judge_walk")
            elif not v[0]:
                chk.violation({"reason": "walk_tree disagrees with Model/ContainWalk.v (one frame per tree level: overflow exactly beyond the frames left)",
                               "case": {"part": "walk", "lang": lang, "shape": wkind, "size": size, "node_type": ty, "depth": d, "count": cnt,
                                        "frames_left": o, "impl": res}})
            elif not v[1]:
                chk.known_finding("q_walk_recursive", {"part": "walker", "lang": lang, "shape": wkind, "size": size, "depth": d, "frames_left": o})
        elif kind == "staged":
            chk.count(["staged", c[0], c[1]], bool(c[1]))
            chk.dist("staged:" + c[0])
            if not all(v):
                chk.violation({"reason": f"compute/store order of a cross-file rule differs from {c[0]} (Gen) as interpreted by Model.run_ops",
                               "failing_analyses": c[1], "impl_raised": c[2], "impl_stored": c[3], "agree": v})
    if cand_all is not None and not cand_all[0]:
        names = ["actual"] + [f"actual without {f}" for f in FLAGS] + ["ideal"]
        alt = [i for i, ok in enumerate(cand_all) if ok]
        if alt:
            chk.notes.append("implementation no longer matches the claimed quirk vector but matches: " + names[alt[0]] +
                             " on all stub scenarios (the listed containment defect is no longer observed; the theorems hold for every vector)")
        else:
            chk.correspondence_broken({"level": "observable", "detail": "Model/Contain.v under Actual/ContainActual.v disagrees with the "
                                       "Orchestrator on injected partial rules and no candidate quirk vector matches all scenarios"})


# ------------------------------------------------------------------ output stage against Model/ContainOut.v
def output_logic_part(chk: Check, seed: int, n: int, sd: Path, only=None):
    """Violation objects whose fields carry values of arbitrary Python types (int / None / str / enum member) through the real
    format_violations inside the real run_linter_command; exit status (and the SARIF regions) against Model/ContainOut.v"""
    cases = [only] if only is not None else (c11_output.sweep_out_cases() + [c11_output.gen_out_case(rng_for(seed, PROP, "out", i), i) for i in range(n)])
    obs = [c11_output.run_out_case(c) for c in cases]
    lines = [c11_output.coq_out_case(c, o) for c, o in zip(cases, obs)]
    shards = ["\n".join(f"Eval vm_compute in ({l})." for l in lines[k:k + 60]) for k in range(0, len(lines), 60)]
    try:
        outs = coq.eval_shards(sd / "coq-out", c11_output.OUT_HEADER, shards)
    except RuntimeError as e:
        chk.broken.append(f"Model:evaluation of the output-stage model failed ({str(e)[:400]})")
        return
    flat = [o for sh in outs for o in sh]
    if len(flat) != len(cases):
        chk.broken.append(f"Model:expected {len(cases)} output-stage results, got {len(flat)}")
        return
    for c, o, v in zip(cases, obs, flat):
        agree, exit_ok, typed, regions_ok = bool(v[0]), bool(v[1]), bool(v[2]), bool(v[3])
        chk.traces_validated += 1
        chk.count(["out", c["fmt"], c["violations"]], not typed)
        chk.dist("out:format:" + c["fmt"])
        chk.dist("out:" + ("well-typed" if typed else "some-field-of-another-type") + ":" + ("exit-0-1" if exit_ok else "exit-error"))
        chk.sample({"part": "output stage", "format": c["fmt"], "violations": c["violations"], "impl": o}, 4)
        info = {"case": {"part": "out", "case": c}, "impl": o}
        if typed and not exit_ok:
            chk.violation({"reason": f"output stage: --format {c['fmt']} ended with exit status {o['exit']!r} on violations whose fields all have their annotated "
                                     f"types ({o.get('error')})", **info})
        elif not agree:
            chk.violation({"reason": f"output stage: exit status {o['exit']!r} of --format {c['fmt']} differs from Model/ContainOut.v (the formatter uses a field "
                                     "differently from Gen.output_uses as interpreted by op_ok)", **info})
        elif not regions_ok:
            chk.violation({"reason": "output stage: the (startLine, startColumn) pairs of the SARIF document differ from Model.sarif_region", **info})
        elif o.get("error") and str(o["error"]).startswith("unparsable"):
            chk.violation({"reason": "output stage: " + o["error"], **info})


# ------------------------------------------------------------------ entry point
def run(tier: str, seed: int, replay: str | None = None) -> int:
    chk = Check(PROP, tier, seed)
    _merge_known(chk)
    chk.rule = (
        "five kinds of cases.  (1) stub scenarios [proof part, correspondence]: 1-4 injected partial rules (per file: report lines / raise one of 22 "
        "exception classes / remember evidence; finalize echoing or failing) x 1-6 files through the real Orchestrator.lint_files and the worker path "
        "of lint_files_parallel; non-trivial = some (rule,file) pair or finalize fails.  (2) detection [proof part]: generated file names (stems x "
        "upper/lower/odd extensions) x contents (shebang variants, BOM, CR, NUL, invalid UTF-8, random bytes), plus the small stream offenders; "
        "non-trivial = the name has a suffix or the content starts with #!.  (3) mutation stream [validated part]: a donor (valid py/ts/js/rs file) "
        "mutated by one of 13 classes (truncate, token-delete, token-dup, bracket, encoding, bom, eol, nul, nesting-blowup, length-blowup, unknown-ext, "
        "degenerate, random-bytes; a quarter with a second mutation on top), plus a deterministic sweep of every nesting blow-up shape beyond the "
        "recursion limit, placed at a random position among 9 healthy files (two of them twins with a cross-file duplicate) and linted in-process "
        "(default config / duplicate-code enabled; lint_files / lint_directory) and, for a subset, through each CLI command (--parallel for a fifth); "
        "non-trivial = the offender's own findings differ from a healthy file of its language, or it is not detected as a supported language, "
        "or any oracle clause fired; distinct = distinct (file name, bytes).  The violations of EVERY stream run are also put through the real output stage "
        "(format_violations inside run_linter_command) in every --format: exit status 0/1, well-formed text / json / sarif document (sarif: startLine, "
        "startColumn integers >= 1), document fields equal to the objects'.  (4) carrier sweep [validated part, deterministic]: a healthy carrier of "
        "cross-file material (stringly-typed comparisons / calls / membership test, a duplicate-code block, a module constant; below the cross-file "
        "threshold on its own, live next to its copy: checked in every run) linted directly BEFORE and directly AFTER each kind of damaged file "
        "(truncated, open string, bracket dropped / extra, NUL, undecodable, empty, whitespace) of each language, in-process (duplicate-code on) and, as one "
        "sequence carrier/damaged/carrier/..., through every linter command x --format json, sarif (text for every fourth command; all in the thorough "
        "tier): carriers' findings equal to the run without the damaged files in every format.  (5) output stage [proof part, correspondence]: 0-4 "
        "Violation objects whose fields carry an int / None / str / enum member (a deterministic sweep field x foreign value x format, plus random ones) "
        "through the real format_violations + run_linter_command against Model/ContainOut.v; non-trivial = some field has a type other than annotated")
    chk.trusted_base += [
        "PROVED PART: Model/Contain.v - rules are abstract partial functions (result per file, evidence per file, finalize); the three containment "
        "sites, their except tables, the finalize guard, the CLI error exit and the store order of DRY / stringly-typed come from Gen/ContainGen.v; "
        "the class hierarchy of exceptions (mro) is hand-written and compared with CPython on every run",
        "VALIDATED PART (not proved, cannot be): that CPython's parser, tree-sitter, the recursive tree walkers, read_text, sqlite and the OS neither "
        "raise, hang nor exhaust the stack on a given byte string - established only for the generated mutation stream of this run",
        "hook H1 (_verif_failure_tap in src/orchestrator/core.py) as the observer of swallowed exceptions; theorem C11_failure_log_complete shows the "
        "model's three containment sites log every swallowed failure, that the code has no fourth site is checked by the generated shape items",
        "the 'hang' clause is calibrated in every run: CPU time of the worker process only, compared with a reference workload (the healthy files alone, measured twice in the same worker) scaled by total size; hang = 100 x that (20 x..100 x is a note and never decides the exit status); a worker is killed after 100 CPU s; a CLI command may take 100 x the wall time of a reference CLI run of the same moment (at least 150 s)",
        "OUTPUT STAGE: Model/ContainOut.v models Python values by type tag (int / None / str / enum member: bool, float and other objects are outside) and "
        "json.dumps / str() / f-strings as total on them; which operation each formatter applies to each field comes from Gen/ContainOutGen.v "
        "(output_uses: any unclassified syntactic context fails closed); that real rules only ever produce well-typed fields is VALIDATED (every stream "
        "run is rendered in every format), not proved - except the position attributes of a caught SyntaxError, whose `or <int>` defaulting is a census "
        "theorem (C11_syntax_error_fields_defaulted)",
        "ANALYZER STATE: the containment model takes a rule as a function of the file; that the analyzers behind the rules carry nothing from one file "
        "to the next is a census (Gen.state_sites: 104 assignment / mutation sites outside __init__, 68 covered by a reset, 36 audited BY HAND in "
        "Proofs/ContainCensus.v) plus the carrier sweep - the audit is trusted, a new site breaks C11_state_census",
        "a failing finalize() is a modelled case (flag q_finalize_unguarded): the main theorems need no hypothesis about it; it is exercised with injected "
        "rules only - no file content making a real finalize() raise was found by the stream",
    ]
    from harness.common import install_failure_tap
    install_failure_tap()      # keeps the orchestrator's logger.exception output of the stub scenarios off stderr
    chk.build(["theories/Props/C11.v"], ["ContainGen", "CensusGen", "ContainOutGen"], known_v=["theories/Props/C11Known.v"])
    phases = {"build": round(time.time() - chk.t0, 1)}
    scale = chk.budget_scale()
    quick = tier == "quick"
    n_stub = (220 if quick else 2200) * scale
    n_detect = (240 if quick else 2400) * scale
    n_stream = (90 if quick else 4000) * scale
    n_cli = 30 if quick else 400
    c11_mut.BIG = not quick
    with scratch_dir("tv-c11-") as sd:
        if replay:
            return _replay(chk, replay, seed, sd)
        grid, gnotes = grid_cases(seed, 1 if quick else 6)
        chk.notes.extend(gnotes)
        stream_cases = (corpus_cases() + sweep_cases() + literal_and_comment_sweeps(seed, quick) + state_leak_and_shebang_sweeps(quick)
                        + carrier_cases(quick) + grid + gen_stream_cases(seed, n_stream))
        results, baselines = {}, {}

        def go():
            r, b = c11_stream.run_stream([{k: v for k, v in c.items() if k != "meta"} for c in stream_cases], sd / "stream", WORKERS)
            results.update(r)
            baselines.update(b)

        th = threading.Thread(target=go)
        t1 = time.time()
        th.start()
        lines, tags = logic_part(chk, seed, n_stub, n_detect, stream_cases, sd)
        phases["logic_impl"] = round(time.time() - t1, 1)
        t2 = time.time()
        cli_part(chk, seed, stream_cases, n_cli, sd)
        phases["cli"] = round(time.time() - t2, 1)
        t2 = time.time()
        cli_sequence_part(chk, sd, COMMANDS, quick)
        phases["cli_sequence"] = round(time.time() - t2, 1)
        th.join()
        phases["stream_total"] = round(time.time() - t1, 1)
        t3 = time.time()
        judge_logic(chk, lines, tags, results, sd)      # first: a failing input of the modelled logic makes the better replay
        output_logic_part(chk, seed, int((150 if quick else 3000) * scale), sd)
        _judge_stream_all(chk, stream_cases, results, baselines)
        phases["coq_eval"] = round(time.time() - t3, 1)
        phases["stream_cpu_s"] = round(sum((r.get("cpu") or 0) for r in results.values()), 1)
        chk.extra_cov["phase_seconds"] = phases
    if not quick:
        ok, out = coq.run_coqchk("theories/Props/C11.v")
        chk.extra_cov["coqchk"] = {"ok": ok, "output_tail": out[-600:]}
        if not ok:
            chk.broken.append("Gate:coqchk rejected Props/C11.v: " + out[-300:])
    chk.extra_cov["proved_vs_validated"] = {
        "proved": "containment logic, cross-file store order, language detection, output stage (exit status vs field types), analyzers with memory, censuses (Props/C11.v)",
        "validated_only": "absence of crashes / hangs / swallowed failures / sibling interference for concrete byte strings (mutation stream, CLI runs)"}
    return chk.finish()


def _judge_stream_all(chk, stream_cases, results, baselines):
    for k, b in baselines.items():
        if b.get("crash") or b.get("failures") or b.get("n") is None:
            chk.violation({"reason": "the run on the healthy files alone crashed or had a swallowed failure", "baseline": k, "detail": b})
    healthy = {}
    for b in baselines.values():
        for lang, name in (("py", "sib1.py"), ("ts", "sib3.ts"), ("js", "sib4.js"), ("rs", "sib5.rs")):
            if b.get("rules_by_file"):
                healthy.setdefault(lang, b["rules_by_file"].get(name))
    shown = 0
    for c in stream_cases:
        res = results.get(c["id"])
        nontrivial = judge_stream(chk, c, res, healthy)
        chk.count(["layout", c["id"]] if c.get("layout") is not None else ["stream", c["name"], hashlib.sha256(c["data"]).hexdigest()], nontrivial)
        chk.dist("stream:class:" + c["meta"]["cls"])
        chk.dist("stream:lang:" + c["meta"]["lang"])
        chk.dist("stream:config:" + c["config"] + "/" + c["mode"])
        if res and shown < 3 and re.fullmatch(r"s\d+", c["id"]) and res.get("own") is not None:
            shown += 1
            chk.sample({"part": "mutation stream", "class": c["meta"]["cls"], "kind": c["meta"]["kind"], "file": c["name"], "bytes": len(c["data"]),
                        "head": c["data"][:160].decode("latin-1"), "own_violations": res.get("own"), "failures": res.get("failures"),
                        "siblings_equal": res.get("siblings_equal"), "cpu_s": res.get("cpu")}, 5)
    chk.extra_cov["stream_runs"] = len(stream_cases)


def _replay(chk: Check, replay: str, seed: int, sd: Path) -> int:
    doc = json.loads(Path(replay).read_text())
    v = doc.get("violation") or {}
    case = v.get("case") or {}
    part = case.get("part")
    if part in ("stream", "cli") and str(case.get("data_b64", "")).startswith("(too large"):
        chk.notes.append("replay of a large case: regenerated from seed and id")
        sd0 = doc.get("seed", seed)
        cands = [c for c in corpus_cases() + sweep_cases() + literal_and_comment_sweeps(sd0, False) + state_leak_and_shebang_sweeps(False) + grid_cases(sd0, 6)[0] + gen_stream_cases(sd0, 8000)
                 if c["id"] == case.get("id")]
        sc = cands[:1]
    elif part in ("stream", "cli"):
        off = {"cls": case["cls"], "kind": case["kind"], "lang": case["lang"], "name": case["name"], "data": base64.b64decode(case["data_b64"])}
        sc = [_mk_case(case.get("id", "replay"), off, case.get("config", "default"), case.get("mode", "files"), case.get("pos", 3))]
    elif part == "layout":
        files = [(n, base64.b64decode(b), off) for n, b, off in case["layout"]]
        sc = [{"id": case.get("id", "replay"), "name": "layout", "data": b"".join(b for _, b, off in files if off), "config": case.get("config", "dry"),
               "mode": "files", "pos": 0, "layout": case["layout"], "weight": 1.0,
               "meta": {"cls": case["cls"], "kind": case["kind"], "lang": case["lang"]}}]
    else:
        sc = []
    if sc:
        r, b = c11_stream.run_stream([{k: x for k, x in c.items() if k != "meta"} for c in sc], sd / "stream", 1)
        _judge_stream_all(chk, sc, r, b)
        if part == "cli":
            cli_part(chk, seed, [dict(sc[0], id="corpus:replay")], 1, sd)
    elif part == "out":
        output_logic_part(chk, seed, 0, sd, only=case["case"])
    elif part in ("stub", "detect"):
        lines, tags = logic_part(chk, seed, 0, 0, [], sd, only=case["case"])
        judge_logic(chk, lines, tags, {}, sd)
    else:
        chk.notes.append("replay file names no failing input (broken obligation): full run")
        return run(chk.tier, seed, None)
    return chk.finish()
