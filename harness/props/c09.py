"""C09 — results do not depend on how paths are spelled or where the project lives.

One generated project is materialised under differently named parent directories inside a scratch
directory and the real CLI is invoked on it with absolute / relative / dot spellings from several working
directories.  The Coq model (Model/PathLoc.v) is evaluated on the same abstract inputs (path components as
they reach lint_file, root-marker chain, ignore patterns, what the analysers find in each file's text) and
the outputs are judged inside coqc (Model/PathLocRun.v).
"""
from __future__ import annotations

import json
import os
from pathlib import Path

from harness import coq
from harness.common import VERIF, parse_json_violations, pool_map, rng_for, run_cli, scratch_dir
from harness.framework import Check

PROP = "C09"
FLAGS = ["q_excl_all_parts", "q_ignore_no_reroot", "q_linter_ignore_full_path", "q_fp_relative_unchanged", "q_test_marker_full_path",
         "q_rule_parser_cwd"]
HEADER = ("From TL Require Import Lib.Base Lib.GenTypes Model.PathLocTypes Gen.PathLocGen Model.PathLoc Model.PathLocRun "
          "Actual.PathLocActual.\n")

# ------------------------------------------------------------------ file templates and what the analysers find in them
PY = '''class Helper:
    def get_value(self):
        return self._value


class Util:
    def alpha(self, x):
        return x + 1

    def beta(self, x):
        return x - 1


def compute(x, items):
    print(x)
    total = 4242 * x
    for a in items:
        if a:
            for b in a:
                if b:
                    total += 1
    return total


def pick(items):
    out = []
    for item in items:
        if not item:
            continue
        out.append(item)
    return out
'''
TS = '''function compute(x: number): number {
  console.log(x);
  return x * 4242;
}
'''
RS = '''fn compute() -> i32 {
    let v = foo().unwrap();
    v * 4242
}

async fn load() {
    let s = std::fs::read_to_string("x");
}

fn dup(items: &Vec<String>) {
    for i in items {
        let c = i.clone();
    }
}
'''
# a Python file whose only finding is the cross-file stringly-typed one (the same membership test in >= 2 analysed files)
PYST = '''def check_status(status):
    if status in ("active", "pending", "closed"):
        return True
    return False
'''
# directive-carrying variants of the templates: the same code with suppression comments (`# dry: ignore-block`, line-level
# `thailint: ignore[rule]`).  Whether a directive is honoured is a matter of the file's CONTENT: it must not depend on how the path of
# the file is spelled (stores keyed by a path string - DRY inline-ignore ranges, file-content caches - are where that goes wrong).
PYD = PY.replace("\n\ndef compute(x, items):", "\n\n# dry: ignore-block\ndef compute(x, items):").replace(
    "total = 4242 * x", "total = 4242 * x  # thailint: ignore[magic-numbers]")
TSD = TS.replace("console.log(x);", "console.log(x); // thailint: ignore[print-statements]")
PYSTD = PYST.replace('"closed"):', '"closed"):  # thailint: ignore[stringly-typed]')
assert PYD.count("ignore") == 2 and TSD.count("ignore") == 1 and PYSTD.count("ignore") == 1
TEXT = {"py": PY, "ts": TS, "rs": RS, "pyst": PYST, "pyd": PYD, "tsd": TSD, "pystd": PYSTD}
EXT = {"py": ".py", "ts": ".ts", "rs": ".rs", "pyst": ".py", "pyd": ".py", "tsd": ".ts", "pystd": ".py"}
COQ_LANG = {"py": "LPy", "ts": "LTs", "rs": "LRs", "cfg": "LOther", "pyst": "LPy", "pyd": "LPy", "tsd": "LTs", "pystd": "LPy"}
BASE_LANG = {"py": "py", "ts": "ts", "rs": "rs", "pyd": "py", "tsd": "ts"}
DIRECTIVE_VARIANT = {"py": "pyd", "ts": "tsd", "pyst": "pystd"}
# lines at which each command reports a violation in a template when no path filter applies (a content oracle:
# validated on every run by the cases in neutral locations)
RAW = {
    "py": {"magic-numbers": [16], "print-statements": [15], "nesting": [14], "srp": [1, 6], "method-property": [2],
           "stateless-class": [6], "file-placement": [1], "dry": [1, 6, 10, 15, 18, 21, 26, 29], "file-header": [1], "pipeline": [27]},
    "ts": {"magic-numbers": [3], "print-statements": [2], "file-placement": [1], "dry": [1], "file-header": [1]},
    "pyst": {"stringly-typed": [2], "file-placement": [1], "file-header": [1]},
    "rs": {"magic-numbers": [3], "unwrap-abuse": [2], "clone-abuse": [12], "blocking-async": [7], "file-placement": [1]},
    "cfg": {"file-placement": [1]},
    # directive-carrying variants (same content oracle; validated in neutral locations): the dry block directive silences the blocks of
    # `compute`, the line directives silence exactly one finding each; a silenced file still counts as a duplicate partner
    "pyd": {"magic-numbers": [], "print-statements": [16], "nesting": [15], "srp": [1, 6], "method-property": [2],
            "stateless-class": [6], "file-placement": [1], "dry": [1, 6, 27, 30], "file-header": [1], "pipeline": [28]},
    "tsd": {"magic-numbers": [3], "print-statements": [], "file-placement": [1], "dry": [1], "file-header": [1]},
    "pystd": {"stringly-typed": [], "file-placement": [1], "file-header": [1]},
}
RULE_ID = {"magic-numbers": "magic-numbers.numeric-literal", "print-statements": "improper-logging.print-statement",
           "nesting": "nesting.excessive-depth", "srp": "srp.violation", "unwrap-abuse": "unwrap-abuse.unwrap-call",
           "clone-abuse": "clone-abuse.clone-in-loop", "blocking-async": "blocking-async.fs-in-async",
           "method-property": "method-property.should-be-property", "stateless-class": "stateless-class.violation",
           "file-placement": "file-placement", "file-header": "file-header.validation",
           "pipeline": "collection-pipeline.embedded-filter"}
SECTION = {"pipeline": "collection-pipeline"}   # configuration section of a command when it differs from the command name
CMDS = list(RULE_ID)           # the per-file commands drawn at random
RULE_ID["dry"] = "dry.duplicate-code"   # cross-file: run on dedicated projects (gen_dry) whose duplicate partners are known
RULE_ID["stringly-typed"] = "stringly-typed.repeated-validation"   # cross-file: dedicated projects (gen_st_project)
DRY_CFG = {"enabled": True, "min_duplicate_lines": 3, "cache_enabled": False}
BASE_CFG = {"nesting": {"max_nesting_depth": 2}, "srp": {"max_methods": 1}}

NEUTRAL_DIRS = ["src", "lib", "app", "core", "pkg"]
SPECIAL_DIRS = ["tests", "test", "examples", "benches", "build", "dist", "venv", "node_modules", "test_data", "foo.egg-info",
                "my_tests", "contest", "spec.d"]
STEMS = {"py": ["mod", "util", "test_mod", "mod_test", "helper", "conftest"],
         "ts": ["mod", "util", "a.test", "a.spec", "test_util", "util_test"],
         "rs": ["lib", "main", "util", "test_x"]}
LINTER_PATS = ["**/lib/**", "**/mod.py", "**/tests/**", "lib/", "tests/", "src/", "test", "mod", "*_test.py", "**/mod.py", "*/mod.*", "/src/", "core/util.py", "app/*/*.py", "*.ts",
               "proj/", "ok/", "*/*/*/*.py", "util"]
REPO_PATS = ["lib/", "tests/", "src/*", "*.ts", "*/util.py", "lib/*.py", "**/mod.py", "mod.py", "*mod.py", "src/", "core/", "ok/", "proj/*",
             "*/src/*", "app*"]
FP_DIRS = ["src", "lib/", "tests", "app/core", "te", "proj", "s", "ok/"]
CWD_PATS = ["*.py", "*mod.ts", "src/", "lib/*", "*/src/*", "*.rs", "*"]
NEUTRAL_PARENTS = ["ok", "work", "x1", "code"]
PROJ_NAMES = ["proj", "proj", "proj", "app", "build", "tests", "my.spec.x", "service.v2"]
# directory names with a dot in them (a directory is not a file because its name has a "suffix"): used as the project's own name, as
# parents and in the root-detection unit cases
DOTTED_DIRS = ["service.v2", "api.d", "site.py", "v1.2"]
# names a path-based test / fixture exemption plausibly keys on although no table of the current source lists them
EXTRA_PARENTS = ["__tests__", "spec", "testing", "fixtures"]
PROCS = max(1, int(os.environ.get("VERIF_C09_PROCS", "8")))


def special_parents() -> list[str]:
    """every built-in excluded directory name, every test-marker substring, names hit by configured patterns"""
    from translator import items_pathloc
    t = items_pathloc.tables_for_harness()
    names = [("pkg.egg-info" if "*" in d else d) for d in t["excluded_dirs"]]
    for m in t["ts_markers"]:
        core = m.strip("/")
        names.append({".test.": "x.test.y", ".spec.": "a.spec.b", "test_": "test_data", "_test.": "unit_test.d"}.get(m, core))
    for m in t["rust_default_ignore"]:
        names.append(m.strip("/"))
    names += [n for n in t.get("default_ignore_dir_names", []) if n not in names]
    names += ["lib", "src", "mod", "my_tests"] + EXTRA_PARENTS + DOTTED_DIRS[:2]
    out = []
    for n in names:
        if n and n not in out and "/" not in n:
            out.append(n)
    return out


def root_marker_names() -> list[tuple[str, bool]]:
    from translator import items_pathloc
    return items_pathloc.tables_for_harness()["root_markers"]


# ------------------------------------------------------------------ generation
def gen_project(r) -> dict:
    nfiles = r.randint(3, 6)
    files, seen = [], set()
    while len(files) < nfiles:
        lang = r.choice(["py", "py", "ts", "rs"])
        depth = r.choice([0, 1, 1, 1, 2, 2, 3])
        dirs = [r.choice(NEUTRAL_DIRS if r.random() < 0.6 else SPECIAL_DIRS) for _ in range(depth)]
        rel = dirs + [r.choice(STEMS[lang]) + EXT[lang]]
        if tuple(rel) in seen or any(tuple(rel[:k]) in seen for k in range(1, len(rel))) or any(s[:len(rel)] == tuple(rel) for s in seen):
            continue
        seen.add(tuple(rel))
        files.append({"rel": rel, "tpl": DIRECTIVE_VARIANT[lang] if lang in DIRECTIVE_VARIANT and r.random() < 0.3 else lang})
    cfg = json.loads(json.dumps(BASE_CFG))
    lint_ign = {}
    for cmd in CMDS:
        if cmd == "file-placement":
            if r.random() < 0.8:
                lint_ign[cmd] = r.sample(FP_DIRS, r.choice([1, 1, 2]))
                cfg["file-placement"] = {"directories": {d: {"deny": [{"pattern": ".*", "reason": "no files here"}]} for d in lint_ign[cmd]}}
        elif r.random() < 0.55:
            lint_ign[cmd] = r.sample(LINTER_PATS, r.choice([1, 1, 2]))
            cfg.setdefault(SECTION.get(cmd, cmd), {})["ignore"] = lint_ign[cmd]
    # the pipeline rule falls back to the WHOLE configuration when it has no section of its own (the repo-level `ignore:` list would then
    # double as its linter ignore list): the generated projects always have the section
    cfg.setdefault(SECTION["pipeline"], {})
    repo_kind = r.choice(["none", "none", "file", "yaml", "both"])
    repo_pats, yaml_pats = [], []
    if repo_kind in ("file", "both"):
        repo_pats = r.sample(REPO_PATS, r.choice([1, 1, 2]))
    if repo_kind in ("yaml", "both"):
        yaml_pats = r.sample(REPO_PATS, r.choice([1, 2]))
        cfg["ignore"] = yaml_pats
    extra = {".thailint.yaml": json.dumps(cfg, indent=1)}
    if repo_kind in ("file", "both"):
        extra[".thailintignore"] = "\n".join(repo_pats) + "\n"
    marker = r.choice(["yaml", "yaml", "yaml+git", "yaml+pyproject"])
    # _load_repo_ignores (since fix bbae54e): .thailintignore patterns followed by the config's ignore list
    return {"files": files, "extra": extra, "lint_ign": lint_ign, "root_pats": repo_pats + yaml_pats, "marker": marker}


COMBOS = [("home", "abs", "dir"), ("proj", "dot", "dir"), ("parent", "rel", "dir"), ("grand", "rel", "dir"), ("other", "abs", "dir"),
          ("other", "rel", "dir"), ("proj", "rel", "files"), ("home", "abs", "files"), ("grand", "rel", "files"), ("proj", "abs", "dir"),
          ("parent", "rel", "files"), ("other", "abs", "files"),
          # working directory strictly inside the project: `mod.py`, `../lib/x.py`, `.` typed in a sub-directory
          ("sub", "rel", "files"), ("sub", "rel", "files"), ("sub", "dot", "dir")]
CONFIG_SENSITIVE = ["nesting", "srp"]   # verdict depends on the project's .thailint.yaml (BASE_CFG): a lost project root shows


def _pick_sub(r, project):
    """a directory of the project (a proper prefix of some file's path) to use as working directory, or None"""
    deep = [f["rel"] for f in project["files"] if len(f["rel"]) >= 2]
    if not deep:
        return None
    rel = r.choice(deep)
    return rel[:r.randint(1, len(rel) - 1)]


def gen_invocations(r, project, n: int, cmd_cycle: list[str]) -> list[dict]:
    out = []
    for _ in range(n):
        cwd, spelling, target = r.choice(COMBOS)
        cmd = cmd_cycle.pop(0) if cmd_cycle else r.choice(CMDS)
        sub = _pick_sub(r, project) if cwd == "sub" else None
        if cwd == "sub" and sub is None:
            cwd, spelling, target = "proj", "rel", "files"
        inv = {"cwd": cwd, "spelling": spelling, "target": target, "cmd": cmd}
        if sub is not None:
            inv["sub"] = sub
            if r.random() < 0.6:
                inv["cmd"] = r.choice(CONFIG_SENSITIVE)
        if target == "files":
            k = r.randint(1, min(3, len(project["files"])))
            inv["pick"] = sorted(r.sample(range(len(project["files"])), k))
            r.shuffle(inv["pick"])
        if cwd == "other":
            inv["cwd_pats"] = r.sample(CWD_PATS, r.choice([0, 1, 1, 2]))
        if r.random() < 0.18:
            # group-level --config in relative / absolute spelling, independent of the target spelling; mostly for the commands whose
            # verdict depends on the project-relative path (file-placement rules, anchored repo ignore patterns)
            inv["gcfg"] = r.choice(["rel", "rel", "abs"])
            if r.random() < 0.6:
                inv["cmd"] = "file-placement"
        out.append(inv)
    return out


def gen_groups(seed: int, n_projects: int, n_special: int, n_inv: int) -> list[dict]:
    specials = special_parents()
    groups = []
    cmd_cycle: list[str] = []
    si = 0
    r0 = rng_for(seed, PROP, "order")
    r0.shuffle(specials)
    for i in range(n_projects):
        r = rng_for(seed, PROP, i)
        project = gen_project(r)
        locs = [{"parents": [r.choice(NEUTRAL_PARENTS)] + ([r.choice(NEUTRAL_PARENTS)] if r.random() < 0.3 else []), "name": "proj"}]
        for _ in range(n_special):
            sp = specials[si % len(specials)]
            si += 1
            parents = [sp] if r.random() < 0.6 else r.choice([[sp, r.choice(NEUTRAL_PARENTS)], [r.choice(NEUTRAL_PARENTS), sp]])
            locs.append({"parents": parents, "name": r.choice(PROJ_NAMES)})
        for li, loc in enumerate(locs):
            if len(cmd_cycle) < n_inv:
                c = list(CMDS)
                r.shuffle(c)
                cmd_cycle += c
            groups.append({"id": f"{i}.{li}", "project": project, "loc": loc, "invs": gen_invocations(r, project, n_inv, cmd_cycle)})
    return groups


def _strip_linter_ignores(project: dict) -> None:
    """drop every configured per-linter ignore list (file-placement rules stay): the linters' DEFAULT ignore lists are in force then"""
    cfg = json.loads(project["extra"][".thailint.yaml"])
    for cmd in [c for c in project["lint_ign"] if c != "file-placement"]:
        cfg.get(SECTION.get(cmd, cmd), {}).pop("ignore", None)
        del project["lint_ign"][cmd]
    project["extra"][".thailint.yaml"] = json.dumps(cfg, indent=1)


def gen_matrix(seed: int, n_projects: int) -> list[dict]:
    """in-process matrix: every special parent name x every command, absolute spelling plus one rotating other spelling"""
    specials = special_parents()
    others = [("grand", "rel", "dir"), ("proj", "dot", "dir"), ("parent", "rel", "dir"), ("other", "abs", "dir"), ("grand", "rel", "files"),
              ("other", "rel", "dir"), ("sub", "rel", "files")]
    par_spellings = [("grand", "rel", "dir"), ("proj", "dot", "dir"), ("parent", "rel", "dir"), ("proj", "rel", "files"), ("home", "abs", "dir")]
    groups = []
    for i in range(n_projects):
        r = rng_for(seed, PROP, "matrix", i)
        project = gen_project(r)
        if i % 2 == 1:   # every other matrix project runs under the default ignore lists of the linters (a configured list replaces them)
            _strip_linter_ignores(project)
        have = {f["tpl"] for f in project["files"]}
        for lang in ("py", "ts", "rs", "pyd", "tsd"):   # every command must have something to find; every directive must occur
            if lang not in have:
                project["files"].append({"rel": [r.choice(NEUTRAL_DIRS), "extra_" + lang + EXT[lang]], "tpl": lang})
        # a file of every language directly in the project directory: its parent directory IS the project directory, whatever that is called
        for lang in ("py", "ts", "rs"):
            if not any(len(f["rel"]) == 1 and BASE_LANG.get(f["tpl"]) == lang for f in project["files"]):
                project["files"].append({"rel": ["top_" + lang + EXT[lang]], "tpl": lang})
        # a file inside every directory name that a default ignore pattern of some linter mentions (tests/, examples/, migrations/ ...):
        # INSIDE the project these names must keep working for every spelling
        from translator import items_pathloc
        for k, dn in enumerate(items_pathloc.tables_for_harness().get("default_ignore_dir_names", [])):
            lang = ("rs", "py", "ts")[k % 3]
            rel = [dn, "in_" + lang + EXT[lang]]
            if not any(f["rel"][:1] == [dn] for f in project["files"]) and not any(f["rel"] == [dn] for f in project["files"]):
                project["files"].append({"rel": rel, "tpl": lang})
        dry_project = gen_dry_project(r)
        st_project = gen_st_project(r)
        names = [r.choice(NEUTRAL_PARENTS)] + specials
        for li, nm in enumerate(names):
            invs = []
            for ci, cmd in enumerate(CMDS):
                invs.append({"cwd": "home", "spelling": "abs", "target": "dir", "cmd": cmd})
                if cmd in ("file-placement", "nesting"):   # relative group-level --config with an absolute target
                    invs.append({"cwd": ["proj", "parent", "grand"][(i + li) % 3], "spelling": "abs", "target": "dir", "cmd": cmd, "gcfg": "rel"})
                cwd, spelling, target = others[(i + li + ci) % len(others)]
                inv = {"cwd": cwd, "spelling": spelling, "target": target, "cmd": cmd}
                if cmd == "file-placement" and (i + li) % 2:
                    inv["gcfg"] = "abs"
                if target == "files":
                    inv["pick"] = list(range(len(project["files"])))
                if cwd == "other":
                    inv["cwd_pats"] = r.sample(CWD_PATS, r.choice([0, 1, 1]))
                if cwd == "sub":
                    inv["sub"] = _pick_sub(r, project)
                    if inv["sub"] is None:
                        inv["cwd"] = "proj"
                invs.append(inv)
            parents = [nm] if r.random() < 0.7 else [nm, r.choice(NEUTRAL_PARENTS)]
            # every other location: the special name is the project directory's OWN name (under a neutral parent) - with two matrix projects
            # every name occurs once above the project and once as the project; otherwise the project is called proj or has a dotted name
            # (a directory whose name has a "suffix" is still a directory)
            pname = "proj"
            if (i + li) % 2 == 1 and nm != ".git":
                parents, pname = [r.choice(NEUTRAL_PARENTS)], nm
            elif (li // 2) % 2 == 1:
                pname = DOTTED_DIRS[(i + li // 4) % len(DOTTED_DIRS)]
            groups.append({"id": f"m{i}.{li}", "via": "api", "project": project, "loc": {"parents": parents, "name": pname}, "invs": invs})
            # the same location through the process-pool path (lint_files_parallel / lint_directory_parallel, 2 workers): the
            # parallel run must report what the specification says for every spelling
            cwd, spelling, target = par_spellings[(i + li) % len(par_spellings)]
            pinv = {"cwd": cwd, "spelling": spelling, "target": target, "cmd": CMDS[(i + li) % len(CMDS)], "parallel": 2}
            if target == "files":
                pinv["pick"] = list(range(len(project["files"])))
            groups.append({"id": f"p{i}.{li}", "via": "api", "pool": True, "project": project, "loc": {"parents": parents, "name": pname},
                           "invs": [pinv]})
            # the cross-file rule at the same location: absolute spelling through the process pool, plus one rotating spelling
            dcwd, dsp, dtg = par_spellings[(i + li + 1) % len(par_spellings)]
            dinvs = [{"cwd": "home", "spelling": "abs", "target": "dir", "cmd": "dry", "parallel": 2},
                     {"cwd": dcwd, "spelling": dsp, "target": dtg, "cmd": "dry", **({"parallel": 2} if (i + li) % 2 else {})}]
            for dv in dinvs:
                if dv["target"] == "files":
                    dv["pick"] = list(range(len(dry_project["files"])))
            groups.append({"id": f"d{i}.{li}", "via": "api", "pool": True, "project": dry_project, "loc": {"parents": parents, "name": pname},
                           "invs": dinvs})
            scwd, ssp, stg = par_spellings[(i + li + 2) % len(par_spellings)]
            sinvs = [{"cwd": "home", "spelling": "abs", "target": "dir", "cmd": "stringly-typed"},
                     {"cwd": scwd, "spelling": ssp, "target": stg, "cmd": "stringly-typed", **({"parallel": 2} if (i + li) % 3 == 0 else {})}]
            for sv in sinvs:
                if sv["target"] == "files":
                    sv["pick"] = list(range(len(st_project["files"])))
            groups.append({"id": f"s{i}.{li}", "via": "api", "pool": True, "project": st_project, "loc": {"parents": parents, "name": pname},
                           "invs": sinvs})
    return groups


def gen_dry_project(r, n_min: int = 6) -> dict:
    """a project for the cross-file rule: dry enabled, every Python / TypeScript text has partners, no repo-level ignore patterns
    (the rule's own ignore parser is rooted at the first processed file's directory - not modelled - and stays inert that way)"""
    project = gen_project(r)
    cfg = json.loads(project["extra"][".thailint.yaml"])
    cfg.pop("ignore", None)
    cfg["dry"] = dict(DRY_CFG)
    project["lint_ign"] = {k: v for k, v in project["lint_ign"].items() if k != "dry"}
    if r.random() < 0.5:
        project["lint_ign"]["dry"] = r.sample(["lib/", "tests/", "src/", "test", "mod", "/src/", "proj/", "ok/", "util", "build/"], r.choice([1, 2]))
        cfg["dry"]["ignore"] = project["lint_ign"]["dry"]
    j = 0
    def lacks(tpl):
        return not any(f["tpl"] == tpl for f in project["files"])
    while (len(project["files"]) < n_min or sum(BASE_LANG[f["tpl"]] == "py" for f in project["files"]) < 2
           or sum(BASE_LANG[f["tpl"]] == "ts" for f in project["files"]) < 2 or lacks("pyd") or lacks("py")):
        # every dry project has a plain Python file and one that carries the `# dry: ignore-block` directive (its remaining blocks are
        # still reported, and it stays a partner of the others)
        lang = "py" if lacks("pyd") or lacks("py") else ["py", "ts"][j % 2]
        dirs = [r.choice(NEUTRAL_DIRS + SPECIAL_DIRS) for _ in range(r.choice([1, 1, 2]))]
        tpl = "pyd" if lacks("pyd") else "py" if lacks("py") else (DIRECTIVE_VARIANT[lang] if r.random() < (0.5 if lang == "py" else 0.25) else lang)
        project["files"].append({"rel": dirs + [f"{r.choice(STEMS[lang])}{j}{EXT[lang]}"], "tpl": tpl})
        j += 1
    project["extra"] = {".thailint.yaml": json.dumps(cfg, indent=1)}
    project["root_pats"] = []
    rels = [tuple(f["rel"]) for f in project["files"]]
    if any(a != b and b[:len(a)] == a for a in rels for b in rels):
        return gen_dry_project(r, n_min)
    return project


ST_PATS = ["lib/", "**/lib/**", "src/*", "*/util*", "mod", "tests/", "*helper.py", "**/src/**", "ok/", "**/proj/**"]


def gen_st_project(r, n_min: int = 5) -> dict:
    """a project for the cross-file stringly-typed rule: the same membership test in several Python files placed in neutral, test-like
    and default-ignored directories / file names; optional configured ignore list (merged with the defaults by the linter)"""
    base = gen_project(r)
    cfg = json.loads(base["extra"][".thailint.yaml"])
    lint_ign = {}
    if r.random() < 0.5:
        lint_ign["stringly-typed"] = r.sample(ST_PATS, r.choice([1, 2]))
        cfg["stringly-typed"] = {"ignore": lint_ign["stringly-typed"]}
    files, seen = [], set()
    while len(files) < n_min:
        tpl = "pyst" if len(files) < max(4, n_min - 2) else r.choice(["pyst", "ts", "rs"])
        force_directive = tpl == "pyst" and len(files) == 1   # every project has one file whose finding a line directive silences
        dirs = [r.choice(NEUTRAL_DIRS + ["tests", "test", "fixtures", "my_tests", "build", "examples"]) for _ in range(r.choice([0, 1, 1, 2]))]
        stem = r.choice(["mod", "util", "conftest", "mod_test", "helper", "check", "a.test"]) if tpl == "pyst" else r.choice(STEMS[tpl])
        rel = dirs + [stem + (str(len(files)) if r.random() < 0.5 and stem != "conftest" else "") + EXT[tpl]]
        if tuple(rel) in seen or any(tuple(rel[:k]) in seen for k in range(1, len(rel))) or any(x[:len(rel)] == tuple(rel) for x in seen):
            continue
        seen.add(tuple(rel))
        files.append({"rel": rel, "tpl": DIRECTIVE_VARIANT[tpl] if tpl in DIRECTIVE_VARIANT and (force_directive or r.random() < 0.25) else tpl})
    base["extra"][".thailint.yaml"] = json.dumps(cfg, indent=1)
    return {"files": files, "extra": base["extra"], "lint_ign": lint_ign, "root_pats": base["root_pats"], "marker": base["marker"]}


def gen_dry_cli(seed: int, n_projects: int) -> list[dict]:
    """real CLI `dry`, sequential and --parallel (>= 2 x default workers files), under excluded-name and marker-named parents"""
    specials = special_parents()
    from translator import items_pathloc
    excl = [("pkg.egg-info" if "*" in d else d) for d in items_pathloc.tables_for_harness()["excluded_dirs"] if d != ".git"]
    groups = []
    for i in range(2 * n_projects):
        cmd = "dry" if i % 2 == 0 else "stringly-typed"
        r = rng_for(seed, PROP, cmd, i)
        project = gen_dry_project(r, n_min=17) if cmd == "dry" else gen_st_project(r, n_min=17)
        for li, nm in enumerate([r.choice(excl), r.choice(specials + NEUTRAL_PARENTS)]):
            invs = []
            for k, (cwd, spelling, target) in enumerate(r.sample([("home", "abs", "dir"), ("proj", "dot", "dir"), ("grand", "rel", "dir"),
                                                                  ("other", "abs", "dir")], 2)):
                inv = {"cwd": cwd, "spelling": spelling, "target": target, "cmd": cmd}
                if cwd == "other":
                    inv["cwd_pats"] = r.sample(CWD_PATS, r.choice([0, 1]))
                if k == 0 or r.random() < 0.5:
                    inv["parallel"] = True
                invs.append(inv)
            groups.append({"id": f"D{i}.{li}", "project": project, "loc": {"parents": [nm], "name": "proj"}, "invs": invs})
    return groups


def gen_parallel_cli(seed: int, n_projects: int) -> list[dict]:
    """real CLI with --parallel: a project with enough files (>= 2 x default workers) for the process-pool path, under an excluded-name
    parent, a marker-named parent and a neutral one, in dot / relative / absolute spelling"""
    specials = special_parents()
    from translator import items_pathloc
    excl = [("pkg.egg-info" if "*" in d else d) for d in items_pathloc.tables_for_harness()["excluded_dirs"] if d != ".git"]
    groups = []
    for i in range(n_projects):
        r = rng_for(seed, PROP, "parallel", i)
        project = gen_project(r)
        j = 0
        while len(project["files"]) < 17:
            lang = ["py", "ts", "rs"][j % 3]
            dirs = [r.choice(NEUTRAL_DIRS + SPECIAL_DIRS) for _ in range(r.choice([1, 1, 2]))]
            project["files"].append({"rel": dirs + [f"{r.choice(STEMS[lang])}{j}{EXT[lang]}"],
                                     "tpl": DIRECTIVE_VARIANT[lang] if lang in DIRECTIVE_VARIANT and r.random() < 0.3 else lang})
            j += 1
        rels = [tuple(f["rel"]) for f in project["files"]]
        if any(a != b and b[:len(a)] == a for a in rels for b in rels):
            continue  # a file name used as a directory: skip this draw
        for li, nm in enumerate([r.choice(excl), r.choice(specials)]):
            invs = []
            for cwd, spelling, target in r.sample([("proj", "dot", "dir"), ("grand", "rel", "dir"), ("home", "abs", "dir"), ("parent", "rel", "dir")], 2):
                invs.append({"cwd": cwd, "spelling": spelling, "target": target, "cmd": r.choice(CMDS), "parallel": True})
            groups.append({"id": f"P{i}.{li}", "project": project, "loc": {"parents": [nm], "name": "proj"}, "invs": invs})
    return groups


# ------------------------------------------------------------------ materialise + run
def _write(root: Path, project: dict, force_git: bool = False):
    for f in project["files"]:
        p = root.joinpath(*f["rel"])
        p.parent.mkdir(parents=True, exist_ok=True)
        p.write_text(TEXT[f["tpl"]])
    for name, txt in project["extra"].items():
        (root / name).write_text(txt)
    if "git" in project["marker"] or force_git:
        (root / ".git").mkdir(exist_ok=True)
        (root / ".git" / "HEAD").write_text("ref: refs/heads/main\n")
    if "pyproject" in project["marker"]:
        (root / "pyproject.toml").write_text("[project]\nname = \"p\"\n")


def all_files(project: dict) -> list[dict]:
    """every file lint_file can be called with: the code files plus the configuration files"""
    return project["files"] + [{"rel": [n], "tpl": "cfg"} for n in sorted(project["extra"])] + \
        ([{"rel": ["pyproject.toml"], "tpl": "cfg"}] if "pyproject" in project["marker"] else [])


def layout(S: Path, loc: dict, inv: dict):
    """(cwd path, lead components of relative spellings or None for absolute, abs components of P)"""
    P = S.joinpath(*loc["parents"], loc["name"])
    rel_from = {"proj": [], "parent": [loc["name"]], "grand": loc["parents"] + [loc["name"]],
                "other": [".."] + loc["parents"] + [loc["name"]], "home": [".."] + loc["parents"] + [loc["name"]]}
    if inv["cwd"] == "sub":
        return P, P.joinpath(*inv["sub"]), (None if inv["spelling"] == "abs" else []), []
    cwd = {"proj": P, "parent": P.parent, "grand": S, "other": S / "other_cwd", "home": S / "home"}[inv["cwd"]]
    lead = None if inv["spelling"] == "abs" else rel_from[inv["cwd"]]
    return P, cwd, lead, rel_from[inv["cwd"]]


def chain_of(start: Path, markers) -> list[tuple[str, list[str]]]:
    """levels from / (exclusive) down to start with the root markers that really exist on disk"""
    out = []
    cur = Path("/")
    for comp in start.parts[1:]:
        cur = cur / comp
        has = [n for n, isdir in markers if ((cur / n).is_dir() if isdir else (cur / n).is_file())]
        out.append((comp, has))
    return out


def _api_invoke(cmd: str, targets: list[str], cwd: Path, parallel=None, gcfg=None):
    """what the CLI command does after click: detect the root from the first target, build the orchestrator, lint the targets as typed,
    keep the command's rule family.  In-process (forked worker, chdir) - used for the full name x command matrix; the CLI runs stay
    the authority for the glue."""
    from harness.common import drain_failures, install_failure_tap
    install_failure_tap()
    drain_failures()
    old = os.getcwd()
    try:
        from src.cli.utils import execute_linting_on_paths, setup_base_orchestrator
        from src.linter_config.ignore import clear_ignore_parser_cache
        from loguru import logger as _loguru
        _loguru.remove()   # the CLI group configures logging (WARNING and above); without it loguru's default handler prints DEBUG lines
        os.chdir(cwd)
        clear_ignore_parser_cache()  # a fresh process has no cached parser
        path_objs = [Path(t) for t in targets]
        root = None
        if gcfg:
            from src.cli.utils import _infer_root_from_config
            root = _infer_root_from_config(gcfg, False)
        orch = setup_base_orchestrator(path_objs, None, False, root)
        if parallel:
            # execute_linting_on_paths(parallel=True) with a small worker count, so that a handful of files already takes the
            # process-pool path (lint_files_parallel goes sequential below 2 x workers files)
            found = []
            fs = [p for p in path_objs if p.is_file()]
            if fs:
                found.extend(orch.lint_files_parallel(fs, max_workers=int(parallel)))
            for dpath in [p for p in path_objs if p.is_dir()]:
                found.extend(orch.lint_directory_parallel(dpath, recursive=True, max_workers=int(parallel)))
        else:
            found = execute_linting_on_paths(orch, path_objs, True, False)
    except BaseException as e:  # noqa: BLE001
        return 2, None, "", f"{type(e).__name__}: {e}", []
    finally:
        os.chdir(old)
    fam = RULE_ID[cmd].split(".")[0]
    vs = [{"rule_id": v.rule_id, "file_path": str(v.file_path), "line": v.line} for v in found if str(v.rule_id).startswith(fam)]
    return (1 if vs else 0), vs, "", "", [json.dumps(f) for f in drain_failures()[:5]]


def run_group(group: dict) -> list[dict]:
    """build the project at its location, run every invocation (real CLI, or in-process for via=api); one record per invocation"""
    markers = root_marker_names()
    res = []
    with scratch_dir("tv-c09-") as d:
        S = d.resolve()
        home = S / "home"
        home.mkdir()
        other = S / "other_cwd"
        other.mkdir()
        project, loc = group["project"], group["loc"]
        P = S.joinpath(*loc["parents"], loc["name"])
        P.mkdir(parents=True)
        # a parent literally called .git turns ITS parent into a repository root for the marker search; give the project its own
        # .git directory then, so that the project directory stays the detected root (deepest marker wins)
        _write(P, project, force_git=".git" in loc["parents"])
        for inv in group["invs"]:
            _, cwd, lead, rel_lead = layout(S, loc, inv)
            ign = other / ".thailintignore"
            if ign.exists():
                ign.unlink()
            if inv.get("cwd_pats"):
                ign.write_text("\n".join(inv["cwd_pats"]) + "\n")
            files = all_files(project)
            sub = inv.get("sub") if inv["cwd"] == "sub" else None
            if inv["target"] == "files":
                files = [project["files"][k] for k in inv["pick"]]
            elif sub is not None:
                files = [f for f in files if f["rel"][:len(sub)] == sub and len(f["rel"]) > len(sub)]   # `.` lints the sub-tree
            absP = list(P.parts[1:])

            def given(rel, lead=lead, sub=sub):
                if lead is None:
                    return (True, absP + rel)
                if sub is not None:   # os.path.relpath, component-wise
                    k = 0
                    while k < len(sub) and k < len(rel) - 1 and sub[k] == rel[k]:
                        k += 1
                    return (False, [".."] * (len(sub) - k) + rel[k:])
                return (False, lead + rel)

            def spell(g):
                return ("/" if g[0] else "") + "/".join(g[1])
            if inv["target"] == "dir":
                targets = [spell(given([]))] if (lead is None or lead) else ["."]
                start = cwd if sub is not None else P
            else:
                targets = [spell(given(f["rel"])) for f in files]
                start = P.joinpath(*files[0]["rel"]).parent
            gcfg = None
            if inv.get("gcfg"):   # group-level `--config <project config>`: the project root is the config file's directory
                gcfg = spell(given([".thailint.yaml"], lead=None if inv["gcfg"] == "abs" else rel_lead))
                start = P
            if group.get("via") == "api":
                rc, vs, so, se, swallowed = _api_invoke(inv["cmd"], targets, cwd, inv.get("parallel"), gcfg)
            else:
                faillog = S / "faillog.jsonl"
                if faillog.exists():
                    faillog.unlink()
                args = [*(["--config", gcfg] if gcfg else []), inv["cmd"], "--format", "json", *(["--parallel"] if inv.get("parallel") else []),
                        *targets]
                rc, so, se = run_cli(args, cwd=cwd, home=home, env_extra={"THAILINT_VERIF_FAILLOG": str(faillog)})
                if rc == 124:  # timed out on a busy machine: one patient retry before calling it a failure
                    rc, so, se = run_cli(args, cwd=cwd, home=home, timeout=600, env_extra={"THAILINT_VERIF_FAILLOG": str(faillog)})
                vs = parse_json_violations(so)
                swallowed = faillog.read_text().splitlines()[:5] if faillog.exists() else []
            rec = {"targets": targets, "group_config": gcfg, "cwd": str(cwd), "cwd_parts": list(cwd.parts[1:]), "chain": chain_of(start, markers),
                   "proj_depth": len(absP), "files": [], "unknown": [], "error": None, "swallowed": swallowed}
            if vs is None or rc not in (0, 1):
                rec["error"] = f"rc={rc} stdout={so[:200]!r} stderr={se[-400:]!r}"
                vs = []
            by_name = {}
            for k, f in enumerate(files):
                g = given(f["rel"])
                rec["files"].append({"given": [g[0], g[1]], "rel": f["rel"], "tpl": f["tpl"], "raw": RAW[f["tpl"]].get(inv["cmd"], []), "impl": []})
                by_name[spell(g)] = k
                by_name.setdefault("/".join(f["rel"]), k)   # file-placement reports the re-rooted path
            for v in vs:
                k = by_name.get(str(v.get("file_path")))
                if k is None or v.get("rule_id") != RULE_ID[inv["cmd"]] or not isinstance(v.get("line"), int) or v["line"] < 0:
                    rec["unknown"].append({kk: v.get(kk) for kk in ("rule_id", "file_path", "line")})
                else:
                    rec["files"][k]["impl"].append(v["line"])
            rec["exit"] = rc
            res.append(rec)
    return res


# ------------------------------------------------------------------ judging
def _strs(xs) -> str:
    return coq.coq_list([coq.coq_string(x) for x in xs])


def _nats(xs) -> str:
    return coq.coq_list([str(int(x)) for x in xs])


def coq_case(group: dict, inv: dict, rec: dict, fn: str = "judge") -> str:
    chain = coq.coq_list([f"(LV {coq.coq_string(n)} {_strs(h)})" for n, h in rec["chain"]])
    files = coq.coq_list([
        f"(Build_jfile (GP {coq.coq_bool(f['given'][0])} {_strs(f['given'][1])}) {COQ_LANG[f['tpl']]} {_nats(f['raw'])} {_strs(f['rel'])} {_nats(f['impl'])})"
        for f in rec["files"]])
    cfgd = group["project"]["lint_ign"].get(inv["cmd"])
    configured = "None" if cfgd is None else f"(Some {_strs(cfgd)})"
    return (f"{fn} pathloc_actual {coq.coq_string(inv['cmd'])} {chain} {rec['proj_depth']} {_strs(rec['cwd_parts'])} "
            f"{_strs(group['project']['root_pats'])} {_strs(inv.get('cwd_pats') or [])} {configured} {files}")


MODEL_FILES = ["Lib/Base.v", "Lib/GenTypes.v", "Model/PathLocTypes.v", "Gen/PathLocGen.v", "Model/PathLoc.v", "Model/PathLocRun.v",
               "Actual/PathLocActual.v"]
SNAPSHOT = VERIF / "coq" / "Gen.expected" / "PathLocGen.v.txt"


def fallback_theories(workdir: Path) -> Path | None:
    """When the generated layer no longer builds (a source idiom changed shape: the obligations are already recorded as broken),
    the SEARCH for a concrete failing input still needs an executable model: compile a scratch copy of the model against the last
    recorded generated layer (coq/Gen.expected/PathLocGen.v.txt).  Never used when the real layer builds."""
    import shutil
    import subprocess
    if not SNAPSHOT.exists():
        return None
    th = workdir / "theories"
    for rel in MODEL_FILES:
        dst = th / rel
        dst.parent.mkdir(parents=True, exist_ok=True)
        shutil.copy(SNAPSHOT if rel == "Gen/PathLocGen.v" else coq.TH / rel, dst)
    for rel in MODEL_FILES:
        p = subprocess.run(["timeout", "300", "coqc", "-Q", str(th), "TL", "-w", "-notation-overridden", str(th / rel)],
                           capture_output=True, text=True, cwd=str(th))
        if p.returncode != 0:
            return None
    return th


def eval_shards_in(th: Path | None, workdir: Path, shards: list[str]):
    if th is None and "VERIF_C09_PROCS" not in os.environ:
        return coq.eval_shards(workdir, HEADER, shards)
    th = th or coq.TH   # a worker limit was asked for (busy machine): same coqc command, at most PROCS at a time
    import subprocess
    from concurrent.futures import ThreadPoolExecutor
    workdir.mkdir(parents=True, exist_ok=True)
    paths = []
    for i, body in enumerate(shards):
        p = workdir / f"cases_{i}.v"
        p.write_text(HEADER + "\n" + body + "\n")
        paths.append(p)

    def one(p):
        r = subprocess.run(["timeout", "600", "coqc", "-Q", str(th), "TL", "-w", "-notation-overridden,-abstract-large-number", str(p)],
                           capture_output=True, text=True, cwd=str(p.parent))
        if r.returncode != 0:
            raise RuntimeError(f"coqc failed on {p.name}: {r.stderr[-800:]}")
        return coq.parse_nat_lists(r.stdout)
    with ThreadPoolExecutor(max_workers=PROCS) as ex:
        return list(ex.map(one, paths))


def judge(items, workdir: Path, per_shard=60, th: Path | None = None, fn: str = "judge"):
    shards, index = [], []
    for s in range(0, len(items), per_shard):
        chunk = list(range(s, min(len(items), s + per_shard)))
        shards.append("\n".join(f"Eval vm_compute in ({coq_case(*items[j], fn=fn)})." for j in chunk))
        index.append(chunk)
    outs = eval_shards_in(th, workdir, shards)
    verdicts = [None] * len(items)
    for chunk, out in zip(index, outs):
        if len(out) != len(chunk):
            raise RuntimeError(f"expected {len(chunk)} results, got {len(out)}")
        for j, o in zip(chunk, out):
            verdicts[j] = o
    return verdicts


# ------------------------------------------------------------------ unit level: project-root detection
def gen_root_cases(seed: int, n: int) -> list[dict]:
    out = []
    for i in range(n):
        r = rng_for(seed, PROP, "root", i)
        depth = r.randint(1, 5)
        levels = []
        for _ in range(depth):
            has = [m for m in (".git", ".thailint.yaml", "pyproject.toml") if r.random() < 0.22]
            levels.append({"name": r.choice(NEUTRAL_DIRS + SPECIAL_DIRS + NEUTRAL_PARENTS + DOTTED_DIRS + DOTTED_DIRS), "has": has,
                           "wrong_kind": [m for m in (".git", ".thailint.yaml", "pyproject.toml") if m not in has and r.random() < 0.08]})
        out.append({"levels": levels, "file_target": r.random() < 0.4, "relative": r.random() < 0.5})
    return out


def run_root_case(case: dict) -> dict:
    from src.cli.utils import get_or_detect_project_root
    markers = root_marker_names()
    with scratch_dir("tv-c09r-") as d:
        S = d.resolve()
        cur = S
        for lv in case["levels"]:
            cur = cur / lv["name"]
            cur.mkdir(exist_ok=True)
            for m in lv["has"]:
                (cur / m).mkdir() if m == ".git" else (cur / m).write_text("x: 1\n" if m.endswith("yaml") else "")
            for m in lv["wrong_kind"]:
                (cur / m).write_text("") if m == ".git" else (cur / m).mkdir()
        target = cur
        if case["file_target"]:
            target = cur / "f.py"
            target.write_text("x = 1\n")
        old = os.getcwd()
        try:
            if case["relative"]:
                os.chdir(S)
                arg = Path(os.path.relpath(target, S))
            else:
                arg = target
            root = get_or_detect_project_root([arg], None)
        finally:
            os.chdir(old)
        return {"chain": chain_of(cur, markers), "impl_len": len(Path(root).parts) - 1, "root": str(root), "S": str(S)}


# ------------------------------------------------------------------ corpus
def corpus_groups() -> list[dict]:
    out = []
    for p in sorted((VERIF / "corpus" / PROP).glob("*.json")):
        g = json.loads(p.read_text())
        g["id"] = "corpus:" + p.stem
        out.append(g)
    return out


def _merge_known(chk: Check):
    """known_findings.json is assembled by the lead (tools/mkmanifest.py) from known.d/ and may lag behind; known.d/C09.json is the
    authority for this property: entries `known` may explain an oracle failure, entries `fixed: ...` suppress nothing"""
    f = VERIF / "known.d" / f"{PROP}.json"
    if f.exists():
        chk.known = {"known": {}, "fixed": {}}
        for e in json.loads(f.read_text()).get("findings", []):
            if e.get("property") != PROP:
                continue
            if e.get("status") == "known":
                chk.known["known"][e["key"]] = e
            elif str(e.get("status", "")).startswith("fixed"):
                chk.known["fixed"][e["key"]] = e


# ------------------------------------------------------------------ the check
def run(tier: str, seed: int, replay: str | None = None) -> int:
    chk = Check(PROP, tier, seed)
    _merge_known(chk)
    chk.rule = ("seeded random projects (3-6 Python/TypeScript/Rust files from fixed templates in neutral and marker-named directories, "
                "per-linter ignore lists, repo-level ignore patterns in .thailintignore / .thailint.yaml) copied under parents named after every "
                "built-in excluded directory, every test-marker substring and neutral names; the real CLI (--format json) is invoked for each of 12 "
                "per-file linter commands with absolute / relative / dot spellings of directory and file targets from five kinds of working directory "
                "(project, parent, grandparent, unrelated directory with its own .thailintignore, neutral). The full "
                "matrix of every special parent name x every command is additionally run in-process through the same functions the CLI commands call "
                "(setup_base_orchestrator + execute_linting_on_paths after chdir), including working directories strictly inside the project "
                "(`mod.py`, `../x/mod.py`, `.` in a sub-directory) and --parallel / lint_files_parallel variants (a project with >= 2 x workers "
                "files through the CLI, 2 workers in-process), the cross-file rule dry (dedicated projects with known duplicate partners, "
                "sequential and parallel) and the group-level `--config <project config>` option in relative / absolute spelling combined "
                "with every target spelling. About a third of the Python / TypeScript files carry suppression directives (`# dry: ignore-block`, "
                "line-level `thailint: ignore[rule]`) whose effect must not depend on the spelling; the project directory itself is called proj, "
                "after every special name, or has a dotted name (service.v2, api.d, ...). A case (= one invocation) is "
                "non-trivial when at least one targeted file has a finding of the command's rule in its text; distinct = distinct "
                "(project, location, cwd, spelling, targets, command). Plus unit-level cases for project-root detection (marker layouts).")
    chk.trusted_base += [
        "what each analyser finds in the TEXT of a template file (harness table RAW) is an oracle: validated by the cases in neutral locations, not proved",
        "fnmatch / pathlib.PurePath.match are modelled for literals, `*`, `?` only (Model/PathLoc.v glob, match_rev); bracket classes, "
        "absolute patterns and symlinked / non-normalised paths are outside the model's domain",
        "the file system (os.walk order, Path.resolve, marker existence) and click argument handling are oracles; the marker chain handed to the "
        "model is read from the real scratch tree",
        "dry / stringly-typed: which files take part, which have a partner and which violations survive the path filters is modelled "
        "(xfile_result); what the token / pattern analysis finds in the template texts (duplicate blocks, repeated membership test) and the "
        "effect of a suppression directive on the findings of its own file are content oracles (table RAW, validated in neutral locations)",
        "cqs has no CLI command of its own: only the shape of its ignore idiom is read from the source (Gen.unmodelled_pipeline_ignore_kinds)",
    ]
    import time as _t
    t0 = _t.time()
    chk.build(["theories/Props/C09.v"], ["PathLocGen"], known_v=["theories/Props/C09Known.v"])
    phases = {"build": round(_t.time() - t0, 1)}
    # the flags claimed `true` for the current tree must be exactly the listed known findings (a finding cannot be hidden by flipping a flag)
    import re as _re
    actual_txt = (coq.TH / "Actual" / "PathLocActual.v").read_text()
    on = set(_re.findall(r"(q_[a-z_]+)\s*:=\s*true", actual_txt))
    if _re.findall(r"(q_[a-z_]+)\s*:=", actual_txt) and on != set(chk.known["known"]):
        chk.broken.append(f"Actual:flags claimed true {sorted(on)} differ from the known findings {sorted(chk.known['known'])}")
    # larger budget when a proof / Gen obligation broke or the hand-modelled code of THIS property changed
    from translator import items_pathloc
    mine = [k for k in chk.fingerprint_changed if any(k.startswith(rel + "::") for rel, _ in items_pathloc.FINGERPRINTS)]
    scale = 4 if chk.broken else (3 if mine else 1)
    if replay:
        payload = json.loads(Path(replay).read_text())["violation"]
        groups = [payload["group"]]
        root_cases = []
    else:
        n_projects, n_special, n_inv, n_matrix, n_par = (8, 2, 5, 2, 1) if tier == "quick" else (24, 7, 9, 20, 8)
        groups = (corpus_groups() + gen_groups(seed, n_projects * scale, n_special, n_inv) + gen_parallel_cli(seed, n_par * scale)
                  + gen_dry_cli(seed, n_par * scale) + gen_matrix(seed, n_matrix * scale))
        root_cases = gen_root_cases(seed, (150 if tier == "quick" else 1500) * scale)
    t0 = _t.time()
    # groups whose in-process run starts a process pool of its own cannot live in daemonic pool workers: they get an executor
    pooled = [k for k, g in enumerate(groups) if g.get("pool")]
    plain = [k for k, g in enumerate(groups) if not g.get("pool")]
    results = [None] * len(groups)
    for k, res in zip(plain, pool_map(run_group, [groups[k] for k in plain], procs=PROCS, chunks=1)):
        results[k] = res
    if pooled:
        import multiprocessing as _mp
        from concurrent.futures import ProcessPoolExecutor
        with ProcessPoolExecutor(max_workers=min(6, PROCS), mp_context=_mp.get_context("fork")) as ex:
            for k, res in zip(pooled, ex.map(run_group, [groups[k] for k in pooled])):
                results[k] = res
    phases["cli"] = round(_t.time() - t0, 1)
    items = []
    for g, recs in zip(groups, results):
        for inv, rec in zip(g["invs"], recs):
            items.append((g, inv, rec))
    t0 = _t.time()
    root_res = pool_map(run_root_case, root_cases, procs=PROCS) if root_cases else []
    phases["root_unit"] = round(_t.time() - t0, 1)
    t0 = _t.time()
    with scratch_dir("tv-c09-coq-") as wd:
        th = None
        if "theories/Model/PathLocRun.v" not in chk.build_result.compiled:
            th = fallback_theories(wd / "fallback")
            chk.notes.append("the generated layer / model no longer builds; the search for a failing input evaluated the model against the last "
                             "recorded generated layer coq/Gen.expected/PathLocGen.v.txt" if th else
                             "the generated layer / model no longer builds and no recorded layer is available: cases could not be judged")
        try:
            # first pass: the alternative quirk vectors are evaluated only for the cases that need an explanation; as soon as one case
            # disagrees with the claimed vector every case is judged again against all candidates
            verdicts = judge(items, wd / "cli", th=th, fn="judge_lazy")
            if any(v is not None and len(v) > 3 and not v[3] for v in verdicts):
                verdicts = judge(items, wd / "cli_full", th=th, fn="judge")
            rshards = []
            for s in range(0, len(root_res), 60):
                rshards.append("\n".join(
                    "Eval vm_compute in (judge_root " + coq.coq_list([f"(LV {coq.coq_string(n)} {_strs(h)})" for n, h in rr["chain"]])
                    + f" {rr['impl_len']})." for rr in root_res[s:s + 60]))
            routs = eval_shards_in(th, wd / "root", rshards) if rshards else []
            rverd = [bool(x) for out in routs for x in out]
        except RuntimeError as e:
            chk.broken.append(f"Model:evaluation of the path-location model failed ({str(e)[:400]})")
            verdicts, rverd = [None] * len(items), []
    phases["coq_eval"] = round(_t.time() - t0, 1)
    chk.extra_cov["phase_seconds"] = phases
    # ---- unit level
    for rc_, rr, ok in zip(root_cases, root_res, rverd):
        chk.count(["root", rc_], any(lv["has"] for lv in rc_["levels"]))
        chk.dist("root-detection cases")
        chk.traces_validated += 1
        if not ok:
            chk.correspondence_broken({"level": "unit", "detail": "project-root detection model disagrees with get_or_detect_project_root",
                                       "case": rc_, "impl_root": rr["root"], "chain": rr["chain"]})
    # ---- observable level
    cands_all = None
    for (g, inv, rec), ver in zip(items, verdicts):
        case_key = [g["project"]["files"], g["project"]["lint_ign"], g["project"]["root_pats"], g["loc"], inv]
        nontrivial = any(f["raw"] for f in rec["files"])
        chk.count(case_key, nontrivial)
        chk.dist("cmd:" + inv["cmd"])
        if inv.get("gcfg"):
            chk.dist("group-level --config: " + inv["gcfg"] + " spelling, target " + inv["spelling"])
        chk.dist("via:" + g.get("via", "cli") + (" --parallel / process pool" if inv.get("parallel") else ""))
        chk.dist(f"spelling:{inv['spelling']}/{inv['target']} from {inv['cwd']}")
        for pn in g["loc"]["parents"] + [g["loc"]["name"]]:
            chk.dist("parent:" + pn)
        chk.sample({"location": g["loc"], "cwd": inv["cwd"], "targets": rec["targets"], "cmd": inv["cmd"],
                    "files": [{"rel": "/".join(f["rel"]), "raw": f["raw"], "impl": f["impl"]} for f in rec["files"]],
                    "root_patterns": g["project"]["root_pats"], "linter_ignore": g["project"]["lint_ign"].get(inv["cmd"])}, 4)
        payload = {"group": {"id": g["id"], "via": g.get("via", "cli"), "pool": g.get("pool", False), "project": g["project"], "loc": g["loc"], "invs": [inv]}, "observed": rec}
        if rec["error"]:
            chk.violation({"reason": "CLI run failed", "detail": rec["error"], **payload})
            continue
        if rec.get("swallowed"):
            chk.violation({"reason": "a rule failed internally (swallowed exception) during the run", "detail": rec["swallowed"], **payload})
            continue
        if rec["unknown"]:
            chk.violation({"reason": "the CLI reported a violation for an unexpected file / rule", "detail": rec["unknown"][:5], **payload})
            continue
        if ver is None:
            continue
        chk.traces_validated += 1
        bits = [bool(b) for b in ver]
        root_ok, spec_ok, ideal_ok, cand = bits[0], bits[1], bits[2], bits[3:]
        if not root_ok:
            # the marker search (as modelled from the source) does not end at the project directory: its configuration and ignore files
            # are not the ones in force.  A failing oracle makes this a violation with this input, otherwise a broken correspondence.
            if spec_ok:
                chk.correspondence_broken({"level": "observable", "detail": "the root-detection model does not return the project directory for this case", **payload})
            else:
                chk.violation({"reason": "project-root detection does not find the project directory for these targets and the reported violations "
                                         "differ from those decided on the path inside the project", **payload})
            continue
        cands_all = cand if cands_all is None else [a and b for a, b in zip(cands_all, cand)]
        expect_exit = 1 if any(f["impl"] for f in rec["files"]) else 0
        if rec["exit"] != expect_exit:
            chk.violation({"reason": f"exit status {rec['exit']} does not match the reported violations", **payload})
            continue
        chk.dist("oracle: impl = spec" if spec_ok else "oracle: impl differs from spec (explained by listed findings unless a VIOLATION is reported)")
        if spec_ok:
            continue
        relevant = [FLAGS[i] for i in range(len(FLAGS)) if not cand[1 + i]]
        if cand[0] and ideal_ok and not relevant:
            # several listed defects overlap on this input: only switching all of them off restores the spec
            relevant = [f for f in FLAGS if f in chk.known["known"]]
        if cand[0] and ideal_ok:
            for k in relevant:
                chk.known_finding(k, {"location": g["loc"], "cwd": inv["cwd"], "targets": rec["targets"], "cmd": inv["cmd"],
                                      "files": [{"rel": "/".join(f["rel"]), "expected_raw": f["raw"], "impl": f["impl"]} for f in rec["files"]]})
        else:
            chk.violation({"reason": "violations differ from those of the same files decided on their path inside the project, and the "
                                     "difference is not explained by the listed path-handling defects",
                           "model_actual_matches_impl": cand[0], "model_ideal_matches_spec": ideal_ok, **payload})
    if cands_all is not None and not cands_all[0]:
        alt = [i for i, ok in enumerate(cands_all) if ok]
        if alt:
            names = ["actual"] + [f"actual without {f}" for f in FLAGS] + ["ideal"]
            chk.notes.append("implementation no longer matches the claimed quirk vector but matches: " + names[alt[0]] +
                             " (a listed defect is no longer observed; theorems hold for every vector)")
        elif not chk.violations:
            chk.correspondence_broken({"level": "observable", "detail": "Model/PathLoc.v under Actual/PathLocActual.v disagrees with the "
                                       "implementation and no candidate quirk vector matches all cases"})
    return chk.finish()
