"""C13 — meaning-preserving edits leave the findings unchanged up to line shift.

PROVED (Props/C13.v): the layout-sensitive text-level steps - suppression decisions, DRY tokenisation / windows / rows,
normalize_line, the Python / Rust lines-of-code metric, file_lines / splitlines under CRLF - commute with the edits of
Model/Edit.v for all contents and positions; the steps that do not (TS LOC span, DRY span count, U+FEFF, form feed) are
refuted by witnesses (Props/C13Known.v).  Tied to the source on every run by Gen/{Edit,Ignore,Dry,Srp}Gen.v and by the
unit-level correspondence below (model = implementation's own text-level functions on both versions of every file).

VALIDATED (this file): parsers are oracles.  Metamorphic runs of the whole implementation - every rule of every
linter in one Orchestrator run per project version - on generated programs x plans of edits at random admissible
positions; violation multisets are compared up to the line / indentation shift.  A failing (rule id, edit kind,
deviation class, language) is a VIOLATION unless known.d/C13.json lists exactly that key.
"""
from __future__ import annotations

import collections
import json
import re
from pathlib import Path
from types import SimpleNamespace

from harness import coq
from harness.common import (VERIF, drain_failures, ensure_repo_on_path, make_orchestrator, parse_json_violations, pool_map,
                            rng_for, run_cli, scratch_dir)
from harness.framework import Check
from harness.props import c04
from harness.props import c13_edits as E
from harness.props import c13_progs as P

PROP = "C13"
# candidates of Model/EditRun.v: 0 claimed; 1 without q_splitlines_unicode; 2 without q_bom_kept; 3 without both;
# 4 with q_bom_kept on; 5 with q_splitlines_unicode on (a repaired defect that came back)
OFF_FLAGS = {1: "q_splitlines_unicode", 2: "q_bom_kept"}
ON_FLAGS = {4: "q_bom_kept", 5: "q_splitlines_unicode"}
IDEAL = 3
N_CANDS = 6
HEADER = ("From Coq Require Import NArith.\n"
          "From TL Require Import Lib.Base Lib.GenTypes Model.PyStr Model.Ignore Model.IgnoreRun Model.Edit Model.EditRun Actual.EditActual.\n")
LANG_CODE = {"py": 0, "ts": 1, "js": 1, "rs": 2}
SINGLE_KINDS = ["insert_blank", "insert_comment", "trailing_ws", "trailing_ff", "reindent", "to_crlf", "add_bom", "append_code",
                "rename_locals"]
MIXED_KINDS = ["insert_blank", "insert_blank", "insert_comment", "insert_comment", "trailing_ws", "reindent", "to_crlf", "append_code"]
# rules that are documented to look at identifiers or at the program text itself: no renaming case is judged for them
NAME_SENSITIVE = ("dry.", "performance.string-concat-loop", "improper-logging.conditional-verbose", "stringly-typed.")
RENAME_RULES_NOTE = ("renaming applies to function-local variables (Python: names assigned inside functions; TypeScript / JavaScript: const / let / var "
                     "declarators inside functions; Rust: `let` bindings) - never parameters, module-level names, properties, shorthand fields - to fresh "
                     "identifiers of the same length and letter-case pattern; the renamed file must parse to the same tree up to the renaming; it is "
                     "judged for: nesting, magic-numbers, srp, improper-logging.print-statement, collection-pipeline, stateless-class, "
                     "method-property, lbyl, cqs, performance.regex-in-loop, lazy-ignores, file-header, file-placement; NOT for dry (hashes the "
                     "text), performance.string-concat-loop and improper-logging.conditional-verbose (documented name lists), stringly-typed "
                     "(compares names)")
QUERY_RULES = ["magic-numbers.numeric-literal", "nesting.excessive-depth", "srp.violation", "improper-logging.print-statement"]
MAX_UNIT_LINES = 140


# ------------------------------------------------------------------ implementation, observable level
def lint(files_bytes, config):
    """every rule on every file of a scratch project + finalize(): [[rule, rel path, line, column, message]]"""
    with scratch_dir("tv-c13-") as d:
        paths = []
        for name, data in files_bytes:
            p = d / name
            p.parent.mkdir(parents=True, exist_ok=True)
            p.write_bytes(data)
            paths.append(p)
        o = make_orchestrator(d, config)
        try:
            vs = o.lint_files(paths)
        except Exception as e:  # noqa: BLE001
            return {"error": f"{type(e).__name__}: {e}", "v": [], "failures": drain_failures()}
        out = []
        roots = [str(d.resolve()) + "/", str(d) + "/"]
        for v in vs:
            try:
                rel = str(Path(v.file_path).resolve().relative_to(d.resolve()))
            except ValueError:
                rel = str(v.file_path)
            msg = v.message or ""
            for rt in roots:
                msg = msg.replace(rt, "")
            out.append([v.rule_id, rel, int(v.line or 0), int(v.column or 0), msg])
        return {"v": sorted(out), "failures": drain_failures()}


def _collect(vs, d):
    out = []
    roots = [str(d.resolve()) + "/", str(d) + "/"]
    for v in vs:
        try:
            rel = str(Path(v.file_path).resolve().relative_to(d.resolve()))
        except ValueError:
            rel = str(v.file_path)
        msg = v.message or ""
        for rt in roots:
            msg = msg.replace(rt, "")
        out.append([v.rule_id, rel, int(v.line or 0), int(v.column or 0), msg])
    return sorted(out)


def lint_pair(files0, files1, config):
    """both versions under the SAME paths through the SAME long-lived Orchestrator (its suppression parser, rule objects and
    every per-path cache survive from the first run to the second): what an editor integration or a watch loop does"""
    with scratch_dir("tv-c13s-") as d:
        paths = []
        for name, data in files0:
            p = d / name
            p.parent.mkdir(parents=True, exist_ok=True)
            p.write_bytes(data)
            paths.append(p)
        o = make_orchestrator(d, config)
        try:
            r0 = {"v": _collect(o.lint_files(paths), d), "failures": drain_failures()}
            for (name, data), p in zip(files1, paths):
                p.write_bytes(data)
            r1 = {"v": _collect(o.lint_files(paths), d), "failures": drain_failures()}
        except Exception as e:  # noqa: BLE001
            err = {"error": f"{type(e).__name__}: {e}", "v": [], "failures": drain_failures()}
            return err, err
        return r0, r1


REF_RE = re.compile(r"([A-Za-z0-9_./-]+\.(?:py|ts|js|rs|tsx|jsx)):(\d+)(?:-(\d+))?")
LINE_RE = re.compile(r"\b([Ll]ines? )(\d+)")
WS_RE = re.compile(r"\s+")


def norm_ws(m: str) -> str:
    """messages that quote source text are compared up to white space (the edits change white space by design)"""
    return WS_RE.sub(" ", m).strip()


def expected_after(base_v, names, shifters, shift_cols=True):
    """the violations the property predicts for the edited project"""
    by_base = {}
    for n in names:
        by_base.setdefault(n.rsplit("/", 1)[-1], []).append(n)
    out = []
    for rule, fn, line, col, msg in base_v:
        sh = shifters.get(fn)
        if sh is None:
            out.append([rule, fn, line, col, msg])
            continue
        sl, sc = sh

        def ref(m):
            f = m.group(1)
            target = f if f in shifters else (by_base.get(f, [None])[0] if len(by_base.get(f, [])) == 1 else None)
            if target is None or target not in shifters:
                return m.group(0)
            tl = shifters[target][0]
            return f"{f}:{tl(int(m.group(2)))}" + (f"-{tl(int(m.group(3)))}" if m.group(3) else "")
        msg2 = REF_RE.sub(ref, msg)
        msg2 = LINE_RE.sub(lambda m: m.group(1) + str(sl(int(m.group(2)))), msg2)
        out.append([rule, fn, sl(line), sc(line, col) if shift_cols else col, msg2])
    return sorted(out)


def deviations(exp, got, langs, skip_rules=(), compare_msg=True, alt_exp=None):
    """{(rule, file): (class, expected, reported)}: per rule and file, how the reported violations differ from the predicted ones.
    class: set (different number), position (same number, other lines / columns), message (same positions, other text)"""
    out = {}
    if alt_exp is not None:
        # re-indentation: a rule may report a fixed column (1 for DRY and file-header) or the column of a token; per rule and
        # file either every column follows the indentation or none does
        first = deviations(exp, got, langs, skip_rules, compare_msg)
        second = deviations(alt_exp, got, langs, skip_rules, compare_msg)
        return {k: v for k, v in first.items() if k in second}
    groups = collections.defaultdict(lambda: ([], []))
    for v in exp:
        groups[(v[0], v[1])][0].append(v)
    for v in got:
        groups[(v[0], v[1])][1].append(v)
    for (rule, fn), (a, b) in sorted(groups.items()):
        if any(rule.startswith(p) for p in skip_rules):
            continue
        pa, pb = sorted(x[2:4] for x in a), sorted(x[2:4] for x in b)
        if len(a) != len(b):
            cls = "set"
        elif pa != pb:
            cls = "position"
        elif compare_msg and sorted([x[2], x[3], norm_ws(x[4])] for x in a) != sorted([x[2], x[3], norm_ws(x[4])] for x in b):
            cls = "message"
        else:
            continue
        out[(rule, fn)] = (cls, a, b)
    return out


DRY_COUNT_RE = re.compile(r"^(Duplicate code \()(\d+)( lines)")


def dry_span_counts(a, sl):
    """the DRY violations the stage-B theorem (Proofs/EditDryB.v dry_model_insert / vshift_count) predicts: same blocks, same
    places, same references, and the reported size = new last line - new first line + 1 of the block.  `a` holds the expected
    violations with positions and references already shifted but the OLD size; the old first line is recovered through the
    (strictly monotone) shift"""
    out = []
    for rule, fn, line, col, msg in a:
        m = DRY_COUNT_RE.match(msg)
        if not m:
            out.append([rule, fn, line, col, msg])
            continue
        n = int(m.group(2))
        old = next((v for v in range(1, line + 1) if sl(v) == line), None)
        if old is None:
            out.append([rule, fn, line, col, msg])
            continue
        new_n = sl(old + n - 1) - line + 1
        out.append([rule, fn, line, col, DRY_COUNT_RE.sub(lambda mm: mm.group(1) + str(new_n) + mm.group(3), msg, count=1)])
    return out


def _lint_plans(prog, plans):
    return lint([(f["name"], pl.data()) for f, pl in zip(prog["files"], plans)], prog["config"])


def explain(rule, fn, cls, a, b, kind, lang, plan) -> tuple[str, str]:
    """(rule key, deviation class): mechanism-specific classes for the two defects that sit upstream of every rule (the text handed to
    the rules keeps U+FEFF; str.splitlines breaks at a form feed), each verified on the case; otherwise the generic class"""
    import ast as _ast
    text = plan.text()
    if kind in ("add_bom", "drop_bom") and lang == "py":
        try:
            _ast.parse(E.BOM + text)
        except SyntaxError:
            return "*", "python-source-rejected"
    if kind in ("add_bom", "drop_bom") and lang != "py":
        ka = sorted((x[2], norm_ws(x[4])) for x in a)
        kb = sorted((x[2], norm_ws(x[4])) for x in b)
        if ka == kb and all(x[2] == 1 and y[2] == 1 and abs(x[3] - y[3]) in (1, 3)
                            for x, y in zip(sorted(a), sorted(b)) if x[3] != y[3]):
            return "*", "line1-column-shift"
        first = plan.info.lines[0].lower() if plan.info.lines else ""
        if rule != "dry.duplicate-code" and ("thailint:" in first or "design-lint:" in first or "noqa" in first):
            return "*", "first-line-directive-hidden"
    if kind == "trailing_ff":
        lines = text.split("\n")
        ff = [i + 1 for i, l in enumerate(lines) if "\x0c" in l]
        touched = {x[2] for x in a if x not in b} | {x[2] for x in b if x not in a}
        if ff and touched and min(touched) > min(ff):
            return "*", "renumbered-after-formfeed"
    return rule, cls


def run_obs(job):
    if job.get("sweep"):
        return run_gap_sweep(job)
    return _run_obs(job)


def _run_obs(job):
    """one project in two versions: lint both, compare up to the shift; on a difference walk through the plan one edit kind at a
    time (every step is a single-kind edit of an intermediate version) and key each failing step"""
    prog, plans, meta = job["prog"], job["plans"], job["meta"]
    names = [f["name"] for f in prog["files"]]
    langs = {f["name"]: f["lang"] for f in prog["files"]}
    empty = [E.Plan(pl.info, pl.base_crlf, pl.base_bom, []) for pl in plans]
    same = bool(job.get("same_linter"))
    if same:
        base, new = lint_pair([(f["name"], pl.data()) for f, pl in zip(prog["files"], empty)],
                              [(f["name"], pl.data()) for f, pl in zip(prog["files"], plans)], prog["config"])
    else:
        base = job.get("base") or _lint_plans(prog, empty)
        new = _lint_plans(prog, plans)
    res = {"keys": {}, "same_linter": same, "failures": (base.get("failures") or []) + (new.get("failures") or []), "error": base.get("error") or new.get("error"),
           "n_base": len(base["v"]), "rules": sorted({v[0] for v in base["v"]}), "base_v": base["v"][:3], "new_v": new["v"][:3]}
    if res["error"]:
        return res
    hdr_skip = [] if meta["below_header"] else list(E.HEADER_SENSITIVE)

    def step(prev_res, prev_plans, cur_res, cur_plans, kind):
        shifters = {f["name"]: E.shifter_between(pp, cp) for f, pp, cp in zip(prog["files"], prev_plans, cur_plans)}
        renamed = kind == "rename_locals"
        exp = expected_after(prev_res["v"], names, shifters)
        alt = expected_after(prev_res["v"], names, shifters, shift_cols=False) if kind == "reindent" else None
        skip = tuple(hdr_skip + (list(NAME_SENSITIVE) if renamed else []))
        devs = deviations(exp, cur_res["v"], langs, skip, compare_msg=not renamed, alt_exp=alt)
        for (rule, fn), (cls, a, b) in list(devs.items()):
            if rule == "dry.duplicate-code" and cls == "message" and fn in shifters:
                pred = dry_span_counts(a, shifters[fn][0])
                if sorted([x[2], x[3], norm_ws(x[4])] for x in pred) == sorted([x[2], x[3], norm_ws(x[4])] for x in b):
                    devs[(rule, fn)] = ("span-count", a, b)
        return devs

    # the byte-order mark goes last: its effect is tied to line 1 and must not be mixed up with insertions above line 1
    kinds = sorted({k for pl in plans for k in pl.kinds()}, key=lambda k: (k in ("add_bom", "drop_bom"), k))
    renamed_any = "rename_locals" in kinds
    whole_shift = {f["name"]: E.shifter_between(e, pl) for f, e, pl in zip(prog["files"], empty, plans)}
    whole = deviations(expected_after(base["v"], names, whole_shift), new["v"], langs,
                       tuple(hdr_skip + (list(NAME_SENSITIVE) if renamed_any else [])), compare_msg=not renamed_any,
                       alt_exp=expected_after(base["v"], names, whole_shift, shift_cols=False) if "reindent" in kinds else None)
    if not whole:
        return res
    steps = []
    if same:
        # attribute with fresh linters; what only the long-lived linter shows is keyed as such below
        base, new = _lint_plans(prog, empty), _lint_plans(prog, plans)
    if len(kinds) == 1:
        steps.append((kinds[0], base, empty, new, plans))
    else:
        prev_res, prev_plans = base, empty
        for j, k in enumerate(kinds):
            cur_plans = [pl.restricted(kinds[: j + 1]) for pl in plans]
            cur_res = new if j == len(kinds) - 1 else _lint_plans(prog, cur_plans)
            if cur_res.get("error"):
                res["error"] = cur_res["error"]
                return res
            steps.append((k, prev_res, prev_plans, cur_res, cur_plans))
            prev_res, prev_plans = cur_res, cur_plans
    by_file = {f["name"]: j for j, f in enumerate(prog["files"])}
    for k, pr, pp, cr, cp in steps:
        for (rule, fn), (cls, a, b) in step(pr, pp, cr, cp, k).items():
            lang = langs.get(fn, "?")
            plan = cp[by_file[fn]] if fn in by_file else cp[0]
            rk, ck = explain(rule, fn, cls, a, b, k, lang, plan)
            res["keys"].setdefault(f"{rk}|{k}|{ck}|{lang}", {"rule": rule, "file": fn, "expected": a[:4], "reported": b[:4],
                                                             "step": k, "operations_so_far": [pl.ops for pl in cp]})
    if not res["keys"]:
        # the whole plan differs but no single step with fresh linters does: either only the long-lived linter shows it (state
        # kept from the first version), or - impossible for a composition of shifts - nothing explains it; keep it visible
        tag = "|same-linter" if same else ""
        for (rule, fn), (cls, a, b) in whole.items():
            res["keys"][f"{rule}|{'+'.join(kinds)}|{cls}|{langs.get(fn, '?')}{tag}"] = {"rule": rule, "file": fn, "expected": a[:4], "reported": b[:4]}
    return res


# ------------------------------------------------------------------ implementation, unit level
def _ts_nodes(lang, text, types):
    tree = E._ts_parser(lang).parse(text.encode("utf-8"))
    out, stack = [], [tree.root_node]
    while stack:
        n = stack.pop()
        if n.type in types:
            out.append(n)
        stack.extend(n.children)
    return sorted(out, key=lambda n: (n.start_point[0], n.end_point[0]))


def unit_impl(lang: str, content: str):
    """the implementation's own text-level functions on one decoded text: tokens, docstring lines, LOC of every class node"""
    ensure_repo_on_path()
    import ast
    res = {"tokens": None, "docs": [], "nodes": []}
    plain = content[1:] if content.startswith(E.BOM) else content
    if lang == "py":
        from src.linters.dry.python_analyzer import PythonDuplicateAnalyzer
        from src.linters.srp.heuristics import count_loc
        an = PythonDuplicateAnalyzer()
        docs = an._get_docstring_ranges_from_content(content)
        res["docs"] = sorted(docs)
        res["tokens"] = [[a, b] for a, b in an._tokenize_with_line_numbers(content, docs)]
        try:
            mod = ast.parse(plain)
            classes = [n for n in ast.walk(mod) if isinstance(n, ast.ClassDef)]
        except (SyntaxError, ValueError):
            classes = []
        for c in sorted(classes, key=lambda n: n.lineno)[:5]:
            end = c.end_lineno or c.lineno
            res["nodes"].append([0, c.lineno, end - c.lineno + 1, count_loc(SimpleNamespace(lineno=c.lineno, end_lineno=end), content)])
    elif lang in ("ts", "js"):
        from src.linters.dry.typescript_analyzer import TypeScriptDuplicateAnalyzer
        from src.linters.srp.typescript_metrics_calculator import count_loc
        an = TypeScriptDuplicateAnalyzer()
        docs = an._get_jsdoc_ranges_from_content(content)
        res["docs"] = sorted(docs)
        res["tokens"] = [[a, b] for a, b in an._tokenize_with_line_numbers(content, docs)]
        for n in _ts_nodes(lang, plain, ("class_declaration", "abstract_class_declaration"))[:5]:
            s, e = n.start_point[0], n.end_point[0]
            res["nodes"].append([1, s + 1, e - s + 1, count_loc(SimpleNamespace(start_point=(s, 0), end_point=(e, 0)), content)])
    else:
        from src.linters.srp.rust_analyzer import RustSRPAnalyzer
        an = RustSRPAnalyzer()
        for n in _ts_nodes(lang, plain, ("struct_item", "impl_item"))[:5]:
            s, e = n.start_point[0], n.end_point[0]
            res["nodes"].append([2, s + 1, e - s + 1, an._node_loc(SimpleNamespace(start_point=(s, 0), end_point=(e, 0)), content)])
    return res


def filter_sweep(lang: str, text: str, tokens):
    """the four DRY block filters (regex / line-count tests on the raw lines of a block: the `regex block filters` of the
    property's anchors) under EVERY single insertion of a blank line / a comment line inside a window, trailing white space on
    every line and re-indentation of the whole file: {filter name | edit kind: [window, decision before, decision after]}"""
    ensure_repo_on_path()
    from src.linters.dry.block_filter import create_default_registry
    reg = create_default_registry()
    lines = text.split("\n")
    toks = tokens or []
    cm = E.COMMENT[lang]
    out = {}

    def block(s, e):
        return SimpleNamespace(file_path=Path("x"), start_line=s, end_line=e, snippet="", hash_value=0)

    def decide(f, s, e, content):
        try:
            return bool(f.should_filter(block(s, e), content))
        except Exception as ex:  # noqa: BLE001
            return "raised " + type(ex).__name__
    variants = {"trailing_ws": "\n".join(l + "  " if l.strip() else l for l in lines),
                "reindent": "\n".join(E._lead(l) * 2 + l[len(E._lead(l)):] for l in lines)}
    seen = set()
    for w in (2, 3, 4):
        for i in range(0, max(0, len(toks) - w + 1)):
            s, e = toks[i][0], toks[i + w - 1][0]
            if (s, e) in seen or e - s > 12:
                continue
            seen.add((s, e))
            base = {f.name: decide(f, s, e, text) for f in reg._filters}
            for kind, content in variants.items():
                for f in reg._filters:
                    d = decide(f, s, e, content)
                    if d != base[f.name]:
                        out.setdefault(f"{f.name}|{kind}", [s, e, base[f.name], d])
            for g in range(s, e):           # a new line after line g, inside the block
                ind = E._lead(lines[g]) if g < len(lines) else ""
                for kind, new_line in (("insert_blank", ""), ("insert_comment", ind + cm + " note")):
                    content = "\n".join(lines[:g] + [new_line] + lines[g:])
                    for f in reg._filters:
                        d = decide(f, s, e + 1, content)
                        if d != base[f.name]:
                            out.setdefault(f"{f.name}|{kind}", [s, e, g, base[f.name], d])
    return out


FILTER_FLAGS = {1: "f_kwarg_raw_lines", 2: "f_kwarg_trailing_ws", 3: "f_reraise_counts_comments"}
N_FCANDS = 5
MAX_FILTER_BLOCKS = 10


def _call_spans(content: str):
    """what KeywordArgumentFilter._is_inside_function_call gets from the parser: (lineno, end_lineno) of every ast.Call (oracle);
    a text CPython rejects has none (the filter answers False) - this is also what happens to TypeScript / JavaScript text"""
    import ast
    try:
        tree = ast.parse(content)
    except (SyntaxError, ValueError):
        return []
    return sorted({(n.lineno, n.end_lineno) for n in ast.walk(tree)
                   if isinstance(n, ast.Call) and getattr(n, "lineno", None) is not None and getattr(n, "end_lineno", None) is not None})


def filter_blocks(lang, c0, c1, tok0, sl, r):
    """the registered DRY block filters, one by one, on candidate blocks (windows of 2-5 token lines) of both versions of a file:
    [[s0, e0, s1, e1, decisions on version 0, decisions on version 1]] - every block on which some filter fires or the two
    versions disagree, plus a few random ones"""
    ensure_repo_on_path()
    from src.linters.dry.block_filter import create_default_registry
    reg = create_default_registry()

    def dec(content, s, e):
        b = SimpleNamespace(file_path=Path("x"), start_line=s, end_line=e, snippet="", hash_value=0)
        return [bool(f.should_filter(b, content)) for f in reg._filters]
    toks = tok0 or []
    seen, hot, cold = set(), [], []
    for w in (2, 3, 4, 5):
        for i in range(0, max(0, len(toks) - w + 1)):
            s, e = toks[i][0], toks[i + w - 1][0]
            if (s, e) in seen or e - s > 14:
                continue
            seen.add((s, e))
            d0, d1 = dec(c0, s, e), dec(c1, sl(s), sl(e))
            (hot if (any(d0) or any(d1) or d0 != d1) else cold).append([s, e, sl(s), sl(e), d0, d1])
    r.shuffle(hot)
    r.shuffle(cold)
    keep = hot[:MAX_FILTER_BLOCKS - 3]
    return {"names": [f.name for f in reg._filters], "blocks": sorted(keep + cold[:MAX_FILTER_BLOCKS - len(keep)])}


_codec = None


def source_codec() -> str:
    """the codec FileLintContext.file_content decodes with, read from the source (the unit-level functions are given the text
    as that layer hands it on: with "utf-8" a byte-order mark stays, with "utf-8-sig" it is dropped; line terminators are kept, as
    for a caller that passes content itself)"""
    global _codec
    if _codec is None:
        import ast as _ast
        from translator import lib as tl
        _codec = "utf-8"
        try:
            c = tl.find_class(tl.parse("src/orchestrator/core.py"), "FileLintContext")
            f = tl.find_func(c, "file_content")
            for n in _ast.walk(f):
                if isinstance(n, _ast.Call) and isinstance(n.func, _ast.Attribute) and n.func.attr == "read_text":
                    for k in n.keywords:
                        if k.arg == "encoding" and isinstance(k.value, _ast.Constant):
                            _codec = str(k.value.value)
        except Exception:  # noqa: BLE001
            pass
    return _codec


def run_unit(job):
    """both versions of one file through the text-level functions"""
    lang, plan = job["lang"], job["plan"]
    ce = plan.coq_edits()
    if ce is None:
        return None
    ps0, es, ps1, added = ce
    c0, c1 = "\n".join(ps0), "\n".join(ps1)
    try:
        ic0, ic1 = plan.base_data().decode(source_codec()), plan.data().decode(source_codec())
    except (LookupError, UnicodeDecodeError):
        ic0, ic1 = c0, c1
    try:
        u0, u1 = unit_impl(lang, ic0), unit_impl(lang, ic1)
    except Exception as e:  # noqa: BLE001
        return {"error": f"{type(e).__name__}: {e}"}
    sl, _ = plan.shifter()
    qs = job["queries"]
    i0 = c04.impl_unit(ic0, qs)
    i1 = c04.impl_unit(ic1, [(sl(v), r) for v, r in qs])
    filters = {}
    if job.get("sweep_filters") and lang in ("py", "ts", "js") and not c0.startswith(E.BOM) and "\r" not in c0:
        filters = filter_sweep(lang, c0, u0["tokens"])
    fcase = None
    if lang in ("py", "ts", "js") and ic0 == c0 and ic1 == c1 and c0.isascii() and c1.isascii() and "\r" not in c0 + c1 \
            and "\x00" not in c0 + c1 and u0["tokens"]:
        # the block filters on both versions (the model works on ASCII text split at "\n", as the filters themselves do)
        try:
            fb = filter_blocks(lang, c0, c1, u0["tokens"], sl, rng_for(job.get("seed", 0), PROP, "fblocks", job["file"], len(c0)))
            fcase = {"lang": lang, "raw0": ps0, "raw1": ps1, "calls0": _call_spans(c0), "calls1": _call_spans(c1), **fb}
        except Exception as e:  # noqa: BLE001
            return {"error": f"block filter raised {type(e).__name__}: {e}"}
    nodes = []
    if len(u0["nodes"]) == len(u1["nodes"]):
        for a, b in zip(u0["nodes"], u1["nodes"]):
            nodes.append([a[0], a[1], a[2], b[1], b[2], a[3], b[3]])
    return {"ps0": ps0, "es": es, "ps1": ps1, "added": added, "docs0": u0["docs"], "docs1": u1["docs"],
            "tok0": u0["tokens"], "tok1": u1["tokens"], "nodes": nodes, "nodes_lost": len(u0["nodes"]) != len(u1["nodes"]),
            "queries": [[v, r, a, b] for (v, r), a, b in zip(qs, i0, i1)], "filters": filters, "fcase": fcase}


cstr = c04.cstr


def coq_edit(e) -> str:
    if e[0] in ("InsLine", "TrailWS", "SetIndent"):
        return f"{e[0]} {e[1]} {cstr(e[2])}"
    return e[0]


def coq_case(lang: str, u) -> str:
    toks = lambda t: coq.coq_list([f"({a}, {cstr(b)})" for a, b in (t or [])])
    nats = lambda l: coq.coq_list([str(x) for x in l])
    nodes = coq.coq_list(["(" + ", ".join(str(x) for x in n) + ")" for n in u["nodes"]])
    qs = coq.coq_list([f"({v}, {cstr(r)}, {coq.coq_bool(a)}, {coq.coq_bool(b)})" for v, r, a, b in u["queries"]])
    return ("{| k_lang := %d; k_ps0 := %s; k_es := %s; k_ps1 := %s; k_added := %s; k_docs0 := %s; k_docs1 := %s; "
            "k_has_tokens := %s; k_tok0 := %s; k_tok1 := %s; k_nodes := %s; k_queries := %s |}") % (
        LANG_CODE[lang], coq.coq_list([cstr(x) for x in u["ps0"]]), coq.coq_list([coq_edit(e) for e in u["es"]]),
        coq.coq_list([cstr(x) for x in u["ps1"]]), nats(u["added"]), nats(u["docs0"]), nats(u["docs1"]),
        coq.coq_bool(u["tok0"] is not None), toks(u["tok0"]), toks(u["tok1"]), nodes, qs)


def judge_units(units, workdir: Path, nshards=16):
    weight = lambda u: (sum(len(x) for x in u["ps0"]) + 300) * (3 + len(u["nodes"]) + len(u["queries"]))
    total = sum(weight(u) for _, u in units)
    budget = max(1, total // nshards)
    shards, index, cur, cur_idx, load = [], [], [], [], 0
    for j, (lang, u) in enumerate(units):
        w = weight(u)
        if cur and load + w > budget:
            shards.append("\n".join(cur))
            index.append(cur_idx)
            cur, cur_idx, load = [], [], 0
        cur.append(f"Eval vm_compute in (judge edit_actual {coq_case(lang, u)}).")
        cur_idx.append(j)
        load += w
    if cur:
        shards.append("\n".join(cur))
        index.append(cur_idx)
    outs = coq.eval_shards(workdir, HEADER, shards, timeout=900)
    verdicts = [None] * len(units)
    for chunk, out in zip(index, outs):
        if len(out) != len(chunk):
            raise RuntimeError(f"expected {len(chunk)} results, got {len(out)}")
        for j, o in zip(chunk, out):
            verdicts[j] = o
    return verdicts


def coq_fcase(fc) -> str:
    pairs = lambda l: coq.coq_list([f"({a}, {b})" for a, b in l])
    bools = lambda l: coq.coq_list([coq.coq_bool(x) for x in l])
    blocks = coq.coq_list([f"({s0}, {e0}, {s1}, {e1}, {bools(d0)}, {bools(d1)})" for s0, e0, s1, e1, d0, d1 in fc["blocks"]])
    return ("{| fk_lang := %d; fk_raw0 := %s; fk_calls0 := %s; fk_raw1 := %s; fk_calls1 := %s; fk_blocks := %s |}" % (
        0 if fc["lang"] == "py" else 1, coq.coq_list([cstr(x) for x in fc["raw0"]]), pairs(fc["calls0"]),
        coq.coq_list([cstr(x) for x in fc["raw1"]]), pairs(fc["calls1"]), blocks))


def judge_fcases(fcases, workdir: Path, per_shard=30):
    shards = ["\n".join(f"Eval vm_compute in (judge_filters fq_actual {coq_fcase(fc)})." for fc in fcases[i:i + per_shard])
              for i in range(0, len(fcases), per_shard)]
    outs = coq.eval_shards(workdir, HEADER + "From TL Require Import Model.DryFilter Model.EditFilter.\n", shards, timeout=600)
    flat = [o for out in outs for o in out]
    if len(flat) != len(fcases):
        raise RuntimeError(f"expected {len(fcases)} results, got {len(flat)}")
    return flat


# ------------------------------------------------------------------ programs with suppression directives
def decorate(prog, base_v, r):
    """the same program with suppression directives placed on some of its violations (a new base program)"""
    cands = [v for v in base_v if v[2] >= 1 and not v[0].startswith(("file-header", "lazy-ignores", "file-placement", "dry"))]
    if not cands:
        return None
    files = {f["name"]: f for f in prog["files"]}
    target = r.choice(cands)[1]
    f = files.get(target)
    if f is None:
        return None
    info = E.Info(f["lang"], f["text"])
    if info.unparsable or info.n == 0:
        return None
    cm = E.COMMENT[f["lang"]]
    lines = list(info.lines)
    above = collections.defaultdict(list)
    below = collections.defaultdict(list)
    file_level = []
    forms = []
    for rule, fn, line, col, msg in r.sample([v for v in cands if v[1] == target], min(3, len([v for v in cands if v[1] == target]))):
        o = line - 1
        if not (0 <= o < info.n):
            continue
        name = r.choice([rule, rule.split(".")[0]])
        form = r.choice(["same", "same", "next", "block", "file"])
        ind = re.match(r"[ \t]*", lines[o]).group(0)
        if form == "same" and o not in info.no_trail:
            lines[o] = lines[o] + f"  {cm} thailint: ignore[{name}]"
        elif form == "next" and o not in info.no_insert:
            above[o].append(f"{ind}{cm} thailint: ignore-next-line[{name}]")
        elif form == "block" and o not in info.no_insert and (o + 1) not in info.no_insert:
            above[o].insert(0, f"{ind}{cm} thailint: ignore-start {name}")
            below[o].append(f"{ind}{cm} thailint: ignore-end")
        elif form == "file":
            file_level.append(f"{cm} thailint: ignore-file[{name}]")
        else:
            continue
        forms.append(form)
    if not forms:
        return None
    out = []
    for o, l in enumerate(lines):
        out.extend(above.get(o, []))
        out.append(l)
        out.extend(below.get(o, []))
    if file_level:
        at = min(info.header_end, 6) if info.header_end < 8 else 0
        if at in info.no_insert:
            at = 0
        out[at:at] = file_level
    text = "\n".join(out) + ("\n" if info.final_nl else "")
    if E.shape(f["lang"], text) != E.shape(f["lang"], f["text"]):
        return None
    nf = [dict(x, text=text) if x["name"] == target else x for x in prog["files"]]
    return dict(prog, id=prog["id"] + "+dir", source=prog["source"] + "+directives", files=nf, directive_forms=forms)


# ------------------------------------------------------------------ plans
def plan_sets(prog, infos, r, n_sets: int, kind_cycle: list[str]):
    """[(plans per file, meta)]"""
    out = []
    nf = len(infos)
    for s in range(n_sets):
        below = r.random() < 0.5
        mixed = s == n_sets - 1 and n_sets > 1
        tag = f"{abs(hash((prog['id'], s))) % 9973}"
        if mixed:
            kinds = list(MIXED_KINDS)
            kinds.append("rename_locals")
            if not any(i.lang == "py" for i in infos):
                kinds.append("add_bom")
            label = "mixed"
        else:
            k = kind_cycle.pop(0) if kind_cycle else r.choice(SINGLE_KINDS)
            kinds, label = [k], "single:" + k
        base_crlf = r.random() < 0.08 and "to_crlf" not in kinds
        plans = []
        chosen = r.randrange(nf)
        appended = False
        for j, info in enumerate(infos):
            active = j == chosen or r.random() < 0.35
            ks = [k for k in kinds if not (k == "append_code" and appended)]
            if not active or not ks:
                plans.append(E.Plan(info, base_crlf))
                continue
            n_ops = r.choice([1, 2, 3]) if not mixed else r.choice([3, 4, 6])
            if base_crlf and mixed:
                ks = ks + ["to_lf"]
            pl = E.make_plan(r, info, ks, below, n_ops, tag + str(j), base_crlf=base_crlf)
            if any(o[0] == "append" for o in pl.ops):
                appended = True
            plans.append(pl)
        if not any(pl.ops for pl in plans):
            continue
        out.append((plans, {"label": label, "below_header": below, "kinds": sorted({k for pl in plans for k in pl.kinds()})}))
    return out


def same_program(prog, plans) -> str | None:
    for f, pl in zip(prog["files"], plans):
        if not pl.ops or any(o[0] in ("append", "rename") for o in pl.ops):
            continue
        if E.shape(f["lang"], pl.text()) != E.shape(f["lang"], f["text"]):
            return f["name"]
    return None


# ------------------------------------------------------------------ main
def load_known(chk: Check):
    p = VERIF / "known.d" / f"{PROP}.json"
    if p.exists():
        # known.d/C13.json is the source of known_findings.json (assembled by tools/mkmanifest.py) and therefore authoritative
        chk.known = {"known": {}, "fixed": {}}
        for f in json.loads(p.read_text()).get("findings", []):
            if f.get("property") == PROP and f.get("status") == "known":
                chk.known["known"][f["key"]] = f
            elif f.get("property") == PROP and str(f.get("status", "")).startswith("fixed"):
                chk.known["fixed"][f["key"]] = f


def corpus_programs():
    out = []
    for p in sorted((VERIF / "corpus" / PROP).glob("*.json")):
        c = json.loads(p.read_text())
        out.append(c)
    return out


LIMIT_RE = {"nesting.excessive-depth": [(re.compile(r"nesting depth \((\d+)\)"), ("nesting", "max_nesting_depth"))],
            "srp.violation": [(re.compile(r"(\d+) methods"), ("srp", "max_methods")), (re.compile(r"(\d+) lines"), ("srp", "max_loc"))]}
MEASURE = {"nesting": {"max_nesting_depth": 1}, "srp": {"max_methods": 1, "max_loc": 1}}


def _variant_job(job):
    """a new base program from a pool program: (split) constructs spread over two lines - `else` | `if`, `=` | right-hand side,
    opening bracket | first element - so that the plans and the gap sweep put blank / comment lines BETWEEN two tokens of one
    construct; (limit) a threshold of a rule with a limit set to a value measured on this very program (or one below it), so that a
    misjudgement by one level / one line flips the verdict"""
    prog, seed, want = job
    r = rng_for(seed, PROP, "variant", prog["id"], want)
    files, kinds = prog["files"], []
    if "split" in want:
        nf = []
        for f in files:
            sp = E.split_lines(f["lang"], f["text"], r)
            if sp:
                nf.append(dict(f, text=sp[0]))
                kinds += ["split:" + k for k in sp[1]]
            else:
                nf.append(f)
        if not kinds:
            return None
        files = nf
    cfg = prog["config"]
    if "limit" in want or r.random() < 0.6:
        mcfg = {**cfg, **{k: {**(cfg.get(k) or {}), **v} for k, v in MEASURE.items()}}
        m = lint([(f["name"], f["text"].encode("utf-8")) for f in files], mcfg)
        vals = set()
        for v in m.get("v", []):
            for rx, (sec, key) in LIMIT_RE.get(v[0], []):
                mm = rx.search(v[4])
                if mm:
                    vals.add((sec, key, int(mm.group(1))))
        if vals:
            sec, key, val = r.choice(sorted(vals))
            lim = max(1, val - r.choice([0, 0, 1]))
            cfg = {**cfg, sec: {**(cfg.get(sec) or {}), key: lim}}
            kinds.append(f"limit:{key}={'measured' if lim == val else 'measured-1'}")
        elif not kinds:
            return None
    p = dict(prog, id=prog["id"] + "+" + want, source=prog["source"].split(":")[0] + "+variant", files=files, config=cfg, variant=sorted(set(kinds)))
    return p, _base_job(p)


def build_jobs(progs, seed, sets_per_prog, chk, sweep_gaps=0, variants=(0.0, 0.0, 0)):
    """base lint of every program (parallel), split / at-limit variants, decoration, plans"""
    bases = pool_map(_base_job, progs, procs=8)
    vjobs, n_elseif = [], 0
    for prog, base in zip(progs, bases):
        if base is None or prog.get("plans"):
            continue
        rv = rng_for(seed, PROP, "variant-sel", prog["id"])
        x = rv.random()
        # the rare split kind (an `else` | `if` pair exists in few programs) is taken whenever it is there, up to a cap
        if variants[0] and n_elseif < variants[2] and any(k == "else-if" for f in prog["files"] if f["lang"] != "py"
                                                           for k, _, _ in E.split_sites(f["lang"], f["text"])):
            n_elseif += 1
            vjobs.append((prog, seed, "split"))
        elif x < variants[0]:
            vjobs.append((prog, seed, "split"))
        elif x < variants[0] + variants[1]:
            vjobs.append((prog, seed, "limit"))
    extra = [v for v in pool_map(_variant_job, vjobs, procs=8) if v is not None and v[1] is not None]
    for vp, vb in extra:
        for k in vp.get("variant", []):
            chk.dist("variant:" + k.split("=")[0])
    progs = list(progs) + [vp for vp, _ in extra]
    bases = list(bases) + [vb for _, vb in extra]
    progs2 = []
    for i, (prog, base) in enumerate(zip(progs, bases)):
        if base is None:
            chk.dist("program:unparsable-skipped")
            continue
        progs2.append((prog, base))
        r = rng_for(seed, PROP, "decor", prog["id"])
        if base["v"] and r.random() < 0.45:
            d = decorate(prog, base["v"], r)
            if d is not None:
                progs2.append((d, None))
    cycle = []
    jobs = []
    for prog, base in progs2:
        r = rng_for(seed, PROP, "plan", prog["id"])
        infos = [E.Info(f["lang"], f["text"]) for f in prog["files"]]
        if any(i.unparsable or i.n == 0 or i.exotic for i in infos):
            chk.dist("program:unparsable-skipped")
            continue
        if not cycle:
            cycle = list(SINGLE_KINDS)
            r.shuffle(cycle)
        if prog.get("plans"):          # corpus: fixed operations
            sets = [([E.Plan(i, ops=ops) for i, ops in zip(infos, prog["plans"])], dict(prog.get("meta") or {"label": "corpus", "below_header": False}))]
            for pls, meta in sets:
                meta["kinds"] = sorted({k for pl in pls for k in pl.kinds()})
        else:
            sets = plan_sets(prog, infos, r, sets_per_prog, cycle)
        for plans, meta in sets:
            bad = same_program(prog, plans)
            if bad:
                chk.notes.append(f"edit plan dropped: the edited text of {prog['id']}:{bad} does not parse to the same program (harness guard)")
                chk.dist("plan:dropped-not-same-program")
                continue
            same = rng_for(seed, PROP, "same", prog["id"], len(jobs)).random() < 0.4 or bool(meta.get("same_linter"))
            meta = dict(meta, same_linter=same)
            jobs.append({"prog": prog, "plans": plans, "meta": meta, "same_linter": same,
                         "base": base if not any(pl.base_crlf or pl.base_bom for pl in plans) else None})
        if not prog.get("plans"):
            # a dedicated renaming job for every program that has a local related by containment to another identifier
            rr = rng_for(seed, PROP, "rename-related", prog["id"])
            rplans = [E.rename_related_plan(i, rr, both=sweep_gaps > 100) for i in infos]
            if any(pl is not None for pl in rplans):
                plans = [pl if pl is not None else E.Plan(i) for pl, i in zip(rplans, infos)]
                jobs.append({"prog": prog, "plans": plans, "same_linter": False, "base": base,
                             "meta": {"label": "rename-related", "below_header": False, "kinds": ["rename_locals"], "same_linter": False}})
        if sweep_gaps and not prog.get("plans"):
            for fi, info in enumerate(infos):
                if info.n <= sweep_gaps:
                    jobs.extend(gap_sweep_jobs(prog, info, base, fi))
    return jobs


def gap_sweep_jobs(prog, info, base, fi=0):
    """one job: a blank line and a comment line at EVERY admissible gap between the lines of one file of a program (also the gap
    just after an opening brace / block header and just before a closing brace / dedent)"""
    return [{"prog": prog, "plans": [E.Plan(info)], "base": base, "same_linter": False, "sweep": True, "sweep_file": fi,
             "meta": {"label": "gap-sweep", "below_header": False, "kinds": ["insert_blank", "insert_comment"], "same_linter": False}}]


def run_gap_sweep(job):
    """every single-line insertion into one small file, each variant a file of its own in one scratch project, linted file by file by
    one Orchestrator (per-file rules only: no finalize phase, so cross-file rules stay silent); a rule that ties two statements
    together by their line distance is caught whatever the gap"""
    prog = job["prog"]
    f = prog["files"][job.get("sweep_file", 0)]
    info = job["plans"][0].info
    cm = E.COMMENT[info.lang]
    res = {"keys": {}, "failures": [], "error": None, "n_base": 0, "rules": [], "base_v": [], "new_v": [], "same_linter": False, "variants": 0}
    variants = []
    for o in E.Plan(info).insert_anchors(below_header=False):
        near = info.lines[o] if o < info.n else ""
        for op in (["ins_blank", o, ""], ["ins_comment", o, E._lead(near) + cm + " note"]):
            pl = E.Plan(info, ops=[op])
            if pl.header_window_ok() and E.shape(info.lang, pl.text()) == E.shape(info.lang, info.text):
                variants.append(pl)
    with scratch_dir("tv-c13g-") as d:
        o = make_orchestrator(d, prog["config"])

        def one(sub, data):
            p = d / sub / f["name"]
            p.parent.mkdir(parents=True, exist_ok=True)
            p.write_bytes(data)
            return [[v[0], f["name"], v[2], v[3], v[4]] for v in _collect(o.lint_file(p), d / sub)]
        try:
            base_v = one("base", f["text"].encode("utf-8"))
            res["n_base"], res["rules"], res["base_v"] = len(base_v), sorted({v[0] for v in base_v}), base_v[:3]
            for i, pl in enumerate(variants):
                got = one(f"v{i}", pl.data())
                op = pl.ops[0]
                below = op[1] >= max(info.header_end, 1)
                exp = expected_after(base_v, [f["name"]], {f["name"]: pl.shifter()})
                devs = deviations(exp, got, {f["name"]: f["lang"]}, () if below else tuple(E.HEADER_SENSITIVE))
                for (rule, fn), (cls, a, b) in list(devs.items()):
                    if rule == "dry.duplicate-code" and cls == "message":
                        pred = dry_span_counts(a, pl.shifter()[0])
                        if sorted([x[2], x[3], norm_ws(x[4])] for x in pred) == sorted([x[2], x[3], norm_ws(x[4])] for x in b):
                            devs[(rule, fn)] = ("span-count", a, b)
                for (rule, fn), (cls, a, b) in devs.items():
                    kind = pl.kinds()[0]
                    rk, ck = explain(rule, fn, cls, a, b, kind, f["lang"], pl)
                    res["keys"].setdefault(f"{rk}|{kind}|{ck}|{f['lang']}", {"rule": rule, "file": fn, "expected": a[:4], "reported": b[:4],
                                                                            "step": kind,
                                                                            "operations_so_far": [pl.ops if j == job.get("sweep_file", 0) else []
                                                                                                  for j in range(len(prog["files"]))]})
            res["variants"] = len(variants)
            res["failures"] = drain_failures()
        except Exception as e:  # noqa: BLE001
            res["error"] = f"{type(e).__name__}: {e}"
    return res


def _base_job(prog):
    for f in prog["files"]:
        i = E.Info(f["lang"], f["text"])
        if i.unparsable or i.n == 0:
            return None
    return lint([(f["name"], f["text"].encode("utf-8")) for f in prog["files"]], prog["config"])


def unit_jobs(jobs, seed, cap):
    out = []
    swept = set()
    for j, job in enumerate(jobs):
        prog = job["prog"]
        if job["meta"].get("label") == "gap-sweep":
            continue
        for f, pl in zip(prog["files"], job["plans"]):
            if not pl.ops or pl.info.n > MAX_UNIT_LINES or any(o[0] == "rename" for o in pl.ops):
                continue
            r = rng_for(seed, PROP, "unit", prog["id"], j, f["name"])
            lines_v = sorted({v[2] for v in (job.get("base") or {"v": []})["v"] if v[1] == f["name"] and v[2] >= 1})
            dir_lines = [k + 1 for k, l in enumerate(pl.info.lines) if "ignore" in l.lower()]
            near = sorted({x for d in dir_lines for x in (d, d + 1)} & set(range(1, pl.info.n + 1)))
            pick = (r.sample(lines_v, min(2, len(lines_v))) + r.sample(near, min(3, len(near))) + [r.randint(1, pl.info.n)])
            rules = sorted({v[0] for v in (job.get("base") or {"v": []})["v"] if v[1] == f["name"]}) or QUERY_RULES
            qs = []
            for v in pick[:5]:
                qs.append((v, r.choice(rules + QUERY_RULES[:2])))
            fid = (prog["id"], f["name"])
            out.append({"job": j, "file": f["name"], "lang": f["lang"], "plan": pl, "queries": qs, "sweep_filters": fid not in swept, "seed": seed})
            swept.add(fid)
    if len(out) > cap:
        r = rng_for(seed, PROP, "unit-cap")
        # corpus witnesses are always judged; then the rare edit kinds; then a random selection
        first = [u for u in out if jobs[u["job"]]["prog"].get("source") == "corpus"]
        keep = [u for u in out if u not in first and any(o[0] in ("trail_ff", "bom") for o in u["plan"].ops)]
        rest = [u for u in out if u not in keep and u not in first]
        r.shuffle(rest)
        out = first + keep[: cap // 3] + rest[: max(0, cap - len(first) - min(len(keep), cap // 3))]
    return out


def key_of(rule, kind, cls, lang):
    return f"{rule}|{kind}|{cls}|{lang}"


def run(tier: str, seed: int, replay: str | None = None) -> int:
    chk = Check(PROP, tier, seed)
    load_known(chk)
    chk.rule = ("programs: every documented example of docs/*-linter.md plus seeded programs of the generators of C01 (control-flow skeletons), "
                "C02 (numeric literals), C03 (multi-file DRY projects), C04 (directive blocks), C16 (classes / structs / impls), C17 (Rust calls) and "
                "mixtures, in Python / TypeScript / JavaScript / Rust, linted by EVERY rule in one Orchestrator run under low thresholds; 45% of the "
                "programs also in a variant with suppression directives (same-line, next-line, block, file-level) placed on their own violations.  "
                "Each program gets plans of edits (single-kind: blank lines, directive-free comments, trailing spaces/tabs, trailing form feed, "
                "consistent re-indentation double/halve/tabs, LF->CRLF, BOM, appended code, renamed Python locals; and mixed sequences of 3-6 "
                "operations, CRLF base variants with CRLF->LF) at random positions that the language's tokenizer says are between tokens "
                "(never inside multi-line strings / template literals / block comments, after a backslash, between a next-line directive and its "
                "target; header-sensitive rules file-header / lazy-ignores are compared only for plans entirely below the header); the edited text "
                "must parse to the same statement-level tree.  A case (program, plan) is non-trivial when the base project has at least one "
                "violation; distinct = distinct (program text, operations).  Unit level: both versions of each edited file through the "
                "implementation's tokenizer / count_loc / should_ignore_violation, judged against the Coq model in the VM; and up to 10 candidate blocks "
                "(windows of 2-5 token lines, preferring those on which a filter fires) per edited Python / TypeScript / JavaScript file through each of "
                "the four DRY block filters on both versions, judged against Model/EditFilter.v under the claimed vector, each flag off, all off.  "
                "Program variants (new base programs, 16% of the pool quick / 90% thorough, every program with an `else` | `if` pair first): (split) up to "
                "three pairs of adjacent tokens of ONE construct put on different lines - `else` | `if` (TS/JS/Rust), `=` | right-hand side, opening "
                "bracket | first element (also Python) - guarded by an identical parse tree, so that the plans and the gap sweep place blank / comment "
                "lines BETWEEN the two tokens; (limit) max_nesting_depth / max_methods / max_loc set to a value MEASURED on the program (or one below), "
                "so that a misjudgement by one flips the verdict.  Renaming: a local whose name is contained in / contains another identifier of the "
                "file (data / metadata) is always renamed away, and half of the other renamed locals get a fresh name that is a substring / "
                "superstring of another identifier of the file.  "
                + RENAME_RULES_NOTE)
    chk.trusted_base += [
        "VALIDATED ONLY, not proved: what CPython ast and tree-sitter make of blank lines, comments, white space, CRLF, U+FEFF and renamed "
        "identifiers (every AST-level analysis of every linter), the codec / universal-newline layer of Path.read_text, and every detector that "
        "has no Coq model; these are exercised by the metamorphic runs of this check",
        "harness/props/c13_edits.py: admissible edit positions come from CPython tokenize / tree-sitter token spans; the guard `same_program` "
        "re-parses every edited file and compares the statement-level tree",
        "the line lists on which the theorems are stated are tied to the implementation by the unit-level correspondence (tokens, LOC, "
        "suppression decisions of both versions = model under Actual/EditActual.v) and by Gen/{Edit,Ignore,Dry,Srp}Gen.v",
        "known.d/C13.json keys for validated-only deviations are (rule id | edit kind | deviation class | language); any other key is a violation",
        "DRY block filters (Model/EditFilter.v): ast.Call spans are parser output handed to the model for both versions; the model is compared "
        "with the four filter objects of create_default_registry() on ASCII text only (re's \\w / \\s and str.strip are Unicode-aware, the model's "
        "are the ASCII classes); Props/C13.v C13_dry_filters_insert assumes the spans move with the lines (calls_ins), the judged cases do not",
    ]
    chk.build(["theories/Props/C13.v"], ["EditGen", "IgnoreGen", "DryGen", "SrpGen"], known_v=["theories/Props/C13Known.v"])
    scale = chk.budget_scale()
    quick = tier == "quick"
    n_gen = (125 if quick else 1500) * scale
    sets_per_prog = 3 if quick else 6
    unit_cap = (260 if quick else 2600) * scale
    if replay:
        payload = json.loads(Path(replay).read_text())["violation"]
        progs = [payload["program"]] if "program" in payload else []
        for pr in progs:
            pr["plans"] = payload.get("plans")
            pr["meta"] = payload.get("meta")
    else:
        docs_every = 1 if not quick else 2
        allp = P.programs(seed, n_gen, all_docs=True)
        docs = [p for p in allp if p["id"].startswith("doc")]
        gen = [p for p in allp if not p["id"].startswith("doc")]
        r0 = rng_for(seed, PROP, "docsel")
        if quick:
            docs = [p for p in docs if r0.random() < 0.5]
        progs = corpus_programs() + docs + gen
    jobs = build_jobs(progs, seed, sets_per_prog, chk, sweep_gaps=90 if quick else 250, variants=(0.0, 0.0, 0) if replay else (0.10, 0.06, 25) if quick else (0.6, 0.3, 400))
    results = pool_map(run_obs, jobs, procs=8)
    # ---------------------------------------------------------------- observable level
    for job, res in zip(jobs, results):
        prog, meta = job["prog"], job["meta"]
        ops = [pl.ops for pl in job["plans"]]
        nontrivial = bool(res.get("n_base"))
        chk.count([[f["text"] for f in prog["files"]], _ops_key(ops), meta["label"]], nontrivial)
        if meta["label"] == "gap-sweep":
            chk.dist("gap-sweep:variants", res.get("variants", 0))
        chk.dist("source:" + prog["source"].split(":")[0])
        chk.dist("plan:" + meta["label"])
        for k in meta["kinds"]:
            chk.dist("edit:" + k)
        for f in prog["files"]:
            chk.dist("lang:" + f["lang"])
        for rl in res.get("rules", []):
            chk.dist("base-rule:" + rl)
        chk.dist("below_header" if meta["below_header"] else "anywhere")
        chk.dist("linter:same-long-lived" if meta.get("same_linter") else "linter:fresh")
        payload = {"program": _slim(prog), "plans": ops, "meta": meta}
        if res.get("error"):
            chk.violation({"reason": "the linter run raised: " + res["error"], **payload})
            continue
        if res["failures"]:
            chk.violation({"reason": "a rule failed internally (swallowed exception) during the run", "failures": res["failures"][:3], **payload})
            continue
        for key, d in sorted(res["keys"].items()):
            case = {"key": key, "deviation": d, **payload}
            if meta["label"] == "gap-sweep" and d.get("operations_so_far"):
                case["plans"] = d["operations_so_far"]
                case["meta"] = dict(meta, label="corpus")
            if key in chk.known["known"] or key in chk.known["fixed"]:
                chk.known_finding(key, case)
            elif _COLLECT is not None:
                _COLLECT[key] = _COLLECT.get(key, 0) + 1
                _COLLECT_EX.setdefault(key, case)
            else:
                chk.violation({"reason": f"findings changed under a meaning-preserving edit: {key} is not a listed deviation", **case})
    chk.traces_validated = len(jobs)
    for job, res in list(zip(jobs, results))[:400]:
        if res.get("n_base") and job["meta"]["label"] == "mixed":
            chk.sample({"program": job["prog"]["id"], "source": job["prog"]["source"], "files": [f["name"] for f in job["prog"]["files"]],
                        "operations": [pl.ops for pl in job["plans"]][:2], "base_violations": res["base_v"],
                        "after_edit": res["new_v"]}, 3)
    # ---------------------------------------------------------------- unit level (model vs implementation, in the VM)
    ujobs = unit_jobs(jobs, seed, unit_cap)
    ures = pool_map(run_unit, ujobs, procs=8)
    units = []
    for uj, u in zip(ujobs, ures):
        if u is None:
            continue
        if "error" in u:
            chk.violation({"reason": "a text-level function of the implementation raised: " + u["error"], "file": uj["file"], "plans": uj["plan"].ops,
                           "program": _slim(jobs[uj["job"]]["prog"])})
            continue
        units.append((uj, u))
        if uj.get("sweep_filters"):
            chk.dist("unit:filter-sweep-files")
        for name, d in sorted((u.get("filters") or {}).items()):
            key = f"dry-filter:{name}|decision|{uj['lang']}"
            case = {"key": key, "window_and_decisions": d, "file": uj["file"], "program": _slim(jobs[uj["job"]]["prog"])}
            chk.dist("unit:filter-deviation")
            if key in chk.known["known"] or key in chk.known["fixed"]:
                chk.known_finding(key, case)
            elif _COLLECT is not None:
                _COLLECT[key] = _COLLECT.get(key, 0) + 1
                _COLLECT_EX.setdefault(key, case)
            else:
                chk.violation({"reason": f"a DRY block filter decides differently on the same block after a meaning-preserving edit: {key} is not a listed deviation", **case})
    verdicts = [None] * len(units)
    if units:
        err = None
        for attempt in range(4):
            with scratch_dir("tv-c13-coq-") as wd:
                try:
                    verdicts = judge_units([(uj["lang"], u) for uj, u in units], wd)
                    err = None
                    break
                except RuntimeError as e:
                    err = str(e)
            if "inconsistent assumptions" not in err:
                break
            # another check rebuilt a shared generated library between our build and the evaluation: rebuild under the lock, retry
            chk.notes.append("evaluation retried: a shared library was rebuilt by a concurrent check during the evaluation")
            coq.regen_and_build(["theories/Props/C13.v"])
        if err is not None:
            chk.broken.append(f"Model:evaluation of the edit model failed ({err[:400]})")
    cands_all = [True] * N_CANDS
    for (uj, u), ver in zip(units, verdicts):
        chk.dist("unit:case")
        if ver is None:
            continue
        payload = {"program": _slim(jobs[uj["job"]]["prog"]), "file": uj["file"], "plans": [pl.ops for pl in jobs[uj["job"]]["plans"]],
                   "meta": jobs[uj["job"]]["meta"], "unit": {k: u[k] for k in ("es", "nodes", "queries")}}
        head, rows = ver[0], ver[1:]
        if not head[0] or not head[1]:
            chk.correspondence_broken({"level": "algebra", "detail": "the edit algebra of Model/Edit.v does not reproduce the edited text the harness wrote "
                                       "(or split/join does not round-trip)", "bits": head, **payload})
            continue
        if not head[2] or u["nodes_lost"]:
            chk.violation({"reason": "a class / struct node did not move with the line shift (parser-level fact of the property)", **payload})
            continue
        labels = (["tokens"] if rows and rows[0] else []) + [f"loc:node{n}" for n in range(len(u["nodes"]))] + \
                 [f"ignore:{q[0]}:{q[1]}" for q in u["queries"]]
        rows = [rw for rw in rows if rw]
        for lab, bits in zip(labels, rows):
            chk.dist("unit:" + lab.split(":")[0])
            inv_impl = bool(bits[0])
            corr = [bool(bits[1 + 2 * c]) for c in range(N_CANDS)]
            inv = [bool(bits[2 + 2 * c]) for c in range(N_CANDS)]
            cands_all = [a and b for a, b in zip(cands_all, corr)]
            if not corr[0]:
                back = [ON_FLAGS[c] for c in ON_FLAGS if corr[c]]
                if back and not any(corr[c] for c in (1, 2, 3)):
                    # the implementation behaves like the model with a flag switched ON that the claimed vector has off
                    for k in back:
                        chk.known_finding(k, {"observable": lab, "note": "the implementation matches the model only with this flag on", **payload})
                elif not any(corr):
                    chk.correspondence_broken({"level": "unit", "observable": lab, "detail": "no candidate quirk vector reproduces the implementation's "
                                               "text-level result on both versions", **payload})
                    if not inv_impl:
                        chk.violation({"reason": f"text-level step not invariant and not explained by the model: {lab}", **payload})
                continue
            if inv_impl:
                continue
            relevant = [OFF_FLAGS[c] for c in OFF_FLAGS if inv[c]]
            if inv[IDEAL] and not relevant:
                relevant = list(OFF_FLAGS.values())
            if inv[IDEAL] and relevant:
                for k in relevant:
                    chk.known_finding(k, {"observable": lab, **payload})
            else:
                chk.violation({"reason": f"text-level step not invariant under the edit and not explained by a listed flag: {lab}", **payload})
    if units and not cands_all[0]:
        alt = [i for i, ok in enumerate(cands_all) if ok]
        names = ["actual", "actual without q_splitlines_unicode", "actual without q_bom_kept", "both off", "actual with q_bom_kept", "actual with q_splitlines_unicode"]
        if alt and alt[0] in (1, 2, 3):
            chk.notes.append("implementation no longer matches the claimed quirk vector on every unit case but matches: " + names[alt[0]] +
                             " (a listed defect is no longer observed; the theorems hold for every vector)")
    # ---------------------------------------------------------------- the DRY block filters (Model/EditFilter.v) on both versions
    funits = [(uj, u) for uj, u in units if u.get("fcase") and u["fcase"]["blocks"]]
    fver, ferr = [None] * len(funits), None
    if funits:
        for attempt in range(3):
            with scratch_dir("tv-c13-coqf-") as wd:
                try:
                    fver = judge_fcases([u["fcase"] for _, u in funits], wd)
                    ferr = None
                    break
                except RuntimeError as e:
                    ferr = str(e)
            if "inconsistent assumptions" not in ferr:
                break
            coq.regen_and_build(["theories/Props/C13.v"])
        if ferr is not None:
            chk.broken.append(f"Model:evaluation of the block-filter model failed ({ferr[:400]})")
    fc_all = [True] * N_FCANDS
    fc_first_bad = None
    for (uj, u), ver in zip(funits, fver):
        if ver is None:
            continue
        fc = u["fcase"]
        payload = {"program": _slim(jobs[uj["job"]]["prog"]), "file": uj["file"], "plans": [pl.ops for pl in jobs[uj["job"]]["plans"]],
                   "meta": jobs[uj["job"]]["meta"], "filters": fc["names"]}
        if not ver[0] or not ver[0][0]:
            chk.correspondence_broken({"level": "block-filters", "detail": "the registered filters are not the four the model transcribes", **payload})
            continue
        for blk, bits in zip(fc["blocks"], ver[1:]):
            chk.dist("unit:filter-block")
            if any(blk[4]) or any(blk[5]):
                chk.dist("unit:filter-block:some-filter-fires")
            for nm, a, b in zip(fc["names"], blk[4], blk[5]):
                if a or b:
                    chk.dist("unit:filter-fires:" + nm)
            inv_impl = bool(bits[0])
            corr = [bool(bits[1 + 2 * c]) for c in range(N_FCANDS)]
            inv = [bool(bits[2 + 2 * c]) for c in range(N_FCANDS)]
            fc_all = [a and b for a, b in zip(fc_all, corr)]
            case = {"block": blk, **payload}
            if not corr[0]:
                fc_first_bad = fc_first_bad or case
                if not any(corr):
                    chk.correspondence_broken({"level": "block-filters", "detail": "no candidate quirk vector reproduces the filters' decisions on "
                                               "both versions of the block", **case})
                    if not inv_impl:
                        chk.violation({"reason": "a DRY block filter decides differently after a meaning-preserving edit and the model does not explain it", **case})
                continue
            if inv_impl:
                continue
            relevant = [FILTER_FLAGS[c] for c in FILTER_FLAGS if inv[c]]
            if inv[N_FCANDS - 1] and not relevant:
                relevant = list(FILTER_FLAGS.values())
            if inv[N_FCANDS - 1]:
                for k in relevant:
                    if k in chk.known["known"]:
                        chk.known_finding(k, case)
                    else:
                        chk.violation({"reason": f"a DRY block filter decides differently after a meaning-preserving edit; flag {k} is not a listed defect", **case})
            else:
                chk.violation({"reason": "a DRY block filter decides differently after a meaning-preserving edit although the filter model without "
                                         "its listed defects is invariant on this block (Props/C13.v C13_dry_filters_insert / _ws_variant)", **case})
    if funits and not fc_all[0]:
        alt = [i for i, ok in enumerate(fc_all) if ok]
        if alt:
            chk.notes.append("the block filters no longer match the claimed quirk vector on every block but match candidate "
                             f"{alt[0]} (1-3: {FILTER_FLAGS} off, 4: all off) - a listed defect is no longer observed")
        elif fc_first_bad is not None:
            chk.correspondence_broken({"level": "block-filters", "detail": "no single candidate quirk vector reproduces the filters on every block", **fc_first_bad})
    chk.extra_cov["filter_blocks_judged_in_coq"] = sum(len(u["fcase"]["blocks"]) for _, u in funits)
    if _COLLECT is not None:
        Path(_os.environ["C13_COLLECT"]).write_text(json.dumps({"counts": _COLLECT, "examples": _COLLECT_EX}, indent=1, default=str))
    chk.extra_cov["unit_cases_judged_in_coq"] = len(units)
    chk.extra_cov["observable_pairs"] = len(jobs)
    chk.extra_cov["rename_scope"] = RENAME_RULES_NOTE
    return chk.finish()


import os as _os
_COLLECT = {} if _os.environ.get("C13_COLLECT") else None
_COLLECT_EX = {}


def _ops_key(ops):
    return json.dumps(ops, sort_keys=True, default=str)


def _slim(prog):
    return {k: prog[k] for k in ("id", "source", "files", "config") if k in prog}
