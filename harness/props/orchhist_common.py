"""Shared by the C08 and C10 checks: generated multi-language projects whose files trigger per-file and
cross-file rules, the implementation runners (long-lived / fresh Linter objects, CLI), the single-shot
measurement of the cross-file reports on fresh rule objects, canonical violations, snapshots, Coq rendering.

Everything that is measured from the implementation here is a *table* handed to the Coq model
(Model/OrchHist.v is parametric in the rules): per-file results per file version, the report of a cross-file
rule for an evidence list (fresh rule objects, check() each file version, finalize() once).  What the
orchestrator keeps between calls is NOT measured: it is what the model and the theorems are about."""
from __future__ import annotations

import hashlib
import json
import os
import re
import tempfile
from pathlib import Path

from harness import coq
from harness.common import REPO, ensure_repo_on_path

PROCS = max(1, int(os.environ.get("VERIF_PROCS", "8")))   # worker processes of the C08 / C10 streams (shared box: VERIF_PROCS=4)

# ------------------------------------------------------------------ snippets
PY_BODIES = [
    "def compute_{n}(items, factor):\n    total = 0\n    for item in items:\n        if item > factor:\n            total = total + item * factor\n"
    "        else:\n            total = total - item\n    result = total * 2 + factor\n    return result\n",
    "def render_{n}(rows, width):\n    lines = []\n    for row in rows:\n        text = str(row).strip()\n        padded = text.ljust(width)\n"
    "        lines.append(padded)\n    joined = \"|\".join(lines)\n    return joined\n",
    "def merge_{n}(left, right):\n    merged = dict(left)\n    for key in right:\n        value = right[key]\n        if key in merged:\n"
    "            merged[key] = merged[key] + value\n        else:\n            merged[key] = value\n    return merged\n",
]
PY_CONSTS = ["MAX_RETRY_COUNT = 5\n", "DEFAULT_TIMEOUT_SECONDS = 30\n", "CACHE_TTL_SECONDS = 60\n", "API_PAGE_SIZE = 50\n"]
PY_STRINGLY = [
    "def check_{n}(mode):\n    if mode in (\"alpha\", \"beta\", \"gamma\"):\n        return 1\n    return 0\n",
    "def pick_{n}(env):\n    if env == \"prod\":\n        return 1\n    if env == \"stage\":\n        return 2\n    return 0\n",
    "def call_{n}(conn):\n    conn.set_mode(\"fast\")\n    conn.set_mode(\"slow\")\n    return conn\n",
    "def guard_{n}(level):\n    if level in (\"debug\", \"release\"):\n        return 1\n    return 0\n",
]
PY_LOCAL = [
    "def scale_{n}(x):\n    return x * 4242\n",
    "def show_{n}(x):\n    print(x)\n    return x\n",
    "def deep_{n}(a, b, c):\n    if a:\n        for i in b:\n            while c:\n                if i:\n                    with a:\n                        c = 0\n    return c\n",
    # content AT the per-language thresholds of the generated configs: nesting ladder (depths 2, 3, 4), a class with 3 and one
    # with 4 methods, numbers that only some language blocks allow
    "def two_{n}(a):\n    if a:\n        a = 0\n    return a\n\n\ndef three_{n}(a, b):\n    if a:\n        for i in b:\n            a = i\n    return a\n\n\n"
    "def four_{n}(a, b):\n    if a:\n        for i in b:\n            while i:\n                i = 0\n    return a\n",
    "class Tri{n}:\n    def __init__(self):\n        self.v = 0\n\n    def inc(self):\n        self.v += 1\n\n    def dec(self):\n        self.v -= 1\n\n\n"
    "class Quad{n}:\n    def __init__(self):\n        self.v = 0\n\n    def inc(self):\n        self.v += 1\n\n    def dec(self):\n        self.v -= 1\n\n    def zero(self):\n        self.v = 0\n",
    "def rate_{n}(x):\n    return x * 4343 + 77\n",
]
TS_BODIES = [
    "function compute{n}(items: number[], factor: number): number {{\n  let total = 0;\n  for (const item of items) {{\n    if (item > factor) {{\n"
    "      total = total + item * factor;\n    }} else {{\n      total = total - item;\n    }}\n  }}\n  const result = total * 2 + factor;\n  return result;\n}}\n",
    "function render{n}(rows: string[], width: number): string {{\n  const lines: string[] = [];\n  for (const row of rows) {{\n    const text = row.trim();\n"
    "    const padded = text.padEnd(width);\n    lines.push(padded);\n  }}\n  const joined = lines.join(\"|\");\n  return joined;\n}}\n",
]
TS_CONSTS = ["const MAX_RETRY_COUNT = 5;\n", "const DEFAULT_TIMEOUT_SECONDS = 30;\n"]
TS_STRINGLY = [
    "function pick{n}(env: string): number {{\n  if (env === \"prod\") {{\n    return 1;\n  }}\n  if (env === \"stage\") {{\n    return 2;\n  }}\n  return 0;\n}}\n",
    "function call{n}(conn: any): void {{\n  conn.setMode(\"fast\");\n  conn.setMode(\"slow\");\n}}\n",
]
TS_LOCAL = ["function scale{n}(x: number): number {{\n  return x * 4242;\n}}\n", "function show{n}(x: number): void {{\n  console.log(x);\n}}\n",
            "function two{n}(a: number): number {{\n  if (a) {{\n    a = 0;\n  }}\n  return a;\n}}\n\nfunction three{n}(a: number, b: number[]): number {{\n  if (a) {{\n    for (const i of b) {{\n      a = i;\n    }}\n  }}\n  return a;\n}}\n\n"
            "function four{n}(a: number, b: number[]): number {{\n  if (a) {{\n    for (let i of b) {{\n      while (i) {{\n        i = 0;\n      }}\n    }}\n  }}\n  return a;\n}}\n",
            "class Tri{n} {{\n  v = 0;\n  inc(): void {{\n    this.v += 1;\n  }}\n  dec(): void {{\n    this.v -= 1;\n  }}\n  zero(): void {{\n    this.v = 0;\n  }}\n}}\n\n"
            "class Quad{n} {{\n  v = 0;\n  inc(): void {{\n    this.v += 1;\n  }}\n  dec(): void {{\n    this.v -= 1;\n  }}\n  zero(): void {{\n    this.v = 0;\n  }}\n  one(): void {{\n    this.v = 1;\n  }}\n}}\n",
            "function rate{n}(x: number): number {{\n  return x * 4343 + 77;\n}}\n"]
RS_LADDER = ("fn two_{n}(a: i32) -> i32 {{\n    let mut x = a;\n    if a > 0 {{\n        x = 0;\n    }}\n    x\n}}\n\nfn three_{n}(a: i32, b: Vec<i32>) -> i32 {{\n    let mut x = a;\n    if a > 0 {{\n        for i in b {{\n            x = i;\n        }}\n    }}\n    x\n}}\n\n"
             "fn four_{n}(a: i32, b: Vec<i32>) -> i32 {{\n    let mut x = a;\n    if a > 0 {{\n        for i in b {{\n            while x > i {{\n                x = 0;\n            }}\n        }}\n    }}\n    x\n}}\n")


def language_blocks(r) -> dict:
    """per-language override sections, different from the top-level value and from each other, for the linters that document
    language blocks; the L snippets above sit exactly at these thresholds, so the verdict on the same construct differs by language"""
    d = r.sample([1, 2, 3, 5], 4)
    m = r.sample([1, 2, 3, 4], 3)
    extra = r.sample([[4242], [4343], [77], [4242, 77]], 3)
    base = [-1, 0, 1, 2, 3, 4, 5, 10, 100, 1000]
    return {
        "nesting": {"max_nesting_depth": 4, "python": {"max_nesting_depth": d[0]}, "typescript": {"max_nesting_depth": d[1]},
                    "javascript": {"max_nesting_depth": d[2]}, "rust": {"max_nesting_depth": d[3]}},
        "srp": {"max_methods": 7, "python": {"max_methods": m[0]}, "typescript": {"max_methods": m[1]}, "javascript": {"max_methods": m[2]}},
        "magic-numbers": {"allowed_numbers": base, "python": {"allowed_numbers": base + extra[0]},
                          "typescript": {"allowed_numbers": base + extra[1]}, "javascript": {"allowed_numbers": base + extra[2]}},
    }

# snippets that INTERACT BY NAME across files: the same identifier is bound to different things in different files
# (module aliases, accumulators that are strings here and numbers there, same class / function names).  A rule that
# judges files one at a time must not carry what it learnt about a name from one file into the next.
PY_NAMES = [
    "import re as rx\n\n\ndef first_{n}(text):\n    return rx.match(r\"\\w+\", text)\n",
    "import regex as rx\n\n\ndef scan_{n}(lines):\n    out = []\n    for line in lines:\n        out.append(rx.match(r\"\\d+\", line))\n    return out\n",
    "def join_{n}(items):\n    result = \"\"\n    for item in items:\n        result += str(item)\n    return result\n",
    "def count_{n}(items):\n    result = 0\n    for item in items:\n        result += len(item)\n    return result\n",
    "import re as codec\n\n\ndef find_{n}(rows):\n    return [codec.search(\"x\", r) for r in rows]\n",
    "import json as codec\n\n\ndef dump_{n}(rows):\n    out = []\n    for row in rows:\n        out.append(codec.sub(\"a\", \"b\", row))\n    return out\n",
    "from re import compile as build\n\n\ndef pat_{n}():\n    return build(\"a+\")\n",
    "def build(x):\n    return x\n\n\ndef each_{n}(rows):\n    out = []\n    for row in rows:\n        out.append(build(row))\n    return out\n",
    "class Handler:\n    def name(self):\n        return \"handler\"\n\n    def kind(self):\n        return \"plain\"\n",
    "class Handler:\n    def __init__(self):\n        self.count = 0\n\n    def name(self):\n        self.count += 1\n        return self.count\n",
    "def label_{n}(parts):\n    text = []\n    for part in parts:\n        text += [part]\n    return text\n",
    "def title_{n}(parts):\n    text = \"\"\n    for part in parts:\n        text = text + part\n    return text\n",
]
TS_NAMES = [
    "export function sizeOfNames{n}(names: string[]): string {{\n  let label = \"\";\n  let width = names.length;\n  for (const name of names) {{\n    width += name.length;\n  }}\n  return label + width;\n}}\n",
    "export function sizeOfTags{n}(tags: string[]): string {{\n  let width = \"\";\n  let label = tags.length;\n  for (const tag of tags) {{\n    label += tag.length;\n  }}\n  return width + label;\n}}\n",
    "export function total{n}(xs: number[]): number {{\n  let acc = 0;\n  for (const x of xs) {{\n    acc += x;\n  }}\n  return acc;\n}}\n",
    "export function text{n}(xs: string[]): string {{\n  let acc = \"\";\n  for (const x of xs) {{\n    acc += x;\n  }}\n  return acc;\n}}\n",
    "export function rows{n}(xs: string[]): number {{\n  let out = 0;\n  while (out < xs.length) {{\n    out += 1;\n  }}\n  return out;\n}}\n",
    "export function cells{n}(xs: string[]): string {{\n  let out = '';\n  for (const x of xs) {{\n    out = out + x;\n  }}\n  return out;\n}}\n",
]

# ------------------------------------------------------------------ cross-file plants
# Every cross-file rule (DRY duplicate blocks, DRY duplicate / similar constants, the three stringly-typed detectors) must see,
# in some generated projects, one finding group with >= 3 participating files and >= 6 participating sites: reference lists
# ('Also found in' / 'Also called in' / 'Also compared in'), their truncation, the grouping of near-equal names and the order in
# which files reach the rule only matter from the third participant on.  A plant is a family of items spread over several files:
#   ["K", [name, value], tag]             a module-level UPPER_CASE constant (names of one family are a random walk of small edits:
#                                         equal names, near-equal names, chains A~B~C whose ends are not near, word permutations)
#   ["F", [recv, fn, [values], oneline], tag]   call sites of one function with a string literal argument (one per value)
#   ["Q", [var, [values]], tag]           scattered comparisons of one variable with string literals
#   ["M", [var, [values]], tag]           a membership test against a fixed set of strings
#   ["B", i, tag]                         (existing kind) a duplicate-able body
CONST_BASES = ["BUF_LEN", "RETRY_LIMIT", "POOL_SIZE", "DEFAULT_PORT", "CACHE_TTL_MS", "PAGE_ROWS", "TIMEOUT", "WORKER_COUNT_MAX",
               "START_DELAY", "LOG_LEVEL_NAME", "QUOTA"]
CONST_VALUES = ["5", "30", "1024", "\"x\"", "0.5", "5"]
_CONST_RE = re.compile(r"^[A-Z][A-Z0-9_]+$")
_SWAPS = {"MAX": "MIN", "MIN": "MAX", "START": "END", "END": "START", "FIRST": "LAST", "LAST": "FIRST"}
FUNC_POOL = [["", "run_stage"], ["worker", "run_stage"], ["", "ship_order"], ["bus", "handle_event"], ["", "schedule"],
             ["task", "mark_state"], ["ui", "choose_theme"], ["hub", "emit_signal"]]
VALUE_POOLS = [["fast", "slow"], ["red", "green", "blue"], ["build", "test", "deploy", "publish"],
               ["north", "south", "east", "west", "center"], ["draft", "final"], ["cpu", "gpu", "tpu"]]
CMP_VARS = ["env", "status", "tier", "phase", "flavour"]
PLANT_KINDS = ("K", "F", "Q", "M")


def name_walk(r, base: str, n: int) -> list:
    """n constant names starting at base; each next name is 1-2 small edits of the previous one (append / drop / substitute
    characters, rotate the words, swap a word for its antonym), so that neighbours are near-equal and the ends usually are not"""
    names, cur, guard = [base], base, 0
    while len(names) < n and guard < 50:
        guard += 1
        x = r.random()
        nxt = cur
        if x < 0.45:
            nxt = cur + r.choice(["S", "2", "10", "_X", "ER", "B", "24", "_A"])
        elif x < 0.58 and len(cur) > 5 and cur[-2] != "_":
            nxt = cur[:-1]
        elif x < 0.76:
            pos = [k for k, ch in enumerate(cur) if ch.isalpha() and k > 0]
            k = r.choice(pos)
            nxt = cur[:k] + r.choice("ABEKMNORTXZ") + cur[k + 1:]
        elif x < 0.9 and "_" in cur:
            ws = cur.split("_")
            nxt = "_".join(ws[1:] + ws[:1])
        else:
            ws = cur.split("_")
            sw = [k for k, w in enumerate(ws) if w in _SWAPS]
            if sw:
                k = r.choice(sw)
                ws[k] = _SWAPS[ws[k]]
                nxt = "_".join(ws)
            else:
                nxt = cur + "_MAX"
        if nxt != cur and _CONST_RE.match(nxt) and not nxt.endswith("_") and "__" not in nxt and len(nxt) < 40:
            if r.random() < 0.85:
                names.append(nxt)      # (sometimes a step of the walk is skipped: neighbours 2 steps apart)
            cur = nxt
    return names


def _spread(r, files: list, n_sites: int) -> list:
    """n_sites >= len(files) sites over the files, every file at least one"""
    out = list(files) + [r.choice(files) for _ in range(max(0, n_sites - len(files)))]
    r.shuffle(out)
    return out


def plant_cross(r, items_of: dict, p: float) -> list:
    """adds cross-file plants to the item lists of a project (items_of: path -> items); each family with probability p;
    returns what was planted (for the distribution report): [family, n_files, n_sites]"""
    cands = [q for q in items_of if lang_of(q) in ("py", "ts") and not q.startswith(TOGGLE_DIRS) and q not in PATH_POOL_SKIP]
    cands_py = [q for q in cands if lang_of(q) == "py"]
    planted = []
    counter = [0]

    def tag_of(q):
        counter[0] += 1
        return (re.sub(r"[^a-z]", "", q.split(".")[0])[-3:] or "x") + "p" + str(counter[0])

    for fam in ("K", "F", "Q", "M", "B"):
        if r.random() >= p:
            continue
        pool = cands_py if fam == "M" else cands
        if len(pool) < 2:
            continue
        k = r.randint(min(3, len(pool)), min(5, len(pool)))
        files = r.sample(pool, k)
        sites = _spread(r, files, r.choice([k, k + 1, 6, 7, 8, 9]))
        if fam == "K":
            names = name_walk(r, r.choice(CONST_BASES), r.randint(1, 5))
            order = list(names)
            r.shuffle(order)
            same_value = r.random() < 0.5
            used = set()
            for j, q in enumerate(sites):
                nm = order[j % len(order)] if j < len(order) or r.random() < 0.5 else r.choice(names)
                if (q, nm) in used:
                    continue
                used.add((q, nm))
                items_of[q].append(["K", [nm, CONST_VALUES[0] if same_value else r.choice(CONST_VALUES)], tag_of(q)])
        elif fam == "F":
            recv, fn = r.choice(FUNC_POOL)
            vals = r.choice(VALUE_POOLS)
            per = {}
            for q in sites:
                per.setdefault(q, []).append(r.choice(vals))
            for q, vs in per.items():
                items_of[q].append(["F", [recv, fn, vs, len(vs) >= 2 and r.random() < 0.2], tag_of(q)])
        elif fam == "Q":
            var = r.choice(CMP_VARS)
            vals = r.choice(VALUE_POOLS)
            per = {}
            for q in sites:
                per.setdefault(q, []).append(r.choice(vals))
            for q, vs in per.items():
                items_of[q].append(["Q", [var, vs], tag_of(q)])
        elif fam == "M":
            var = r.choice(CMP_VARS)
            vals = r.choice(VALUE_POOLS[1:4])
            for q in sites:
                vs = vals if r.random() < 0.85 else vals[:-1] + ["other"]
                items_of[q].append(["M", [var, list(vs)], tag_of(q)])
        else:
            i = r.randrange(3)
            for q in sites:
                items_of[q].append(["B", i, tag_of(q)])
        planted.append([fam, k, len(sites)])
    return planted


def render_plant(lang: str, k: str, spec, tag: str) -> str:
    if k == "K":
        name, value = spec
        return f"{name} = {value}\n" if lang == "py" else f"{'export ' if len(name) % 2 else ''}const {name} = {value};\n"
    if k == "F":
        recv, fn, vals, oneline = spec
        callee = f"{recv}.{fn}" if recv else fn
        arg = recv or "ctx"
        calls = [f'{callee}("{v}")' for v in vals]
        if lang == "py":
            body = f"    pair = ({', '.join(calls)})\n    return pair\n" if oneline else "".join(f"    {c}\n" for c in calls) + f"    return {arg}\n"
            return f"def drive_{tag}({arg}):\n" + body
        body = f"  const pair = [{', '.join(calls)}];\n  return pair;\n" if oneline else "".join(f"  {c};\n" for c in calls) + f"  return {arg};\n"
        return f"function drive_{tag}({arg}: any): any {{\n" + body + "}\n"
    if k == "Q":
        var, vals = spec
        if lang == "py":
            return f"def route_{tag}({var}):\n" + "".join(f'    if {var} == "{v}":\n        return {j + 1}\n' for j, v in enumerate(vals)) + "    return 0\n"
        return (f"function route_{tag}({var}: string): number {{\n" +
                "".join(f'  if ({var} === "{v}") {{\n    return {j + 1};\n  }}\n' for j, v in enumerate(vals)) + "  return 0;\n}\n")
    if k == "M":
        var, vals = spec
        tup = ", ".join(f'"{v}"' for v in vals)
        return f"def member_{tag}({var}):\n    if {var} in ({tup}):\n        return 1\n    return 0\n"
    raise ValueError(k)


KINDS_PY = {"B": PY_BODIES, "C": PY_CONSTS, "S": PY_STRINGLY, "L": PY_LOCAL, "N": PY_NAMES}
KINDS_TS = {"B": TS_BODIES, "C": TS_CONSTS, "S": TS_STRINGLY, "L": TS_LOCAL, "N": TS_NAMES}

_DOC_EXAMPLES: dict | None = None


def doc_examples() -> dict:
    """documented examples of every linter (docs/*-linter.md via translator/docs2cases.py, read-only), by language;
    examples carrying suppression directives are left out (directive caches are outside the model)"""
    global _DOC_EXAMPLES
    if _DOC_EXAMPLES is None:
        out = {"py": [], "ts": [], "rs": []}
        try:
            from translator import docs2cases
            for e in docs2cases.extract()["examples"]:
                code = e["code"]
                lang = {"js": "ts"}.get(e["lang"], e["lang"])
                if lang in out and "thailint:" not in code and "dry:" not in code and "__future__" not in code and len(code) < 4000:
                    out[lang].append([e["linter"], code if code.endswith("\n") else code + "\n"])
        except Exception:  # noqa: BLE001  (the hand-written snippets remain)
            pass
        _DOC_EXAMPLES = out
    return _DOC_EXAMPLES

PATH_POOL_PY = ["a.py", "b.py", "y.py", "pkg/c.py", "pkg/d.py", "pkg/y.py", "pkg/sub/e.py", "pkg/sub/k.py", "lib/p.py", "lib/x.py"]
PATH_POOL_TS = ["web/f.ts", "web/g.ts", "web/ui/h.ts", "web/w.js"]
PATH_POOL_RS = ["rs/m.rs", "rs/n.rs", "rs/util/o.rs"]
PATH_POOL_SKIP = ["build/x.py", "gen/y.py", "pkg/z.pyc", "node_modules/dep/i.js", "gen/deep/v.py"]
CONFIG_NAME = ".thailint.yaml"
IGNORE_NAME = ".thailintignore"


def lang_of(path: str) -> str:
    return "ts" if path.endswith((".ts", ".js")) else "rs" if path.endswith(".rs") else "py"


def render_content(path: str, items: list) -> str:
    """items: list of [kind, index, tag]; a file version is identified by its item list"""
    kinds = KINDS_TS if lang_of(path) == "ts" else KINDS_PY
    out = []
    consts = [it for it in items if it[0] in ("C", "K")]
    rest = [it for it in items if it[0] not in ("C", "K")]
    if lang_of(path) == "py":
        out.append('"""module."""\n')
    for k, i, tag in consts:
        out.append(render_plant(lang_of(path), k, i, tag) if k == "K" else kinds[k][i % len(kinds[k])])
    for k, i, tag in rest:
        if k in PLANT_KINDS:
            out.append("\n" + render_plant(lang_of(path), k, i, tag))
        elif k == "X":
            out.append("\n" + i)      # raw text (a documented example), carried in the case itself
        elif k in ("BI", "BN"):
            # a duplicate-able body under an inline DRY suppression comment (Python only; `#` comments are not code)
            out.append("\n" + ("# dry: ignore-block\n" if k == "BI" else "# dry: ignore-next\n") + kinds["B"][i % len(kinds["B"])].format(n=tag))
        elif k == "U":
            out.append((f"def only_{tag}(a):\n    return a + 1\n" if lang_of(path) == "py" else f"function only{tag}(a: number): number {{\n  return a + 1;\n}}\n"))
        else:
            out.append("\n" + kinds[k][i % len(kinds[k])].format(n=tag))
    return "".join(out)


TOGGLE_DIRS = ("lib/", "gen/")     # directories that histories add to / remove from .thailintignore: per-file content only
IGNORE_POOL = [[], ["gen/"], ["lib/"], ["gen/", "lib/"], ["lib/x.py"], ["gen/", "lib/p.py"]]


def gen_items(r, path: str, tag: str, rich: float = 0.7) -> list:
    lang = lang_of(path)
    if path.startswith(TOGGLE_DIRS) and lang == "py":
        # per-file findings only, and no block another file could duplicate: the cross-file reports filter by the
        # ignore patterns current at finalize time, which the measured report tables do not carry
        items = [["L", i, tag] for i in (0, 1) if r.random() < 0.7]
        items.append(["U", 0, tag + str(r.randrange(1000))])
        r.shuffle(items)
        return items
    docs = doc_examples()[lang]
    if lang == "rs":
        items = [["X", r.choice(docs)[1], tag] for _ in range(r.randint(1, 2))] if docs else []
        if r.random() < 0.6:
            items.append(["X", RS_LADDER.format(n=tag), tag])
        return items or [["X", "fn only_" + tag + "() -> i32 {\n    1\n}\n", tag]]
    kinds = KINDS_TS if lang == "ts" else KINDS_PY
    items = []
    if docs and r.random() < 0.45:
        items.append(["X", r.choice(docs)[1], tag])
    for k in ("C", "B", "S", "L", "N"):
        pool = kinds[k]
        for i in range(len(pool)):
            p = {"C": 0.45, "B": 0.5, "S": 0.4, "L": 0.3, "N": 0.22}[k] * (rich / 0.7)
            if r.random() < p:
                items.append([k, i, tag])
                if k == "B" and r.random() < 0.2:
                    items.append([k, i, tag + "w"])   # the same body twice in one file: a duplicate within a single file
                elif k == "B" and lang_of(path) == "py" and r.random() < 0.22:
                    items[-1] = [r.choice(["BI", "BI", "BN"]), i, tag]   # the body sits under a `# dry: ignore-...` comment
    if r.random() < 0.3 or not items:
        items.append(["U", 0, tag + str(r.randrange(1000))])
    r.shuffle(items)
    return items


def gen_project(r, n_files=(3, 8), with_skips=True, plant: float = 0.3) -> dict:
    """abstract project: sorted relative paths (path id = index), directories, config, ignore patterns, file versions"""
    n = r.randint(*n_files)
    pool = list(PATH_POOL_PY)
    r.shuffle(pool)
    paths = pool[:max(2, n - 2)]
    ts = list(PATH_POOL_TS)
    r.shuffle(ts)
    paths += ts[:r.choice([0, 1, 2, 2, 3])]
    rs = list(PATH_POOL_RS)
    r.shuffle(rs)
    paths += rs[:r.choice([0, 0, 1, 2])]
    if with_skips:
        sk = list(PATH_POOL_SKIP)
        r.shuffle(sk)
        paths += sk[:r.choice([0, 1, 1, 2])]
    storage = r.choice(["memory", "memory", "tempfile"])
    config = {"dry": {"enabled": True, "min_duplicate_lines": 3, "min_duplicate_tokens": 10, "storage_mode": storage},
              "stringly-typed": {"enabled": True}}
    if r.random() < 0.15:
        config["dry"]["detect_duplicate_constants"] = False
    if r.random() < 0.4:
        config["file-placement"] = json.loads(json.dumps(r.choice(FP_VARIANTS[1:])))
    if r.random() < 0.75:
        config.update(language_blocks(r))
        if r.random() < 0.5:
            config["dry"]["python"] = {"min_occurrences": r.choice([2, 3])}
            config["dry"]["typescript"] = {"min_occurrences": r.choice([2, 3])}
    ignore = ["gen/"] if any(p.startswith("gen/") for p in paths) or r.random() < 0.3 else []
    spare = [p for p in PATH_POOL_PY + PATH_POOL_TS + PATH_POOL_RS if p not in paths]
    r.shuffle(spare)
    universe = sorted(set(paths + spare[:2] + [CONFIG_NAME, IGNORE_NAME]))
    contents: list = []   # content id -> [path, items] ; text rendered on demand

    def new_content(path, items):
        contents.append([path, items])
        return len(contents) - 1

    fs0 = {}
    # three configuration variants up front (their content ids are 0, 1, 2: small keys for the model's file versions)
    configs = [config, config_variant(r, config), config_variant(r, config_variant(r, config))]
    for k in range(3):
        new_content(CONFIG_NAME, ["CONFIG", k])
    items_of = {}
    for p in paths:
        tag = re.sub(r"[^a-z]", "", p.split(".")[0])[-3:] or "x"
        items_of[p] = gen_items(r, p, tag)
    planted = plant_cross(r, items_of, plant) if plant > 0 else []
    for p in paths:
        fs0[universe.index(p)] = new_content(p, items_of[p])
    fs0[universe.index(CONFIG_NAME)] = 0
    if ignore:
        fs0[universe.index(IGNORE_NAME)] = new_content(IGNORE_NAME, ["IGNORE", ignore])
    dirs = sorted({""} | {"/".join(p.split("/")[:k]) for p in universe for k in range(1, p.count("/") + 1)})
    return {"paths": universe, "dirs": dirs, "config": config, "configs": configs, "ignore": ignore, "contents": contents,
            "fs0": {str(k): v for k, v in fs0.items()}, "planted": planted}


def config_of(proj: dict, k: int) -> dict:
    """configuration variant k of a project (0 = proj["config"])"""
    return (proj.get("configs") or [proj["config"]])[k] if k else proj["config"]


def config_of_cid(proj: dict, cid: int) -> dict:
    """the configuration a version of the configuration file (content id) says"""
    items = proj["contents"][cid][1]
    return config_of(proj, items[1] if len(items) > 1 else 0)


# a file version as the model's rules see it: enc content configuration (Model/OrchHist.v: c * 8 + key, key = 0 for "no
# configuration file", content id + 1 otherwise; configuration-file versions get the smallest content ids)
def enc_version(cid, cfg_cid) -> int:
    key = 0 if cfg_cid is None else cfg_cid + 1
    assert 0 <= key < 8, "configuration file versions must have content ids below 7"
    return cid * 8 + key


def absent_version(cfg_cid) -> int:
    """the 'version' under which the model asks the rules about a path with no file behind it (Model/OrchHist.v absent_ver):
    the configuration key alone (< 8, never the version of an existing file)"""
    return 0 if cfg_cid is None else cfg_cid + 1


def dec_version(v: int):
    return v // 8, (None if v % 8 == 0 else v % 8 - 1)


FP_VARIANTS = [None,
               {"directories": {"pkg": {"deny": [".*y\\.py$"]}, "web": {"allow": [".*\\.ts$"]}}},
               {"directories": {"pkg": {"allow": [".*\\.py$"]}, "rs": {"deny": [".*\\.rs$"]}, "lib": {"deny": [".*"]}}},
               {"global_deny": [{"pattern": ".*\\.js$", "reason": "no plain JavaScript"}], "directories": {"web": {"allow": [".*\\.ts$", ".*\\.js$"]}}}]


def config_variant(r, base: dict) -> dict:
    """another configuration for the same project: other file-placement rules (or none), other thresholds"""
    cfg = json.loads(json.dumps(base))
    cur = cfg.get("file-placement")
    fp = r.choice([v for v in FP_VARIANTS if v != cur])
    if fp is None:
        cfg.pop("file-placement", None)
    else:
        cfg["file-placement"] = json.loads(json.dumps(fp))
    if r.random() < 0.7:
        cfg.update(language_blocks(r))
    return cfg


def content_text(proj: dict, cid: int) -> str:
    path, items = proj["contents"][cid][:2]
    if items and items[0] == "CONFIG":
        import yaml
        return yaml.safe_dump(config_of(proj, items[1] if len(items) > 1 else 0), sort_keys=True)
    if items and items[0] == "IGNORE":
        return "".join(p + "\n" for p in (items[1] if len(items) > 1 else proj["ignore"]))
    return render_content(path, items)


def in_dir(d: str, p: str) -> bool:
    return d == "" or p.startswith(d + "/")


# ------------------------------------------------------------------ implementation side
def canon_violation(v, root: Path) -> tuple:
    """every field of a violation; paths made relative to the scratch project"""
    rs = str(root)
    fp = str(v.file_path)
    if fp.startswith(rs + "/"):
        fp = fp[len(rs) + 1:]
    elif not os.path.isabs(fp):
        fp = os.path.normpath(fp)
    sev = getattr(v.severity, "name", str(v.severity))
    msg = str(v.message).replace(rs + "/", "$R/").replace(rs, "$R")
    sug = v.suggestion
    if isinstance(sug, str):
        sug = sug.replace(rs + "/", "$R/").replace(rs, "$R")
    return (str(v.rule_id), fp, v.line, v.column, msg, sev, sug)


def canon_dict_violation(d: dict, root: Path, cwd: Path | None = None) -> tuple:
    """the same canonical form from a `--format json` entry"""
    rs = str(root)
    fp = str(d.get("file_path"))
    if not os.path.isabs(fp) and cwd is not None:
        fp = os.path.normpath(str(cwd / fp))
    if fp.startswith(rs + "/"):
        fp = fp[len(rs) + 1:]
    msg = str(d.get("message")).replace(rs + "/", "$R/").replace(rs, "$R")
    sev = str(d.get("severity", "")).upper()
    return (str(d.get("rule_id")), fp, d.get("line"), d.get("column"), msg, sev)


def write_project(root: Path, proj: dict, fs: dict) -> None:
    for pid, cid in fs.items():
        f = root / proj["paths"][int(pid)]
        f.parent.mkdir(parents=True, exist_ok=True)
        f.write_text(content_text(proj, cid))


def snapshot(d: Path) -> dict:
    out = {}
    if not d.exists():
        return out
    for dp, dns, fns in os.walk(d):
        for x in dns:
            out[os.path.relpath(os.path.join(dp, x), d) + "/"] = "dir"
        for x in fns:
            p = os.path.join(dp, x)
            try:
                st = os.stat(p)
                with open(p, "rb") as fh:
                    h = hashlib.sha256(fh.read()).hexdigest()[:12]
                out[os.path.relpath(p, d)] = f"{st.st_size}:{st.st_mtime_ns}:{h}"
            except OSError as e:
                out[os.path.relpath(p, d)] = f"unreadable:{e.errno}"
    return out


def snapshot_diff(a: dict, b: dict) -> list[str]:
    out = []
    for k in sorted(set(a) | set(b)):
        if k not in b:
            out.append(f"deleted {k}")
        elif k not in a:
            out.append(f"created {k}")
        elif a[k] != b[k]:
            out.append(f"modified {k}")
    return out


def os_listing(root: Path, d: str, proj: dict) -> list[int]:
    """path ids of the files below root/d in the order os.walk yields them (no pruning: the model filters)"""
    out = []
    for dp, dns, fns in os.walk(root / d if d else root):
        for x in fns:
            rel = os.path.relpath(os.path.join(dp, x), root)
            if rel in proj["paths"]:
                out.append(proj["paths"].index(rel))
    return out


def fresh_linter(root: Path):
    """a Linter as a fresh process would build it: the process-wide ignore-parser singleton is dropped first"""
    ensure_repo_on_path()
    try:
        from src.linter_config.ignore import clear_ignore_parser_cache
        clear_ignore_parser_cache()
    except ImportError:
        pass
    from src.api import Linter
    return Linter(config_file=root / CONFIG_NAME, project_root=root)


def same_process_linter(root: Path):
    """a Linter built by a long-lived process that already built others: nothing is cleared"""
    ensure_repo_on_path()
    from src.api import Linter
    return Linter(config_file=root / CONFIG_NAME, project_root=root)


class ProcessStateGuard:
    """Baseline / measurement objects are built 'as in a fresh process' (fresh_linter clears the ignore-parser
    singleton).  The long-lived object under test must not notice: the module-level singleton of
    src.linter_config.ignore is saved on entry and put back on exit (harness-side; looked up defensively)."""

    NAMES = ("_CACHED_PARSER", "_CACHED_PROJECT_ROOT")

    def __enter__(self):
        self.mod, self.saved = None, {}
        try:
            ensure_repo_on_path()
            import src.linter_config.ignore as ig
            self.mod = ig
            self.saved = {n: getattr(ig, n) for n in self.NAMES if hasattr(ig, n)}
        except ImportError:
            pass
        return self

    def __exit__(self, *a):
        if self.mod is not None:
            for n, v in self.saved.items():
                setattr(self.mod, n, v)
        return False


def _ignored_ids(root: Path, proj: dict) -> list:
    """path ids the ignore patterns on disk match - computed WITHOUT any memo table (the expression of
    IgnoreDirectiveParser.is_ignored, whose shape the generated layer checks: any(matches_pattern(relative path, p) for p in
    the loaded patterns)), so that a stale or shared cache in the implementation cannot leak into the model's parameters;
    falls back to a newly built parser when the helpers are gone"""
    try:
        import src.linter_config.ignore as ig
        from src.linter_config.pattern_utils import matches_pattern
        pats = ig._load_repo_ignores(root)
        return [i for i, p in enumerate(proj["paths"]) if any(matches_pattern(p, pat) for pat in pats)]
    except (ImportError, AttributeError):
        lin = fresh_linter(root)
        return [i for i, p in enumerate(proj["paths"]) if lin.orchestrator.ignore_parser.is_ignored(root / p)]


def path_flags(root: Path, proj: dict) -> tuple[list[int], list]:
    """hard-excluded path ids, and for every version of the ignore file (key 0: no file, cid + 1: that content) the
    path ids its patterns match - asked from the implementation's own predicates on fresh parsers (C14 is about their
    meaning; here they are parameters of the model).  The ignore file on disk is put back afterwards."""
    ensure_repo_on_path()
    from src.orchestrator import core
    probe = fresh_linter(root).orchestrator
    inside = getattr(probe, "_path_inside_project", lambda f: f)     # the exclusion is decided on the path inside the project
    hard = [i for i, p in enumerate(proj["paths"]) if core._is_hardcoded_excluded(inside(root / p))]
    del probe
    ig_file = root / IGNORE_NAME
    before = ig_file.read_text() if ig_file.exists() else None
    versions = [None] + [cid for cid, e in enumerate(proj["contents"]) if e[0] == IGNORE_NAME]
    table = []
    with ProcessStateGuard():
        for cid in versions:
            if cid is None:
                if ig_file.exists():
                    ig_file.unlink()
            else:
                ig_file.write_text(content_text(proj, cid))
            table.append([0 if cid is None else cid + 1, [i for i in _ignored_ids(root, proj) if i not in hard]])
        if before is None:
            if ig_file.exists():
                ig_file.unlink()
        else:
            ig_file.write_text(before)
    return hard, table


def cross_rules(orch):
    """rule objects of a fresh orchestrator that override finalize()"""
    from src.core.base import BaseLintRule
    orch._ensure_rules_discovered()
    return [r for r in orch.registry.list_all() if type(r).finalize is not BaseLintRule.finalize]


KIND_BLOCKS, KIND_CONSTS, KIND_ST = 0, 1, 2


def kind_of(rule_id: str, message: str) -> int | None:
    if rule_id.startswith("dry."):
        return KIND_BLOCKS if message.startswith("Duplicate code (") else KIND_CONSTS
    if rule_id.startswith("stringly-typed"):
        return KIND_ST
    return None


class AnalyzeMemo:
    """Speeds up the single-shot report measurements: while installed (measurement worker processes only), the DRY
    FileAnalyzer.analyze method - a function of (path, content, language, config) - is memoised, so that a file version
    that occurs in many evidence lists is tokenised once.  Purely a harness-side wrapper around the implementation's own
    function; nothing under /repo is touched.  If the class is gone the measurements simply run unmemoised."""

    def __init__(self):
        self.cache: dict = {}
        self.cls = None
        self.orig = None

    def __enter__(self):
        try:
            ensure_repo_on_path()
            from src.linters.dry.file_analyzer import FileAnalyzer
        except ImportError:
            return self
        self.cls, self.orig = FileAnalyzer, FileAnalyzer.analyze
        cache, orig = self.cache, self.orig

        def analyze(slf, file_path, content, language, config):
            key = (str(file_path), content, str(language), repr(config))
            if key not in cache:
                cache[key] = orig(slf, file_path, content, language, config)
            return list(cache[key])

        FileAnalyzer.analyze = analyze
        return self

    def __exit__(self, *a):
        if self.cls is not None:
            self.cls.analyze = self.orig
        return False


def neutralise(text: str) -> str:
    """the same code with its inline DRY suppression comments made inert (comments are stripped before hashing, so the
    block rows are unchanged): used for file versions whose rows are in the storage but whose ranges are not known"""
    return text.replace("# dry:", "# dry-")


def measure_report(root: Path, proj: dict, kind: int, evidence: list, n_pending: int = 0, report_cfg=None, cfg_dicts=None) -> list[tuple]:
    """single shot: fresh rule objects, check() every file version of the evidence list in order, finalize() once;
    returns the canonical violations of the requested kind.  evidence: (path id, content id, configuration-file content id)
    triples - every file version is checked under the configuration it was seen with (cfg_dicts: content id -> loaded
    configuration).  For the DRY reports the configuration the report is made under is imposed first, through the rule's
    own check() on an empty probe file (DRYRule adopts the configuration of the first file it checks).  For the block report
    only the last n_pending entries are checked with their real text; the older ones (rows surviving from earlier runs) with
    neutralised comments."""
    if not evidence:
        return []
    stale = len(evidence) - n_pending if kind == KIND_BLOCKS else 0
    ensure_repo_on_path()
    from src.orchestrator.core import FileLintContext
    from src.orchestrator.language_detector import detect_language
    lin = fresh_linter(root)
    orch = lin.orchestrator
    want = "stringly-typed" if kind == KIND_ST else "dry."
    rules = [rl for rl in cross_rules(orch) if str(rl.rule_id).startswith(want)]

    def cfg_for(cfg_cid):
        if cfg_dicts is not None and cfg_cid in cfg_dicts:
            return cfg_dicts[cfg_cid]
        return orch.config

    if kind != KIND_ST and report_cfg is not None and cfg_dicts is not None:
        probe = root / "__cfgprobe__.py"
        pctx = FileLintContext(probe, detect_language(probe), content="", metadata={**cfg_for(report_cfg), "_project_root": orch.project_root})
        for rl in rules:
            rl.check(pctx)
    for k, ev in enumerate(evidence):
        pid, cid = ev[0], ev[1]
        f = root / proj["paths"][pid]
        text = content_text(proj, cid)
        if k < stale:
            text = neutralise(text)
        ctx = FileLintContext(f, detect_language(f), content=text, metadata={**cfg_for(ev[2] if len(ev) > 2 else None), "_project_root": orch.project_root})
        for rl in rules:
            rl.check(ctx)
    out = []
    for rl in rules:
        for v in rl.finalize():
            if kind_of(str(v.rule_id), str(v.message)) == kind:
                out.append(canon_violation(v, root))
    return out


# ------------------------------------------------------------------ fallback model (recorded generated layer)
MODEL_FILES = ["Lib/Base.v", "Lib/GenTypes.v", "Gen/OrchHistGen.v", "Model/OrchHist.v", "Model/OrchHistRun.v", "Actual/OrchHistActual.v", "Model/OrchConsts.v"]


def fallback_theories(workdir: Path) -> Path | None:
    """When the generated layer no longer builds (a source idiom changed shape; the obligations are already recorded as
    broken) the SEARCH for a concrete failing input still needs an executable model: compile a scratch copy of the model
    against the last recorded generated layer (coq/Gen.expected/OrchHistGen.v.txt).  Never used when the real layer builds."""
    import shutil
    import subprocess
    snap = coq.COQ / "Gen.expected" / "OrchHistGen.v.txt"
    if not snap.exists():
        return None
    th = workdir / "theories"
    for rel in MODEL_FILES:
        dst = th / rel
        dst.parent.mkdir(parents=True, exist_ok=True)
        shutil.copy(snap if rel == "Gen/OrchHistGen.v" else coq.TH / rel, dst)
    for rel in MODEL_FILES:
        p = subprocess.run(["timeout", "300", "coqc", "-Q", str(th), "TL", "-w", "-notation-overridden", str(th / rel)],
                           capture_output=True, text=True, cwd=str(th))
        if p.returncode != 0:
            return None
    return th


def eval_shards(th: Path | None, workdir: Path, header: str, shards: list) -> list:
    if th is None:
        return coq.eval_shards(workdir, header, shards)
    import subprocess
    from concurrent.futures import ThreadPoolExecutor
    workdir.mkdir(parents=True, exist_ok=True)
    paths = []
    for i, body in enumerate(shards):
        p = workdir / f"cases_{i}.v"
        p.write_text(header + "\n" + body + "\n")
        paths.append(p)

    def one(p):
        r = subprocess.run(["timeout", "600", "coqc", "-Q", str(th), "TL", "-w", "-notation-overridden,-abstract-large-number", str(p)],
                           capture_output=True, text=True, cwd=str(p.parent))
        if r.returncode != 0:
            raise RuntimeError(f"coqc failed on {p.name}: {r.stderr[-800:]}")
        return coq.parse_nat_lists(r.stdout)
    with ThreadPoolExecutor(max_workers=PROCS) as ex:
        return list(ex.map(one, paths))


def model_theories(chk, workdir: Path):
    """None when the real model built; otherwise the fallback theories directory (or False when there is none)"""
    if "theories/Model/OrchHistRun.v" in chk.build_result.compiled:
        return None
    th = fallback_theories(workdir / "fallback")
    chk.notes.append("the generated layer / model no longer builds; the search for a failing input evaluated the model against the last "
                     "recorded generated layer coq/Gen.expected/OrchHistGen.v.txt" if th else
                     "the generated layer / model no longer builds and no recorded layer is available: cases are judged by the plain differential oracle only")
    return th if th else False


# ------------------------------------------------------------------ Coq rendering
def coq_nat_list(xs) -> str:
    return "[" + "; ".join(str(int(x)) for x in xs) + "]"


def coq_N_list(xs) -> str:
    return "[" + "; ".join(f"{int(x)}%N" for x in xs) + "]"


def coq_fs(fs: dict) -> str:
    return "[" + "; ".join(f"({int(p)}, {int(c)})" for p, c in sorted(fs.items(), key=lambda kv: int(kv[0]))) + "]"


def coq_op(op: list) -> str:
    k = op[0]
    if k == "LintFile":
        return f"LintFile {op[1]}"
    if k == "LintFiles":
        return f"LintFiles {coq_nat_list(op[1])}"
    if k == "LintDir":
        return f"LintDir {op[1]} {coq_nat_list(op[2])}"
    if k == "ApiFile":
        return f"ApiLint (TFile {op[1]})"
    if k == "ApiDir":
        return f"ApiLint (TDir {op[1]} {coq_nat_list(op[2])})"
    if k == "Edit":
        return f"Edit {op[1]} {op[2]}"
    if k == "Delete":
        return f"Delete {op[1]}"
    if k == "Add":
        return f"Add {op[1]} {op[2]}"
    if k == "NewLinter":
        return "NewLinter"
    if k == "ReloadConfig":
        return "ReloadConfig"
    raise ValueError(k)


def canon_op(op: list) -> list:
    if op[0] == "LintFiles":
        return [op[0], sorted(op[1])]
    if op[0] in ("LintDir", "ApiDir"):
        return [op[0], op[1], sorted(op[2])]
    return op


def coq_ign(table) -> str:
    return "[" + "; ".join(f"({k}, {coq_nat_list(l)})" for k, l in table) + "]"


def coq_dirs(proj: dict) -> str:
    rows = []
    for di, d in enumerate(proj["dirs"]):
        members = [i for i, p in enumerate(proj["paths"]) if in_dir(d, p)]
        rows.append(f"({di}, {coq_nat_list(members)})")
    return "[" + "; ".join(rows) + "]"


class Ids:
    """canonical violation tuple -> positive number (0 is the model's 'missing table entry' sentinel)"""

    def __init__(self):
        self.map: dict = {}

    def of(self, t) -> int:
        t = tuple(t) if isinstance(t, list) else t
        if t not in self.map:
            self.map[t] = len(self.map) + 1
        return self.map[t]

    def many(self, ts) -> list[int]:
        return [self.of(t) for t in ts]
