"""C11: the healthy corpus the grammar-aware mutations start from.

Besides the hand-written pool (c11_pool) the donors are
  * every documented example of every linter (translator/docs2cases.py, all languages), grouped per (linter, language)
    and joined into chunks of at most ~90 lines, so that each linter's analyzers meet the constructs they react to;
  * files drawn from the other properties' generators, used read-only: C17 (Rust async fns with std::fs / std::thread /
    std::net calls, clones, unwraps), C16 (classes / impls), C02 (numeric literals of every spelling in four languages),
    C01 (control-flow skeletons).
A generator that cannot be imported is skipped with a note (the documented examples alone still cover every linter).
"""
from __future__ import annotations

from harness.common import rng_for

EXT = {"py": ".py", "ts": ".ts", "js": ".js", "rs": ".rs"}
CHUNK_LINES = 90


def doc_groups():
    """-> ({(linter, lang): [chunk text, ...]}, notes)"""
    notes = []
    try:
        from translator import docs2cases
        doc = docs2cases.extract()
    except Exception as e:  # noqa: BLE001
        return {}, [f"documented examples unavailable ({type(e).__name__}: {e})"]
    groups: dict[tuple[str, str], list[str]] = {}
    cur: dict[tuple[str, str], list[str]] = {}
    for ex in doc.get("examples", []):
        key = (ex["linter"], ex["lang"])
        code = ex["code"] if ex["code"].endswith("\n") else ex["code"] + "\n"
        buf = cur.setdefault(key, [])
        if buf and sum(c.count("\n") for c in buf) + code.count("\n") > CHUNK_LINES:
            groups.setdefault(key, []).append("\n".join(buf))
            buf.clear()
        buf.append(code)
    for key, buf in cur.items():
        if buf:
            groups.setdefault(key, []).append("\n".join(buf))
    if doc.get("unknown_docs"):
        notes.append("docs2cases: unknown documents " + ", ".join(map(str, doc["unknown_docs"]))[:200])
    return groups, notes


def generator_groups(seed: int, n: int = 5):
    """-> ({(generator name, lang): [text, ...]}, notes)"""
    groups: dict[tuple[str, str], list[str]] = {}
    notes = []
    try:
        from harness.props import c17
        for c in c17.gen_cases(seed, n + 3, 3):
            groups.setdefault(("gen:c17-rust-safety", "rs"), []).append(c["text"])
    except Exception as e:  # noqa: BLE001
        notes.append(f"C17 generator unavailable ({type(e).__name__})")
    try:
        from harness.props import c16
        for c in c16.gen_cases(seed, 3 * n, 1, 0.6):
            groups.setdefault(("gen:c16-classes", c["lang"]), []).append(c["text"])
    except Exception as e:  # noqa: BLE001
        notes.append(f"C16 generator unavailable ({type(e).__name__})")
    try:
        from harness.props import c02
        for c in c02.gen_cases(seed, 3 * n):
            f = c["file"]
            lang = f.get("lang") if isinstance(f, dict) else getattr(f, "lang", None)
            if lang in EXT:
                groups.setdefault(("gen:c02-numerics", lang), []).append(c["text"])
    except Exception as e:  # noqa: BLE001
        notes.append(f"C02 generator unavailable ({type(e).__name__})")
    try:
        from harness import skel
        for i in range(2 * n):
            r = rng_for(seed, "C11", "skel", i)
            lang = ["py", "ts", "rs", "js"][i % 4]
            lk = "ts" if lang == "js" else lang
            g = skel.Gen(r, skel.LANG_KINDS[lk], skel.LANG_FKINDS[lk], max_depth=5, else_single_if_ok=(lk != "py"))
            items = g.file()
            if not skel.lang_ok(lang, items):
                continue
            text, _ = skel.render(lang, items)
            groups.setdefault(("gen:c01-skeletons", lang), []).append(text)
    except Exception as e:  # noqa: BLE001
        notes.append(f"C01 skeleton generator unavailable ({type(e).__name__})")
    return groups, notes


_cache: dict[int, tuple] = {}


def all_groups(seed: int):
    if seed not in _cache:
        d, n1 = doc_groups()
        g, n2 = generator_groups(seed)
        d.update(g)
        _cache[seed] = (d, n1 + n2)
    return _cache[seed]
