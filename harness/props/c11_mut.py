"""C11: the grammar-aware mutation stream (validated part of the property).

`offender(rng, i)` draws one offending file: (mutation class, sub-kind, file name, bytes).  Donors are valid
Python / TypeScript / JavaScript / Rust files from c11_pool; the mutation classes follow the property's
quantifier: truncation, token deletion / duplication, bracket imbalance, encoding damage, BOM, CRLF / mixed line
endings, NUL bytes, nesting blow-up beyond the interpreter recursion limit, length blow-up, unknown extensions,
empty / whitespace / binary files, arbitrary byte strings.
"""
from __future__ import annotations

import re

from harness.props import c11_pool

LANGS = ["py", "ts", "js", "rs"]
TOKEN_RE = re.compile(rb"[A-Za-z_][A-Za-z0-9_]*|\d+(?:\.\d+)?|\"[^\"\n]*\"|'[^'\n]*'|\s+|.", re.S)
OPEN, CLOSE = b"([{", b")]}"

CLASSES = ["truncate", "token-delete", "token-dup", "bracket", "encoding", "bom", "eol", "nul", "nesting-blowup",
           "length-blowup", "unknown-ext", "degenerate", "random-bytes"]
WEIGHTS = [10, 12, 10, 12, 10, 4, 8, 5, 12, 6, 6, 4, 6]


def _tokens(b: bytes) -> list[bytes]:
    return TOKEN_RE.findall(b)


def _solid(toks):
    return [i for i, t in enumerate(toks) if not t.isspace()]


# ------------------------------------------------------------------ the classes
def m_truncate(r, lang, b):
    kind = r.choice(["byte", "line", "token", "midchar"])
    if kind == "midchar":
        b = b.replace(b"handling", "h\u00e4ndling \u4e2d\u6587 \U0001f600".encode(), 1)
        pos = [i for i, c in enumerate(b) if c >= 0x80]
        cut = r.choice(pos) + 1 if pos else len(b) // 2
        return kind, b[:cut]
    if kind == "line":
        lines = b.split(b"\n")
        return kind, b"\n".join(lines[: r.randrange(1, len(lines))])
    if kind == "token":
        toks = _tokens(b)
        return kind, b"".join(toks[: r.randrange(1, len(toks))])
    return kind, b[: r.randrange(1, len(b))]


def m_token_delete(r, lang, b):
    toks = _tokens(b)
    n = r.choice([1, 1, 1, 2, 5])
    for _ in range(n):
        s = _solid(toks)
        if not s:
            break
        del toks[r.choice(s)]
    return f"x{n}", b"".join(toks)


def m_token_dup(r, lang, b):
    kind = r.choice(["token", "token", "line", "keyword", "many"])
    toks = _tokens(b)
    s = _solid(toks)
    if kind == "line":
        lines = b.split(b"\n")
        i = r.randrange(len(lines))
        return kind, b"\n".join(lines[: i + 1] + [lines[i]] * r.choice([1, 2]) + lines[i + 1:])
    if kind == "keyword":
        kws = [i for i in s if toks[i] in (b"def", b"class", b"if", b"for", b"while", b"return", b"fn", b"function", b"let", b"const",
                                            b"else", b"try", b"match", b"impl", b"async", b"import", b"export", b"pub")]
        i = r.choice(kws or s)
        toks.insert(i, toks[i] + b" ")
        return kind, b"".join(toks)
    if kind == "many":
        i = r.choice(s)
        toks[i] = toks[i] * r.choice([3, 17, 60])     # 200+ repetitions of a bracket are a nesting blow-up: see m_nesting_blowup
        return kind, b"".join(toks)
    i = r.choice(s)
    toks.insert(i, toks[i])
    return kind, b"".join(toks)


def m_bracket(r, lang, b):
    kind = r.choice(["drop-open", "drop-close", "extra-open", "extra-close", "swap", "quote", "all-close-dropped"])
    idx_open = [i for i, c in enumerate(b) if c in OPEN]
    idx_close = [i for i, c in enumerate(b) if c in CLOSE]
    if kind == "drop-open" and idx_open:
        i = r.choice(idx_open)
        return kind, b[:i] + b[i + 1:]
    if kind == "drop-close" and idx_close:
        i = r.choice(idx_close)
        return kind, b[:i] + b[i + 1:]
    if kind == "extra-open":
        i = r.randrange(len(b))
        return kind, b[:i] + bytes([r.choice(OPEN)]) * r.choice([1, 1, 3]) + b[i:]
    if kind == "extra-close":
        i = r.randrange(len(b))
        return kind, b[:i] + bytes([r.choice(CLOSE)]) * r.choice([1, 1, 3]) + b[i:]
    if kind == "swap" and idx_close:
        i = r.choice(idx_close)
        return kind, b[:i] + bytes([r.choice(CLOSE)]) + b[i + 1:]
    if kind == "quote":
        i = r.randrange(len(b))
        return kind, b[:i] + r.choice([b'"', b"'", b'"""', b"`", b"/*", b"r#\""]) + b[i:]
    return "all-close-dropped", bytes(c for c in b if c not in CLOSE)


def m_encoding(r, lang, b):
    kind = r.choice(["bad-byte", "bad-byte", "lone-continuation", "overlong", "utf16", "utf32", "latin1", "surrogate", "trunc-multibyte",
                     "cp1252-quotes"])
    i = r.randrange(len(b))
    if kind == "bad-byte":
        return kind, b[:i] + bytes([r.choice([0xFF, 0xFE, 0x80, 0xC0, 0xF8])]) + b[i + 1:]
    if kind == "lone-continuation":
        return kind, b[:i] + b"\x80\xbf" + b[i:]
    if kind == "overlong":
        return kind, b[:i] + b"\xc0\xaf" + b[i:]
    if kind == "utf16":
        return kind, b.decode().encode(r.choice(["utf-16", "utf-16-le", "utf-16-be"]))
    if kind == "utf32":
        return kind, b.decode().encode("utf-32")
    if kind == "latin1":
        return kind, b.replace(b"handling", "h\u00e4ndling caf\u00e9".encode("latin-1"), 1)
    if kind == "surrogate":
        return kind, b[:i] + b"\xed\xa0\x80" + b[i:]
    if kind == "trunc-multibyte":
        return kind, b[:i] + "\u4e2d".encode()[:2] + b[i:]
    return kind, b.replace(b'"', b"\x93", 1).replace(b'"', b"\x94", 1)


def m_bom(r, lang, b):
    kind = r.choice(["utf8", "utf8", "utf8-twice", "utf16le-mark-only", "utf8-mid"])
    if kind == "utf8":
        return kind, b"\xef\xbb\xbf" + b
    if kind == "utf8-twice":
        return kind, b"\xef\xbb\xbf\xef\xbb\xbf" + b
    if kind == "utf16le-mark-only":
        return kind, b"\xff\xfe" + b
    i = r.randrange(len(b))
    return kind, b[:i] + b"\xef\xbb\xbf" + b[i:]


def m_eol(r, lang, b):
    kind = r.choice(["crlf", "crlf", "cr", "mixed", "formfeed", "vtab", "u2028", "nel", "no-final-newline", "only-newlines", "cr-in-string"])
    if kind == "crlf":
        return kind, b.replace(b"\n", b"\r\n")
    if kind == "cr":
        return kind, b.replace(b"\n", b"\r")
    if kind == "mixed":
        return kind, b"".join(l + r.choice([b"\n", b"\r\n", b"\r", b"\n\r"]) for l in b.split(b"\n"))
    if kind in ("formfeed", "vtab", "u2028", "nel"):
        ch = {"formfeed": b"\x0c", "vtab": b"\x0b", "u2028": "\u2028".encode(), "nel": "\u0085".encode()}[kind]
        lines = b.split(b"\n")
        for _ in range(r.choice([1, 3])):
            j = r.randrange(len(lines))
            lines[j] = lines[j] + ch if r.random() < 0.5 else ch + lines[j]
        return kind, b"\n".join(lines)
    if kind == "no-final-newline":
        return kind, b.rstrip(b"\n")
    if kind == "only-newlines":
        return kind, r.choice([b"\n", b"\r\n", b"\r"]) * r.choice([1, 7, 300])
    return kind, b.replace(b'"', b'"\r', 1)


def m_nul(r, lang, b):
    kind = r.choice(["one", "many", "start", "end", "in-string", "only"])
    i = r.randrange(len(b))
    if kind == "one":
        return kind, b[:i] + b"\x00" + b[i:]
    if kind == "many":
        return kind, b[:i] + b"\x00" * r.choice([2, 64, 4096]) + b[i:]
    if kind == "start":
        return kind, b"\x00" + b
    if kind == "end":
        return kind, b + b"\x00"
    if kind == "in-string":
        return kind, b.replace(b'"', b'"\x00', 1)
    return kind, b"\x00" * r.choice([1, 100])


BLOWUP = {
    "py": ["paren", "list", "binop", "not", "attr", "call", "subscript", "elif", "if-block", "lambda", "def", "strcat", "compare", "dict",
           "ternary", "fstring", "await"],
    "ts": ["paren", "array", "binop", "not", "attr", "call", "elseif", "block", "arrow", "object", "ternary", "generic", "template"],
    "js": ["paren", "array", "binop", "not", "attr", "call", "elseif", "block", "arrow", "object", "ternary"],
    "rs": ["paren", "array", "binop", "not", "attr", "call", "elseif", "block", "closure", "generic", "ref", "match", "macro", "try"],
}


def blowup_text(lang: str, kind: str, n: int) -> bytes:
    """one construct repeated / nested n times, embedded in a small valid program"""
    if lang == "py":
        d = {
            "paren": "x = " + "(" * n + "1" + ")" * n,
            "list": "x = " + "[" * n + "]" * n,
            "binop": "x = " + " + ".join(["1"] * n),
            "not": "x = " + "not " * n + "y",
            "attr": "x = a" + ".b" * n,
            "call": "x = f" + "()" * n,
            "subscript": "x = a" + "[0]" * n,
            "elif": "def f(x):\n    if x == 0:\n        return 0\n" + "".join(f"    elif x == {i}:\n        return {i}\n" for i in range(1, n)),
            "if-block": "def f(x):\n" + "".join(" " * (i + 1) + "if x:\n" for i in range(n)) + " " * (n + 1) + "return 4242\n",
            "lambda": "x = " + "lambda: " * n + "1",
            "def": "".join(" " * i + f"def f{i}():\n" for i in range(n)) + " " * n + "return 4242\n",
            "strcat": "x = " + " ".join(['"a"'] * n),
            "compare": "x = " + " < ".join(["a"] * n),
            "dict": "x = " + "{1: " * n + "2" + "}" * n,
            "ternary": "x = " + "1 if a else " * n + "0",
            "fstring": "x = " + 'f"{' * min(n, 50) + "1" + '}"' * min(n, 50),
            "await": "async def f():\n    return " + "await " * n + "g()",
        }
        return (d[kind] + "\n").encode()
    if lang in ("ts", "js"):
        d = {
            "paren": "const x = " + "(" * n + "1" + ")" * n + ";",
            "array": "const x = " + "[" * n + "]" * n + ";",
            "binop": "const x = " + " + ".join(["1"] * n) + ";",
            "not": "const x = " + "!" * n + "y;",
            "attr": "const x = a" + ".b" * n + ";",
            "call": "const x = f" + "()" * n + ";",
            "elseif": "function f(x) {\n  if (x === 0) { return 0; }\n" + "".join(f"  else if (x === {i}) {{ return {i}; }}\n" for i in range(1, n)) + "}",
            "block": "function f(x) {\n" + "if (x) {\n" * n + "return 4242;\n" + "}\n" * n + "}",
            "arrow": "const x = " + "() => " * n + "1;",
            "object": "const x = " + "{a: " * n + "1" + "}" * n + ";",
            "ternary": "const x = " + "a ? 1 : " * n + "0;",
            "generic": "let x: " + "Array<" * n + "number" + ">" * n + ";",
            "template": "const x = " + "`${" * n + "1" + "}`" * n + ";",
        }
        return (d[kind] + "\n").encode()
    d = {
        "paren": "fn f() -> u32 { " + "(" * n + "1" + ")" * n + " }",
        "array": "fn f() { let x = " + "[" * n + "]" * n + "; }",
        "binop": "fn f() -> u32 { " + " + ".join(["1"] * n) + " }",
        "not": "fn f(y: bool) -> bool { " + "!" * n + "y }",
        "attr": "fn f() { let x = a" + ".b" * n + "; }",
        "call": "fn f() { let x = a" + ".b()" * n + "; }",
        "elseif": "fn f(x: u32) -> u32 {\n  if x == 0 { return 0; }\n" + "".join(f"  else if x == {i} {{ return {i}; }}\n" for i in range(1, n)) + "  0\n}",
        "block": "fn f(x: bool) -> u32 {\n" + "if x {\n" * n + "return 4242;\n" + "}\n" * n + "0 }",
        "closure": "fn f() { let x = " + "|| " * n + "1; }",
        "generic": "fn f(x: " + "Vec<" * n + "u8" + ">" * n + ") {}",
        "ref": "fn f(x: " + "&" * n + "u8) {}",
        "match": "fn f(x: u32) -> u32 {\n" + "match x { 0 => 1, _ => \n" * n + "2\n" + "}\n" * n + "}",
        "macro": "fn f() { " + "vec![" * n + "]" * n + "; }",
        "try": "fn f() -> Option<u32> { Some(a" + "?" * n + ") }",
    }
    return (d[kind] + "\n").encode()


def m_nesting_blowup(r, lang, b):
    if r.random() < 0.12:
        # one token of the donor repeated a few hundred times (an opening bracket, `not`, `-`, a keyword ...)
        toks = _tokens(b)
        i = r.choice(_solid(toks))
        n = r.choice([200, 1100])
        toks[i] = toks[i] * n
        return f"dup-token:{n}", b"".join(toks)
    kind = r.choice(BLOWUP[lang])
    n = r.choice([60, 150, 400, 1100, 1100, 3000])
    if kind in ("if-block", "def") and lang == "py":
        n = min(n, r.choice([60, 99, 150]))     # the tokenizer refuses more than 100 indentation levels
    if kind in ("elif", "elseif"):
        n = min(n, 1100)                         # a long else-if chain is already quadratic in some analyzers
    if not BIG and kind in ("elif", "elseif", "block", "match", "object") and n in (400, 1100):
        n = 150 if n == 400 else n               # 400 nested blocks + duplicate-code cost 15-40 CPU s each: thorough tier only
    body = blowup_text(lang, kind, n)
    where = r.choice(["alone", "appended", "prepended"])
    if where == "appended":
        body = b + b"\n" + body
    elif where == "prepended" and not (lang == "py" and kind in ("await",)):
        body = body + b"\n" + b
    return f"{kind}:{n}:{where}", body


BIG = False   # thorough tier: sizes at which the superlinear analyzers take minutes


def m_length_blowup(r, lang, b):
    kind = r.choice(["long-string", "long-ident", "long-comment", "long-number", "hex-number", "many-lines", "many-args", "long-line-tokens",
                     "many-distinct-lines"])
    n = r.choice([5000, 40000, 300000])
    if kind == "long-line-tokens":
        n = r.choice([5000, 40000, 80000] if BIG else [5000, 20000, 40000])
    cm = b"# " if lang == "py" else b"// "
    asg = {"py": b"x = %s\n", "ts": b"const x = %s;\n", "js": b"const x = %s;\n", "rs": b"fn f() { let x = %s; }\n"}[lang]
    if kind == "long-string":
        return f"{kind}:{n}", b + asg % (b'"' + b"a" * n + b'"')
    if kind == "long-ident":
        return f"{kind}:{n}", b + asg % (b"a" * n)
    if kind == "long-comment":
        return f"{kind}:{n}", b + cm + b"word " * (n // 5) + b"\n"
    if kind == "long-number":
        n = r.choice([100, 4299, 4301, 20000])
        return f"{kind}:{n}", b + asg % (b"9" * n)
    if kind == "hex-number":
        n = r.choice([100, 3570, 3572, 20000])
        return f"{kind}:{n}", b + asg % (b"0x" + b"F" * n)
    if kind == "many-lines":
        n = r.choice([300, 600, 1000] if BIG else [200, 400, 600])   # kept small: the duplicate-code rule is cubic in the line count (2500 lines: > 150 CPU s)
        return f"{kind}:{n}", b + (asg % b"1") * n
    if kind == "many-distinct-lines":
        n = r.choice([2000, 20000])
        return f"{kind}:{n}", b + b"".join(cm + b"line %d\n" % i for i in range(n))
    if kind == "many-args":
        n = r.choice([300, 3000])
        return f"{kind}:{n}", b + asg % (b"f(" + b", ".join(b"a%d" % i for i in range(n)) + b")")
    return f"{kind}:{n}", b + asg % (b"[" + b", ".join([b"7"] * (n // 3)) + b"]")


UNKNOWN_NAMES = ["case.xyz", "case.txt", "case", "case.PY", "case.Py", "case.py.bak", "case.java", "case.go", ".case", "case.", "case.tsx",
                 "case.jsx", "case.RS", "case.d.ts", "case.py ", "case..py", "case.md", "case.json", "case.yaml", "Makefile", "case.c"]


def m_unknown_ext(r, lang, b):
    name = r.choice(UNKNOWN_NAMES)
    kind = r.choice(["as-is", "shebang-python", "shebang-sh", "shebang-bad-utf8", "shebang-cr", "shebang-degenerate", "shebang-degenerate"])
    if kind == "shebang-degenerate":
        name = r.choice(["case", "tool", "run-me", "Makefile", "case.", ".case"])
        first = r.choice(SHEBANG_LINES)
        return f"{name}:{kind}:{first[:12]!r}", first + (b if r.random() < 0.5 else b""), name
    if kind == "shebang-python":
        b = b"#!/usr/bin/env python3\n" + b
    elif kind == "shebang-sh":
        b = b"#!/bin/sh\n" + b
    elif kind == "shebang-bad-utf8":
        b = b"#!/usr/bin/python\n\xff\xfe" + b
    elif kind == "shebang-cr":
        b = b"#!/bin/sh\rpython\n" + b
    return f"{name}:{kind}", b, name


def m_degenerate(r, lang, b):
    kind = r.choice(["empty", "space", "tabs", "newline", "one-char", "comment-only", "elf", "png", "all-bytes", "zip"])
    d = {
        "empty": b"", "space": b" " * r.choice([1, 80]), "tabs": b"\t\t\n \t \n", "newline": b"\n",
        "one-char": bytes([r.choice(b"({[\"'\\#/*`@$x0")]), "comment-only": (b"# c\n" if lang == "py" else b"// c\n"),
        "elf": b"\x7fELF\x02\x01\x01\x00" + bytes(r.randrange(256) for _ in range(200)),
        "png": b"\x89PNG\r\n\x1a\n" + bytes(r.randrange(256) for _ in range(200)),
        "all-bytes": bytes(range(256)), "zip": b"PK\x03\x04" + bytes(r.randrange(256) for _ in range(120)),
    }
    return kind, d[kind]


def m_random_bytes(r, lang, b):
    kind = r.choice(["uniform", "ascii-punct", "spliced", "shuffled-lines", "reversed", "token-soup"])
    if kind == "uniform":
        return kind, bytes(r.randrange(256) for _ in range(r.choice([3, 40, 700])))
    if kind == "ascii-punct":
        return kind, bytes(r.choice(b"(){}[]<>;:,.'\"`\\/*#@!?=+-&|^%~ \n\t") for _ in range(r.choice([10, 200, 2000])))
    if kind == "spliced":
        other = c11_pool.donor(r.choice(LANGS), r.randrange(12)).encode()
        i, j = r.randrange(len(b)), r.randrange(len(other))
        return kind, b[:i] + other[j:]
    if kind == "shuffled-lines":
        lines = b.split(b"\n")
        r.shuffle(lines)
        return kind, b"\n".join(lines)
    if kind == "reversed":
        return kind, b[::-1]
    toks = [t for t in _tokens(b) if not t.isspace()]
    return kind, b" ".join(r.choice(toks) for _ in range(r.choice([20, 400])))


MUTATORS = {"truncate": m_truncate, "token-delete": m_token_delete, "token-dup": m_token_dup, "bracket": m_bracket, "encoding": m_encoding,
            "bom": m_bom, "eol": m_eol, "nul": m_nul, "nesting-blowup": m_nesting_blowup, "length-blowup": m_length_blowup,
            "unknown-ext": m_unknown_ext, "degenerate": m_degenerate, "random-bytes": m_random_bytes}


def offender(r, cls: str | None = None, lang: str | None = None):
    """-> dict(cls, kind, lang, name, data)"""
    cls = cls or r.choices(CLASSES, WEIGHTS)[0]
    lang = lang or r.choice(LANGS)
    donor = c11_pool.donor(lang, r.randrange(12)).encode()
    res = MUTATORS[cls](r, lang, donor)
    name = "case" + c11_pool.EXT[lang]
    if len(res) == 3:
        kind, data, name = res
    else:
        kind, data = res
    # a second, light mutation on top in a quarter of the cases (fault sequences)
    if cls not in ("nesting-blowup", "length-blowup", "degenerate", "unknown-ext") and len(data) > 4 and r.random() < 0.25:
        cls2 = r.choice(["truncate", "bracket", "nul", "eol", "bom", "encoding"])
        try:
            k2, data2 = MUTATORS[cls2](r, lang, data)[:2]
            kind, data = f"{kind}+{cls2}:{k2}", data2
        except (UnicodeDecodeError, ValueError, IndexError):
            pass
    return {"cls": cls, "kind": kind, "lang": lang, "name": name, "data": data}


# ====================================================================== token-level mutations inside constructs
PATH_RE = re.compile(rb"[A-Za-z_][A-Za-z0-9_]*(?:(?:::|\.)[A-Za-z_][A-Za-z0-9_]*)+")
ARGS_RE = re.compile(rb"(?<=[A-Za-z0-9_!>\]])\(([^()\n]+)\)")
NUM_RE = re.compile(rb"(?<![A-Za-z0-9_.])(?:0[xXbBoO][0-9A-Fa-f_]+|[0-9][0-9_]*(?:\.[0-9][0-9_]*)?(?:[eE][+-]?[0-9]+)?)(?:_?[a-z][a-z0-9]*)?(?![A-Za-z0-9_])")
OP_RE = re.compile(rb"==|!=|<=|>=|&&|\|\||->|=>|\+=|-=|\*=|::|\.\.|<<|>>|[-+*/%<>=!&|^~?:;,.]")
OPS = [b"==", b"!=", b"<=", b">=", b"<", b">", b"+", b"-", b"*", b"/", b"%", b"&&", b"||", b"=", b"+=", b"->", b"=>", b".", b",", b":", b";",
       b"?", b"&", b"|", b"!", b"::", b"..", b"**", b"//", b"<<", b" and ", b" or ", b" not ", b" in ", b" is ", b" as "]

PATH_VARIANTS = ["drop-last", "drop-first", "drop-middle", "dup-last", "swap-last-two", "keep-first", "dup-sep"]
ARG_VARIANTS = ["drop-first", "drop-last", "dup-first", "swap", "empty", "trailing-comma", "only-commas"]
OP_VARIANTS = ["delete", "dup", "replace"]


def _path_variant(m: bytes, v: str) -> bytes:
    sep = b"::" if b"::" in m else b"."
    parts = m.split(sep)
    if v == "drop-last":
        parts = parts[:-1]
    elif v == "drop-first":
        parts = parts[1:]
    elif v == "drop-middle" and len(parts) > 2:
        parts = parts[:1] + parts[2:]
    elif v == "dup-last":
        parts = parts + parts[-1:]
    elif v == "swap-last-two":
        parts = parts[:-2] + [parts[-1], parts[-2]]
    elif v == "keep-first":
        parts = parts[:1]
    elif v == "dup-sep":
        return (sep + sep).join(parts)
    else:
        parts = parts[:-1]
    return sep.join(parts)


def _arg_variant(inner: bytes, v: str) -> bytes:
    args = [a for a in inner.split(b",")]
    if v == "drop-first":
        args = args[1:]
    elif v == "drop-last":
        args = args[:-1]
    elif v == "dup-first":
        args = args[:1] + args
    elif v == "swap" and len(args) > 1:
        args = [args[-1]] + args[1:-1] + [args[0]]
    elif v == "empty":
        args = []
    elif v == "trailing-comma":
        args = args + [b""]
    elif v == "only-commas":
        args = [b""] * (len(args) + 1)
    return b",".join(args)


def _sub_sites(r, regex, b: bytes, fn, mode: str):
    """apply fn(match bytes) at one random site (mode single) or at every site (mode all)"""
    ms = list(regex.finditer(b))
    if not ms:
        return None
    chosen = ms if mode == "all" else [r.choice(ms)]
    out, last = [], 0
    for m in chosen:
        out.append(b[last:m.start()])
        out.append(fn(m))
        last = m.end()
    out.append(b[last:])
    return b"".join(out)


def m_path_segment(r, lang, b, variant=None, mode=None):
    variant = variant or r.choice(PATH_VARIANTS)
    mode = mode or r.choice(["single", "all", "all"])
    res = _sub_sites(r, PATH_RE, b, lambda m: _path_variant(m.group(0), variant), mode)
    if res is None:
        res = b + {"py": b"\nx = a.b.c(1)\n", "rs": b"\nfn zz() { a::b::c(1); }\n"}.get(lang, b"\nconst zz = a.b.c(1);\n")
        res = _sub_sites(r, PATH_RE, res, lambda m: _path_variant(m.group(0), variant), mode)
    return f"{variant}:{mode}", res


def m_call_arg(r, lang, b, variant=None, mode=None):
    variant = variant or r.choice(ARG_VARIANTS)
    mode = mode or r.choice(["single", "all"])
    res = _sub_sites(r, ARGS_RE, b, lambda m: b"(" + _arg_variant(m.group(1), variant) + b")", mode)
    if res is None:
        res = b + b"\nf(1, 2)\n"
    return f"{variant}:{mode}", res


def m_operator(r, lang, b, variant=None, mode=None):
    variant = variant or r.choice(OP_VARIANTS)
    mode = mode or "single"

    def fn(m):
        if variant == "delete":
            return b""
        if variant == "dup":
            return m.group(0) * 2
        return r.choice(OPS)
    if mode == "all":   # every 7th operator, otherwise nothing is left of the file
        ms = list(OP_RE.finditer(b))
        k = r.randrange(7)
        out, last = [], 0
        for i, m in enumerate(ms):
            if i % 7 != k:
                continue
            out += [b[last:m.start()], fn(m)]
            last = m.end()
        out.append(b[last:])
        return f"{variant}:every7th", b"".join(out)
    res = _sub_sites(r, OP_RE, b, fn, "single")
    return f"{variant}:single", res if res is not None else b + b" = = \n"


NUM_VARIANTS = [b"0755", b"07", b"00", b"01", b"08", b"09", b"0_7", b"007e1", b"0x", b"0X", b"0b", b"0o", b"0b2", b"0o8", b"0xG", b"0x_", b"0x_1",
                b"1__0", b"1_", b"1_000_", b"1e", b"1e+", b"1e-", b"1E", b"1e999", b"1e-999", b"1e1_0", b"1.", b"1.e5", b"1._5", b"1.5.2", b"0.0.0",
                b"1n", b"0n", b"1.5n", b"0x1Fn", b"1_n", b"00n", b"1u", b"1u99", b"1_u32", b"1usize", b"1f32", b"1.0f", b"1.0e10f64", b"0x1f32", b"0b1u8",
                b"1i", b"1isize", b"u32", b"f64", b"1j", b"1J", b"1.5j", b"0xFFFFFFFFFFFFFFFFFFFFFFFFFFFFFFFF", b"0b" + b"1" * 300, b"0o" + b"7" * 300,
                b"9" * 400, b"9" * 5000, b"0x" + b"F" * 3000, b"0." + b"3" * 400, b"1e" + b"9" * 40, b"1" + b"_0" * 200, b"0" * 50, b"0" * 50 + b"1",
                b"1_000_000", b"0_0", b"0xdead_beef", b"0XFF", b"0B1", b"0O7", b"1E5", b"1e05", b"0e0", b"-0", b"+1", b"--1", b"1 .5", b".5", b"5.",
                "١٢٣".encode(), "１２".encode(), "1²".encode(), b"1'000", b"1,5", b"0x1p3", b"0x1.8p1", b"1e5L", b"1L", b"1l",
                b"0777L", b"1.0d", b"NaN", b"Infinity", b"inf", b"1e400", b"4.9e-324", b"1.7976931348623157e308", b"18446744073709551616",
                b"340282366920938463463374607431768211456u128", b"-9223372036854775809"]


def m_numeric_literal(r, lang, b, mode=None, variants=None):
    mode = mode or r.choice(["single", "all"])
    pool = variants or NUM_VARIANTS
    used = []

    def fn(_m):
        v = r.choice(pool)
        used.append(v[:12].decode("latin-1"))
        return v
    res = _sub_sites(r, NUM_RE, b, fn, mode)
    if res is None:
        v = r.choice(pool)
        used.append(v[:12].decode("latin-1"))
        res = b + {"py": b"\nzz = %s\n", "rs": b"\nfn zz() { let z = %s; }\n"}.get(lang, b"\nconst zz = %s;\n") % v
    return f"{mode}:{'|'.join(used[:4])}", res


def numeric_sweep(lang: str, per_file: int = 10) -> list[bytes]:
    """every spelling once, one statement per literal, a few literals per file so that one failing literal cannot hide the
    others (deterministic part of every run; the > 3570-digit hexadecimal literal of the listed finding lives in corpus/C11)"""
    out = []
    for s0 in range(0, len(NUM_VARIANTS), per_file):
        vs = list(enumerate(NUM_VARIANTS))[s0:s0 + per_file]
        if lang == "py":
            out.append(b'"""\nPurpose: numeric spellings\n"""\n' + b"".join(b"a%d = %s\n" % (i, v) for i, v in vs))
        elif lang == "rs":
            out.append(b"fn spellings() {\n" + b"".join(b"    let a%d = %s;\n" % (i, v) for i, v in vs) + b"}\n")
        else:
            out.append(b"function spellings() {\n" + b"".join(b"  const a%d = %s;\n" % (i, v) for i, v in vs) + b"}\n")
    return out


# ====================================================================== comment / directive payloads
HASH_FORMS = ["# noqa", "# noqa: {P}", "# noqa:{P}", "#noqa: {P}", "# NOQA: {P}", "# flake8: noqa: {P}", "# type: ignore", "# type: ignore[{P}]",
              "# pylint: disable={P}", "# pylint: disable-next={P}", "# nosec", "# nosec {P}", "# pyright: ignore[{P}]", "# mypy: {P}",
              "# thailint: ignore", "# thailint: ignore[{P}]", "# thailint: ignore-file[{P}]", "# thailint: ignore-next-line[{P}]",
              "# thailint: ignore-start[{P}]", "# thailint: ignore-end {P}", "# thailint: ignore {P}", "# dry: ignore-block {P}", "# dry: ignore-next {P}",
              "# pragma: no cover {P}", "# fmt: {P}", "# isort:{P}", "# TODO({P}): {P}", "# -*- coding: {P} -*-", "# {P}", "#!{P}",
              "# Purpose: {P}", "# Scope: {P}", "# Suppressions:\n#     {P}: {P}", "@pytest.mark.skip(reason=\"{P}\")  # {P}"]
SLASH_FORMS = ["// eslint-disable {P}", "// eslint-disable-next-line {P}", "// eslint-disable-line {P}", "/* eslint-disable {P} */", "// @ts-ignore {P}",
               "// @ts-ignore", "// @ts-expect-error {P}", "// @ts-nocheck {P}", "// tslint:disable {P}", "// tslint:disable-next-line:{P}", "// prettier-ignore {P}",
               "// thailint: ignore", "// thailint: ignore[{P}]", "// thailint: ignore-file[{P}]", "// thailint: ignore-next-line[{P}]",
               "// thailint: ignore-start[{P}]", "// thailint: ignore-end {P}", "// dry: ignore-block {P}", "// noqa: {P}", "// nosec {P}", "// {P}", "/* {P} */",
               "/** {P} */", "/**\n * Purpose: {P}\n * Scope: {P}\n */", "/**\n * @param {{{P}}} x {P}\n * @returns {{{P}}}\n */", "/**\n * Suppressions:\n *   {P}: {P}\n */",
               "// TODO({P}): {P}", "//! {P}", "/// {P}", "#[allow({P})]", "#![allow({P})]", "#[cfg({P})]", "// clippy::{P}", "#[ignore = \"{P}\"]",
               "it.skip(\"{P}\", () => {{}}); // {P}"]
DOC_FORMS_PY = ['"""\nPurpose: {P}\n\nScope: {P}\n\nSuppressions:\n    {P}: {P}\n"""', "'''\n{P}\n'''", '"""{P}"""']
CODES = ["E501", "W291", "S101", "B008", "no-console", "magic-numbers", "nesting", "dry", "unused_variables", "arg-type", "C0114", "TS2345"]


def payload(r, shape=None, n=None, prefix=None, term=None) -> str:
    shape = shape or r.choice(["alnum", "alnum", "upper", "lower-dash", "spaces", "commas", "comma-space", "dashes", "colons", "open-brackets",
                               "bracket-pairs", "nested-brackets", "mixed-code-sep", "mixed-word-space", "mixed-punct", "dots", "slashes", "quotes", "backslashes",
                               "unicode", "tabs"])
    n = n or r.choice([16, 24, 40, 64, 256, 1024, 4096])
    runs = {
        "alnum": lambda: "".join(r.choice("ABCDEFGHJKLMNPQRSTUVWXYZ0123456789") for _ in range(n)),
        "upper": lambda: "A" * n, "lower-dash": lambda: ("a-" * n)[:n], "spaces": lambda: " " * n, "commas": lambda: "," * n,
        "comma-space": lambda: (", " * n)[:n], "dashes": lambda: "-" * n, "colons": lambda: ":" * n, "open-brackets": lambda: "[" * min(n, 60),
        "bracket-pairs": lambda: ("[]" * n)[:n], "nested-brackets": lambda: "[" * min(n // 2, 60) + "x" + "]" * min(n // 2, 60),   # deeper nesting belongs to the nesting-blowup class
        "mixed-code-sep": lambda: ("E1," * n)[:n], "mixed-word-space": lambda: ("ab " * n)[:n], "mixed-punct": lambda: ("A-b_1. " * n)[:n],
        "dots": lambda: "." * n, "slashes": lambda: "/" * n, "quotes": lambda: ("\"'" * n)[:n], "backslashes": lambda: "\\" * n,
        "unicode": lambda: ("é中\U0001f600 " * n)[:n], "tabs": lambda: "\t" * n,
    }
    prefix = prefix if prefix is not None else r.choice(["", "", "E501 ", "E501,", "E501, W291 ", "no-console ", "magic-numbers,", "["])
    term = term if term is not None else r.choice(["", "", ": text", "!", "]", " - reason", ")", " #", "\t", " \\"])
    return prefix + runs[shape]() + term


def forms_for(lang: str):
    return HASH_FORMS + DOC_FORMS_PY if lang == "py" else SLASH_FORMS


def _fill(r, form: str, **kw) -> str:
    out = form
    while "{P}" in out:
        out = out.replace("{P}", payload(r, **kw), 1)
    return out.replace("{{", "{").replace("}}", "}")


def m_comment_payload(r, lang, b, form=None):
    """a few directive / header / doc comments with adversarial payloads placed into the donor"""
    forms = forms_for(lang)
    lines = b.split(b"\n")
    kinds = []
    for _ in range(r.choice([1, 2, 4])):
        f = form or r.choice(forms)
        text = _fill(r, f).encode("utf-8", "replace")
        kinds.append(f.split("{")[0].strip()[:24])
        where = r.choice(["top", "own-line", "trailing", "end"])
        if where == "top" or not lines:
            lines.insert(0, text)
        elif where == "end":
            lines.append(text)
        else:
            j = r.randrange(len(lines))
            if where == "trailing" and b"\n" not in text and lines[j].strip():
                lines[j] = lines[j] + b"  " + text
            else:
                indent = lines[j][: len(lines[j]) - len(lines[j].lstrip())]
                lines.insert(j, indent + text.replace(b"\n", b"\n" + indent))
    return "|".join(kinds), b"\n".join(lines)


SWEEP_PREFIX = ["", "E501 ", "E501,"]
SWEEP_RUNS = [("alnum", 16), ("alnum", 40), ("alnum", 256), ("alnum", 4096), ("upper", 64), ("comma-space", 80), ("spaces", 200), ("commas", 200),
              ("open-brackets", 40), ("bracket-pairs", 80), ("nested-brackets", 80), ("mixed-code-sep", 120), ("mixed-word-space", 120), ("mixed-punct", 140),
              ("lower-dash", 80), ("colons", 64)]
SWEEP_TERM = ["", ": text", "!", "]"]


def comment_sweep(lang: str, form: str, seed_rng) -> bytes:
    """one directive form x every payload shape (deterministic part of every run): one comment per line after a code line"""
    code = {"py": "value = compute(1)", "rs": "fn run() { let value = compute(1); }"}.get(lang, "const value = compute(1);")
    out = [code]
    k = 0
    for shape, n in SWEEP_RUNS:
        for pre in SWEEP_PREFIX:
            for term in SWEEP_TERM:
                k += 1
                text = _fill(seed_rng, form, shape=shape, n=n, prefix=pre, term=term)
                if "\n" in text or form in DOC_FORMS_PY or text.startswith(("@", "it.", "#[", "#![")):
                    out.append(text)
                else:
                    out.append(code + "  " + text if k % 2 else text)
    return ("\n".join(out) + "\n").encode("utf-8", "replace")


MUTATORS.update({"path-segment": m_path_segment, "call-arg": m_call_arg, "operator": m_operator, "numeric-literal": m_numeric_literal,
                 "comment-payload": m_comment_payload})
TOKEN_CLASSES = ["path-segment", "call-arg", "operator", "numeric-literal", "comment-payload"]
CLASSES += TOKEN_CLASSES
WEIGHTS += [9, 7, 6, 9, 9]
GRID_CLASSES = ["truncate", "token-delete", "token-dup", "bracket", "encoding", "bom", "eol", "nul", "random-bytes"] + TOKEN_CLASSES


def offender_from(r, cls: str, lang: str, donor: bytes, **kw):
    """like offender(), but from a given donor text"""
    res = MUTATORS[cls](r, lang, donor, **kw) if kw else MUTATORS[cls](r, lang, donor)
    kind, data = res[0], res[1]
    name = res[2] if len(res) == 3 else "case" + c11_pool.EXT[lang]
    return {"cls": cls, "kind": kind, "lang": lang, "name": name, "data": data}


# ====================================================================== files that END INSIDE a multi-line construct
# (what truncation / a missing closing token leaves behind).  Placed directly before healthy files with cross-file findings they
# show whether any analyzer state survives from one file to the next.
def open_constructs(lang: str) -> list[tuple[str, bytes]]:
    if lang == "py":
        return [
            ("paren-import", b"import os\nfrom collections import (\n    OrderedDict,\n    defaultdict,\n"),
            ("paren-import-bare", b"from typing import (\n"),
            ("triple-string", b'text = """\nfirst line\nsecond line\n'),
            ("docstring", b'"""\nPurpose: cut off\n\nScope: x\n'),
            ("single-string", b"text = 'abc\n"),
            ("bracket-list", b"items = [\n    1,\n    2,\n"),
            ("call-args", b"result = compute(\n    alpha,\n    beta,\n"),
            ("dict", b"table = {\n    'a': 1,\n"),
            ("backslash", b"value = 1 + \\\n"),
            ("def-header", b"def handler(request):\n"),
            ("decorator", b"@decorator\n"),
            ("ignore-start", b"# thailint: ignore-start\nvalue = 4242\n"),
            ("dry-ignore-block", b"# dry: ignore-block\nvalue = 4242\n"),
            ("fstring", b"text = f\"{value\n"),
        ]
    if lang in ("ts", "js"):
        return [
            ("import-braces", b"import {\n  alpha,\n  beta,\n"),
            ("block-comment", b"/* comment\nmore\n"),
            ("jsdoc", b"/**\n * Purpose: cut off\n * Scope: x\n"),
            ("template-literal", b"const text = `abc\n${value\n"),
            ("string", b"const text = 'abc\n"),
            ("array", b"const items = [\n  1,\n  2,\n"),
            ("call-args", b"const result = compute(\n  alpha,\n  beta,\n"),
            ("object", b"const table = {\n  a: 1,\n"),
            ("function-body", b"function handler(request) {\n  const x = 4242;\n"),
            ("class-body", b"class Handler {\n  run() {\n"),
            ("ignore-start", b"// thailint: ignore-start\nconst value = 4242;\n"),
            ("dry-ignore-block", b"// dry: ignore-block\nconst value = 4242;\n"),
            ("regex", b"const re = /abc[\n"),
        ]
    return [
        ("use-braces", b"use std::{\n    fs,\n    io,\n"),
        ("block-comment", b"/* comment\nmore\n"),
        ("raw-string", b"fn f() { let s = r#\"abc\n"),
        ("string", b"fn f() { let s = \"abc\n"),
        ("fn-body", b"async fn handler() {\n    let x = 4242;\n"),
        ("impl-body", b"impl Handler {\n    fn run(&self) {\n"),
        ("macro", b"fn f() { let v = vec![\n    1,\n"),
        ("attribute", b"#[cfg(\n"),
        ("match", b"fn f(x: u32) -> u32 {\n    match x {\n        0 => 1,\n"),
        ("ignore-start", b"// thailint: ignore-start\nconst V: u32 = 4242;\n"),
    ]


SHEBANG_LINES = [b"#!", b"#!\n", b"#! ", b"#!  \t\n", b"#! x\n", b"#!x", b"#!\x00python\n", b"#!" + b"a" * 5000 + b"\n", b"#!/usr/bin/env", b"#!/usr/bin/env \n",
                 b"#! /usr/bin/python -u\n", b"#!\r\n", b"#!\xff\n", b"#!#!\n", b"#!\n#!python\n", b"#!\t\n", b"#!/usr/bin/env  python3   -u  \n", b"#!" + b" " * 3000]


def shebang_sweep() -> list[dict]:
    """extension-less files whose first line is a degenerate shebang (deterministic part of every run)"""
    out = []
    for i, first in enumerate(SHEBANG_LINES):
        name = ["case", "tool", "run-me"][i % 3]
        body = b"" if i % 2 else b"value = 4242\nprint(value)\n"
        out.append({"cls": "unknown-ext", "kind": f"shebang-sweep:{first[:14]!r}", "lang": "py", "name": name, "data": first + body})
    return out
