"""C13 — the meaning-preserving edits, as text transformations with their line / column shift.

A file state is (lines, final_newline, crlf, bom); an edit maps a state to a state and updates
  pos[i]   current 0-based index of ORIGINAL line i        (violation line v -> pos[v-1] + 1)
  ind[i]   (old_indent_len, new_indent_len) of original line i (columns move by the difference on re-indent)
Edits are applied only at positions where they cannot change the program: never inside a multi-line token
(string literal, template literal, block comment), never after a backslash continuation, never between a
next-line suppression directive and the line it governs.  Those positions come from the language's own
tokenizer (CPython `tokenize`, tree-sitter), which is an oracle here: the edited file is re-parsed and the
statement-level shape is compared with the original (`same_program`) before a case is used.
"""
from __future__ import annotations

import ast
import io
import re
import tokenize

BOM = "\ufeff"
EDIT_KINDS = ["insert_blank", "insert_comment", "trailing_ws", "trailing_ff", "reindent", "to_crlf", "to_lf", "add_bom", "drop_bom",
              "append_code", "rename_locals"]
COMMENT = {"py": "#", "ts": "//", "js": "//", "rs": "//"}
WS_PLAIN = [" ", "  ", "\t", " \t ", "    "]
WS_EXOTIC = ["\x0c", " \x0c"]          # form feed: white space for CPython, tree-sitter and str.isspace
NOTE_WORDS = ["tv note", "reviewed", "see the design document", "TODO later", "step", "keep in sync", "x = 1", "value: 42",
              "if done: stop", "end of section"]
HEADER_SENSITIVE = ("file-header", "lazy-ignores")

_ts_parsers = {}


def _ts_parser(lang):
    if lang not in _ts_parsers:
        from tree_sitter import Language, Parser
        if lang == "rs":
            import tree_sitter_rust as m
            _ts_parsers[lang] = Parser(Language(m.language()))
        else:
            import tree_sitter_typescript as m
            _ts_parsers[lang] = Parser(Language(m.language_typescript()))
    return _ts_parsers[lang]


MULTI_TYPES = {"template_string", "string", "comment", "block_comment", "string_literal", "raw_string_literal", "regex",
               "jsx_text", "string_fragment", "template_literal_type"}


def _ts_multiline_spans(lang, text):
    """(start_row, end_row) 0-based of every multi-line token-like node; None when the text does not parse cleanly"""
    tree = _ts_parser(lang).parse(text.encode("utf-8"))
    root = tree.root_node
    spans, bad = [], False
    stack = [root]
    while stack:
        n = stack.pop()
        if n.type == "ERROR" or n.is_missing:
            bad = True
        if n.type in MULTI_TYPES and n.end_point[0] > n.start_point[0]:
            spans.append((n.start_point[0], n.end_point[0]))
            continue
        stack.extend(n.children)
    return spans, bad


def _py_multiline_spans(text):
    spans = []
    fstart = []
    try:
        for tok in tokenize.generate_tokens(io.StringIO(text).readline):
            name = tokenize.tok_name[tok.type]
            if name == "FSTRING_START":
                fstart.append(tok.start[0])
            elif name == "FSTRING_END":
                s = fstart.pop() if fstart else tok.start[0]
                if tok.end[0] > s:
                    spans.append((s - 1, tok.end[0] - 1))
            elif name == "STRING" and tok.end[0] > tok.start[0]:
                spans.append((tok.start[0] - 1, tok.end[0] - 1))
    except (tokenize.TokenError, IndentationError, SyntaxError):
        return spans, True
    return spans, False


class Info:
    """where a file may be edited"""

    def __init__(self, lang: str, text: str):
        self.lang, self.text = lang, text
        self.final_nl = text.endswith("\n")
        body = text[:-1] if self.final_nl else text
        self.lines = body.split("\n") if body or self.final_nl else []
        n = len(self.lines)
        self.n = n
        if lang == "py":
            spans, bad = _py_multiline_spans(text)
            try:
                ast.parse(text)
            except (SyntaxError, ValueError):
                bad = True
        else:
            spans, bad = _ts_multiline_spans(lang, text)
        self.unparsable = bad
        self.no_insert = set()       # 0-based k: no insertion BEFORE line k
        self.no_trail = set()        # 0-based line index: do not append white space
        self.no_reindent = set()
        for s, e in spans:
            for k in range(s + 1, e + 1):
                self.no_insert.add(k)
                self.no_reindent.add(k)
            for k in range(s, e):
                self.no_trail.add(k)
        for i, l in enumerate(self.lines):
            if l.endswith("\\"):
                self.no_trail.add(i)
                self.no_insert.add(i + 1)
            low = l.lower()
            if "ignore-next" in low:
                self.no_insert.add(i + 1)
            if "ignore-block" in low:
                for k in range(i + 1, i + 12):
                    self.no_insert.add(k)
            if any(ch in l for ch in "\x0b\x0c\x1c\x1d\x1e\x85\u2028\u2029\r"):
                self.exotic = True
        self.exotic = getattr(self, "exotic", False)
        self.header_end = self._header_end()

    def _header_end(self) -> int:
        """index of the first line below the file header (shebang, leading comments / blank lines, module docstring,
        leading block comment)"""
        lang, lines = self.lang, self.lines
        i = 0
        if lang == "py":
            end_doc = 0
            try:
                mod = ast.parse(self.text)
                if mod.body and isinstance(mod.body[0], ast.Expr) and isinstance(mod.body[0].value, ast.Constant) \
                        and isinstance(mod.body[0].value.value, str):
                    end_doc = mod.body[0].end_lineno or 0
            except (SyntaxError, ValueError):
                pass
            while i < len(lines) and (i < end_doc or not lines[i].strip() or lines[i].lstrip().startswith("#")):
                i += 1
            return i
        in_block = False
        while i < len(lines):
            s = lines[i].strip()
            if in_block:
                if "*/" in s:
                    in_block = False
                i += 1
                continue
            if not s or s.startswith("//") or s.startswith("#!"):
                i += 1
                continue
            if s.startswith("/*"):
                if "*/" not in s[2:]:
                    in_block = True
                i += 1
                continue
            break
        return i


KIND_OF_OP = {"ins_blank": "insert_blank", "ins_comment": "insert_comment", "trail": "trailing_ws", "trail_ff": "trailing_ff",
              "reindent": "reindent", "crlf": "to_crlf", "lf": "to_lf", "bom": "add_bom", "nobom": "drop_bom",
              "append": "append_code", "rename": "rename_locals"}


def _lead(s: str) -> str:
    return re.match(r"[ \t]*", s).group(0)


class Plan:
    """a set of edits of one file, anchored at ORIGINAL lines, so that every subset of the operations is again a
    plan (used to attribute a failure to an edit kind).  ops:
      ["ins_blank" | "ins_comment", o, text]   a new line before original line o (o = n: after the last line)
      ["trail" | "trail_ff", o, ws]            white space appended to original line o
      ["reindent", mode]                       double | tabs | halve
      ["crlf"] / ["lf"]  ["bom"] / ["nobom"]   line terminators / byte-order mark (relative to the base variant)
      ["append", lines]                        code after the end
      ["rename", mapping, new_lines]           consistent renaming of Python locals (line-preserving)"""

    def __init__(self, info: Info, base_crlf=False, base_bom=False, ops=None):
        self.info = info
        self.base_crlf, self.base_bom = base_crlf, base_bom
        self.ops = list(ops or [])

    def kinds(self):
        return sorted({KIND_OF_OP[o[0]] for o in self.ops})

    def restricted(self, kinds):
        return Plan(self.info, self.base_crlf, self.base_bom, [o for o in self.ops if KIND_OF_OP[o[0]] in kinds])

    # -------------------------------------------------------------- where an edit may go
    def insert_anchors(self, below_header: bool):
        info = self.info
        out = []
        for o in range(info.n + 1):
            if o in info.no_insert:
                continue
            if below_header and o < max(info.header_end, 1):
                continue
            if o > 0 and "ignore-next" in info.lines[o - 1].lower():
                continue
            out.append(o)
        return out

    def trail_lines(self, below_header: bool):
        info = self.info
        return [o for o in range(info.n) if o not in info.no_trail and not (below_header and o < info.header_end)]

    def header_window_ok(self, scan: int = 10) -> bool:
        """no file-level directive leaves the documented header window"""
        _, pos, _ = self.render()
        for o, l in enumerate(self.info.lines[:scan]):
            if "ignore-file" in l.lower() and pos[o] >= scan:
                return False
        return True

    def reindent_map(self, mode: str, below_header: bool):
        """original line -> new leading white space, or None when the mode does not apply to this file"""
        info = self.info
        idx = [o for o in range(info.n) if o not in info.no_reindent and info.lines[o].strip()]
        lead = {o: _lead(info.lines[o]) for o in idx}
        if below_header and any(lead[o] for o in idx if o < info.header_end):
            return None
        if not any(lead.values()):
            return None
        unit = 1
        if mode in ("tabs", "halve"):
            if any("\t" in w for w in lead.values()):
                return None
            lens = [len(w) for w in lead.values()]
            unit = 4 if all(x % 4 == 0 for x in lens) else 2 if all(x % 2 == 0 for x in lens) else 1
            if mode == "halve" and unit == 1:
                return None
        out = {}
        for o, w in lead.items():
            nw = w + w if mode == "double" else "\t" * (len(w) // unit) + " " * (len(w) % unit) if mode == "tabs" else " " * (len(w) // 2)
            if nw != w:
                out[o] = nw
        return out or None

    # -------------------------------------------------------------- rendering
    def final_flags(self):
        crlf, bom = self.base_crlf, self.base_bom
        for o in self.ops:
            if o[0] == "crlf":
                crlf = True
            elif o[0] == "lf":
                crlf = False
            elif o[0] == "bom":
                bom = True
            elif o[0] == "nobom":
                bom = False
        return crlf, bom

    def render(self):
        """(lines of the edited file, pos: original line -> new index, ind: original line -> (old, new) indent length)"""
        info = self.info
        n = info.n
        lines0 = list(info.lines)
        ins, trail, indent, extra = {}, {}, {}, []
        for o in self.ops:
            if o[0] == "rename":
                lines0 = list(o[2])
        for o in self.ops:
            if o[0] in ("ins_blank", "ins_comment"):
                ins.setdefault(o[1], []).append(o[2])
            elif o[0] in ("trail", "trail_ff"):
                trail[o[1]] = trail.get(o[1], "") + o[2]
            elif o[0] == "reindent":
                indent.update(self.reindent_map(o[1], False) or {})
            elif o[0] == "append":
                extra.extend(o[1])
        out, pos, ind = [], [0] * n, [(0, 0)] * n
        for o in range(n + 1):
            out.extend(ins.get(o, []))
            if o < n:
                l = lines0[o]
                if o in indent:
                    w = _lead(l)
                    l = indent[o] + l[len(w):]
                    ind[o] = (len(w), len(indent[o]))
                if o in trail:
                    l = l + trail[o]
                pos[o] = len(out)
                out.append(l)
        out.extend(extra)
        return out, pos, ind

    def text(self, variant=None) -> str:
        """the decoded text (LF newlines, no BOM) ; final newline kept (added when code is appended)"""
        lines, _, _ = self.render()
        fin = self.info.final_nl or any(o[0] == "append" for o in self.ops)
        return "\n".join(lines) + ("\n" if fin and lines else "")

    def data(self) -> bytes:
        t = self.text()
        crlf, bom = self.final_flags()
        if crlf:
            t = t.replace("\n", "\r\n")
        if bom:
            t = BOM + t
        return t.encode("utf-8")

    def base_data(self) -> bytes:
        return Plan(self.info, self.base_crlf, self.base_bom, []).data()

    def shifter(self):
        return shifter_between(Plan(self.info, self.base_crlf, self.base_bom, []), self)

    # -------------------------------------------------------------- the same edits in the algebra of Model/Edit.v
    def coq_edits(self):
        """(pieces0, edits, pieces1, added) : the decoded base text split at "\n", the edit list, the decoded edited text
        split at "\n", the line numbers (edited version) of appended code lines; None for plans with a renaming"""
        if any(o[0] == "rename" for o in self.ops):
            return None
        info = self.info
        base = self.base_data().decode("utf-8")
        new = self.data().decode("utf-8")
        ps0, ps1 = base.split("\n"), new.split("\n")
        es = []
        if self.base_bom:
            es.append(["DropBOM"])
        if self.base_crlf:
            es.append(["ToLF"])
        ins, extra = {}, []
        for o in self.ops:
            if o[0] == "reindent":
                for k, w in sorted((self.reindent_map(o[1], False) or {}).items()):
                    es.append(["SetIndent", k, w])
        for o in self.ops:
            if o[0] in ("trail", "trail_ff"):
                es.append(["TrailWS", o[1], o[2]])
        for o in self.ops:
            if o[0] in ("ins_blank", "ins_comment"):
                ins.setdefault(o[1], []).append(o[2])
            elif o[0] == "append":
                extra.extend(o[1])
        # the decoded text has a last piece after the final newline; appended lines go in front of it
        if extra:
            at = info.n
            if not info.final_nl and info.n:
                extra = extra + [""]          # the text gains a final newline
                at = info.n
            for j, l in enumerate(extra):
                es.append(["InsLine", at + j, l])
        for o in sorted(ins, reverse=True):
            for t in reversed(ins[o]):
                es.append(["InsLine", o, t])
        crlf, bom = self.final_flags()
        if crlf:
            es.append(["ToCRLF"])
        if bom:
            es.append(["AddBOM"])
        lines1, pos, _ = self.render()
        added = []
        if extra:
            real = [o for o in self.ops if o[0] == "append"]
            cnt = sum(len(o[1]) for o in real)
            added = list(range(len(lines1) - cnt + 1, len(lines1) + 1))
        return ps0, es, ps1, added


def shifter_between(prev: "Plan", cur: "Plan"):
    """(line map, column map) from the version rendered by `prev` to the version rendered by `cur` (same file, cur's operations a
    superset of prev's): a violation on an original line follows that line; columns follow the change of the line's indentation"""
    lp, pp, _ = prev.render()
    lc, pc, _ = cur.render()
    inv = {pp[o] + 1: o for o in range(len(pp))}

    def line(v: int) -> int:
        o = inv.get(v)
        return pc[o] + 1 if o is not None else v

    def col(v: int, c: int) -> int:
        o = inv.get(v)
        if o is None:
            return c
        a, b = len(_lead(lp[pp[o]])), len(_lead(lc[pc[o]]))
        if a == b or a == 0 or c < a:
            return c
        return c + b - a
    return line, col


# ------------------------------------------------------------------ appended code
def appendix(lang: str, tag: str) -> list[str]:
    if lang == "py":
        return ["", "", f"def tv_extra_{tag}(tv_a_{tag}, tv_b_{tag}):", f"    tv_c_{tag} = tv_a_{tag} + tv_b_{tag}", f"    return tv_c_{tag}"]
    if lang == "rs":
        return ["", f"fn tv_extra_{tag}(tv_a_{tag}: i32, tv_b_{tag}: i32) -> i32 {{", f"    let tv_c_{tag} = tv_a_{tag} + tv_b_{tag};", f"    tv_c_{tag}", "}"]
    if lang == "ts":
        return ["", f"function tvExtra{tag}(tvA{tag}: number, tvB{tag}: number): number {{", f"  const tvC{tag} = tvA{tag} + tvB{tag};", f"  return tvC{tag};", "}"]
    return ["", f"function tvExtra{tag}(tvA{tag}, tvB{tag}) {{", f"  const tvC{tag} = tvA{tag} + tvB{tag};", f"  return tvC{tag};", "}"]


# ------------------------------------------------------------------ names related to other identifiers of the file
def related_names(c: str, words, used, bad, r, limit=40) -> list[str]:
    """fresh identifiers of the SAME length and letter-case class as c that are a proper substring of another identifier of the file
    (`data` for a file that mentions `metadata`) or contain a shorter one (`metadatax` ...): a rule that compares identifiers by
    containment instead of equality gives different findings for such a name than for an unrelated one"""
    n = len(c)
    # same letter-case class, and a letter where c has one (UPPER_CASE constants are exempt from magic-numbers by name: the class must
    # survive the renaming); mixed-case names keep their exact pattern, i.e. get no related name
    if not any(ch.isalpha() for ch in c) or (c.lower() != c and c.upper() != c):
        return []
    cls = (lambda t: bool(re.fullmatch(r"[a-z_][a-z0-9_]*", t)) and any(ch.isalpha() for ch in t)) if c.lower() == c else \
          (lambda t: bool(re.fullmatch(r"[A-Z_][A-Z0-9_]*", t)) and any(ch.isalpha() for ch in t))
    words = {w for w in words if any(ch.isalpha() for ch in w)}
    out = set()
    letters = "abcdefghijklmnopqrstuvwxyz"
    for w in sorted(words):
        if w == c:
            continue
        if len(w) > n:
            for i in range(len(w) - n + 1):
                out.add(w[i:i + n])
        elif 1 < len(w) < n:
            pad = "".join(r.choice(letters) for _ in range(n - len(w)))
            pad = pad.upper() if c.upper() == c else pad
            out.update({w + pad, pad + w})
    ok = sorted(t for t in out if cls(t) and t not in used and t not in bad and not t[0].isdigit())
    r.shuffle(ok)
    return ok[:limit]


def is_related(c: str, words) -> bool:
    return any(w != c and (c in w or (len(w) > 1 and w in c)) for w in words)


# ------------------------------------------------------------------ renaming of Python locals
def py_local_renaming(text: str, r) -> tuple[list[str], dict] | None:
    """rename some function-local variables (assigned in a function, never parameters / globals / attributes /
    keyword names) to fresh identifiers of the SAME length and letter case class; returns (new lines, mapping)"""
    try:
        mod = ast.parse(text)
    except (SyntaxError, ValueError):
        return None
    all_names = set()
    params, declared = set(), set()
    for n in ast.walk(mod):
        if isinstance(n, ast.Name):
            all_names.add(n.id)
        elif isinstance(n, ast.arg):
            params.add(n.arg)
            all_names.add(n.arg)
        elif isinstance(n, (ast.Global, ast.Nonlocal)):
            declared.update(n.names)
        elif isinstance(n, ast.Attribute):
            all_names.add(n.attr)
        elif isinstance(n, (ast.FunctionDef, ast.AsyncFunctionDef, ast.ClassDef)):
            all_names.add(n.name)
        elif isinstance(n, ast.keyword) and n.arg:
            all_names.add(n.arg)
            params.add(n.arg)
        elif isinstance(n, ast.alias):
            all_names.add((n.asname or n.name).split(".")[0])
            params.add((n.asname or n.name).split(".")[0])
        elif isinstance(n, ast.ExceptHandler) and n.name:
            params.add(n.name)
        elif isinstance(n, (ast.MatchAs, ast.MatchStar)) and getattr(n, "name", None):
            params.add(n.name)
    module_level = set()
    for st in mod.body:
        for n in ast.walk(st) if not isinstance(st, (ast.FunctionDef, ast.AsyncFunctionDef, ast.ClassDef)) else []:
            if isinstance(n, ast.Name):
                module_level.add(n.id)
    class_level = set()
    for c in ast.walk(mod):
        if isinstance(c, ast.ClassDef):
            for st in c.body:
                if not isinstance(st, (ast.FunctionDef, ast.AsyncFunctionDef, ast.ClassDef)):
                    for n in ast.walk(st):
                        if isinstance(n, ast.Name):
                            class_level.add(n.id)
    cands = set()
    for f in ast.walk(mod):
        if isinstance(f, (ast.FunctionDef, ast.AsyncFunctionDef)):
            for n in ast.walk(f):
                if isinstance(n, ast.Name) and isinstance(n.ctx, ast.Store):
                    cands.add(n.id)
    import builtins
    cands -= params | declared | module_level | class_level | set(dir(builtins))
    cands = sorted(c for c in cands if c.islower() or "_" in c and c.lower() == c)
    if not cands:
        return None
    # a local whose name is contained in / contains another identifier of the file is always renamed (to an unrelated name);
    # half of the others get a name that is related to another identifier
    chosen = [c for c in cands if is_related(c, all_names) or r.random() < 0.7] or cands[:1]
    mapping, used = {}, set(all_names)
    letters = "abcdefghijklmnopqrstuvwxyz"
    import keyword
    for c in chosen:
        rel = related_names(c, all_names - set(chosen), used, set(keyword.kwlist) | set(dir(builtins)), r) if not is_related(c, all_names) and r.random() < 0.5 else []
        if rel:
            mapping[c] = rel[0]
            used.add(rel[0])
            continue
        for _ in range(200):
            new = "".join(ch if ch == "_" or ch.isdigit() else r.choice(letters) for ch in c)
            if new[0].isdigit():
                continue
            import keyword
            if new not in used and not keyword.iskeyword(new) and new not in dir(builtins):
                mapping[c] = new
                used.add(new)
                break
    if not mapping:
        return None
    lines = text.split("\n")
    edits = []
    depth = 0
    prev = None
    try:
        toks = list(tokenize.generate_tokens(io.StringIO(text).readline))
    except (tokenize.TokenError, IndentationError, SyntaxError):
        return None
    for t in toks:
        if t.type == tokenize.NAME and t.string in mapping and not (prev and prev.type == tokenize.OP and prev.string == "."):
            edits.append((t.start[0] - 1, t.start[1], t.end[1], mapping[t.string]))
        if t.type not in (tokenize.NL, tokenize.COMMENT):
            prev = t
    for row, a, b, new in sorted(edits, reverse=True):
        lines[row] = lines[row][:a] + new + lines[row][b:]
    new_text = "\n".join(lines)
    try:
        new_mod = ast.parse(new_text)
    except (SyntaxError, ValueError):
        return None
    inv = {v: k for k, v in mapping.items()}
    for n in ast.walk(new_mod):
        if isinstance(n, ast.Name) and n.id in inv:
            n.id = inv[n.id]
    if ast.dump(new_mod) != ast.dump(mod):
        return None
    return lines, mapping


# ------------------------------------------------------------------ renaming of TypeScript / JavaScript / Rust locals
TS_FUNCS = {"function_declaration", "function_expression", "arrow_function", "method_definition", "generator_function",
            "generator_function_declaration", "function_signature"}
RS_FUNCS = {"function_item", "closure_expression"}
TS_KEYWORDS = {"break", "case", "catch", "class", "const", "continue", "debugger", "default", "delete", "do", "else", "enum", "export",
               "extends", "false", "finally", "for", "function", "if", "import", "in", "instanceof", "new", "null", "return", "super",
               "switch", "this", "throw", "true", "try", "typeof", "var", "void", "while", "with", "let", "static", "yield", "await",
               "async", "of", "type", "interface", "as", "is", "any", "get", "set", "undefined", "NaN", "Infinity", "arguments", "eval"}
RS_KEYWORDS = {"as", "break", "const", "continue", "crate", "else", "enum", "extern", "false", "fn", "for", "if", "impl", "in", "let", "loop",
               "match", "mod", "move", "mut", "pub", "ref", "return", "self", "Self", "static", "struct", "super", "trait", "true", "type",
               "unsafe", "use", "where", "while", "async", "await", "dyn", "abstract", "become", "box", "do", "final", "macro",
               "override", "priv", "typeof", "unsized", "virtual", "yield", "try", "union"}


def ts_local_renaming(lang: str, text: str, r):
    """rename variables declared with const / let / var (TS, JS) or `let` (Rust) inside functions - every occurrence of the name
    lies inside a function that declares it, the name is no parameter, no module-level binding, no shorthand property / field -
    to fresh identifiers of the SAME length and letter-case pattern; returns (new lines, mapping) or None.  Property names,
    types, labels and text inside strings are never touched (they are other node types)."""
    data = text.encode("utf-8")
    tree = _ts_parser(lang).parse(data)
    funcs = RS_FUNCS if lang == "rs" else TS_FUNCS
    ident_types = {"identifier"}
    occ, declared_in, banned, all_words = {}, {}, set(), set(re.findall(r"[A-Za-z_$][A-Za-z_0-9$]*", text))
    stack = [(tree.root_node, ())]
    while stack:
        n, fstack = stack.pop()
        if n.type == "ERROR" or n.is_missing:
            return None
        if n.type in funcs:
            fstack = fstack + (n.id,)
        t = n.type
        if t in ident_types and n.child_count == 0:
            name = n.text.decode("utf-8")
            occ.setdefault(name, []).append((n.start_byte, n.end_byte, fstack))
            par = n.parent
            pt = par.type if par is not None else ""
            if lang == "rs":
                if pt == "let_declaration" and par.child_by_field_name("pattern") is not None and par.child_by_field_name("pattern").id == n.id:
                    if fstack:
                        declared_in.setdefault(name, set()).add(fstack[-1])
                    else:
                        banned.add(name)
                elif pt in ("parameter", "self_parameter", "closure_parameters", "shorthand_field_initializer", "macro_invocation",
                            "scoped_identifier", "use_declaration", "function_item", "static_item", "const_item", "mod_item",
                            "field_pattern", "tuple_struct_pattern", "struct_pattern", "generic_function", "attribute", "label",
                            "mut_pattern", "reference_pattern", "tuple_pattern", "captured_pattern", "or_pattern", "for_expression",
                            "match_pattern", "scoped_use_list", "use_list", "use_as_clause", "enum_variant"):
                    banned.add(name)
            else:
                if pt == "variable_declarator" and par.child_by_field_name("name") is not None and par.child_by_field_name("name").id == n.id:
                    if fstack:
                        declared_in.setdefault(name, set()).add(fstack[-1])
                    else:
                        banned.add(name)
                elif pt in ("required_parameter", "optional_parameter", "formal_parameters", "function_declaration", "class_declaration",
                            "import_specifier", "import_clause", "namespace_import", "export_specifier", "catch_clause", "labeled_statement",
                            "break_statement", "continue_statement", "function_expression", "generator_function_declaration",
                            "arrow_function", "rest_pattern", "object_pattern", "array_pattern", "pair_pattern", "assignment_pattern",
                            "for_in_statement", "enum_declaration", "type_alias_declaration", "interface_declaration", "method_definition",
                            "namespace_export", "internal_module", "module", "abstract_class_declaration", "object_assignment_pattern"):
                    banned.add(name)
        elif t in ("shorthand_property_identifier", "shorthand_property_identifier_pattern", "shorthand_field_identifier") and n.child_count == 0:
            banned.add(n.text.decode("utf-8"))
        for c in n.children:
            stack.append((c, fstack))
    kw = RS_KEYWORDS if lang == "rs" else TS_KEYWORDS
    cands = []
    for name, fs in declared_in.items():
        if name in banned or name in kw or len(name) < 1 or name.startswith("$"):
            continue
        if lang == "rs" and (("{" + name) in text):
            continue
        if all(any(f in fstack for f in fs) for _, _, fstack in occ.get(name, [])):
            cands.append(name)
    cands.sort()
    if not cands:
        return None
    chosen = [c for c in cands if is_related(c, all_words) or r.random() < 0.7] or cands[:1]
    mapping, used = {}, set(all_words)
    lower, upper = "abcdefghijklmnopqrstuvwxyz", "ABCDEFGHIJKLMNOPQRSTUVWXYZ"
    for c in chosen:
        rel = related_names(c, all_words - set(chosen), used, kw, r) if not is_related(c, all_words) and r.random() < 0.5 else []
        if rel:
            mapping[c] = rel[0]
            used.add(rel[0])
            continue
        for _ in range(200):
            new = "".join(r.choice(lower) if ch.islower() else r.choice(upper) if ch.isupper() else ch for ch in c)
            if new not in used and new not in kw and not new[0].isdigit():
                mapping[c] = new
                used.add(new)
                break
    if not mapping:
        return None
    edits = [(a, b, mapping[name].encode("utf-8")) for name in mapping for a, b, _ in occ[name]]
    out = bytearray(data)
    for a, b, new in sorted(edits, reverse=True):
        out[a:b] = new
    new_text = out.decode("utf-8")
    inv = {v: k for k, v in mapping.items()}
    if shape(lang, new_text, inv) != shape(lang, text):
        return None
    return new_text.split("\n"), mapping


# ------------------------------------------------------------------ the same program with constructs spread over two lines
SPLIT_OPEN_PARENTS = {"arguments", "formal_parameters", "parameters", "array", "array_expression", "object", "field_initializer_list",
                      "parenthesized_expression", "tuple_expression", "type_arguments", "named_imports", "use_list"}
SPLIT_ASSIGN_PARENTS = {"variable_declarator", "assignment_expression", "let_declaration", "augmented_assignment_expression",
                        "public_field_definition", "field_definition", "const_item", "static_item"}


def split_sites(lang: str, text: str) -> list[tuple[str, int, int]]:
    """(kind, byte offset where the white space between the two tokens starts, offset of the second token) for every pair of adjacent
    tokens of ONE construct that sit on the same line and may sit on different lines: `else` | `if`, `=` | right-hand side,
    opening bracket | first element"""
    out = []
    if lang == "py":
        try:
            toks = [t for t in tokenize.generate_tokens(io.StringIO(text).readline)]
        except (tokenize.TokenError, IndentationError, SyntaxError):
            return []
        offs, acc = [0], 0
        for l in text.split("\n"):
            acc += len(l) + 1
            offs.append(acc)
        if not text.isascii():
            return []
        for a, b in zip(toks, toks[1:]):
            if a.type == tokenize.OP and a.string in "([{" and a.string and b.start[0] == a.end[0] and \
                    b.type not in (tokenize.NL, tokenize.NEWLINE, tokenize.COMMENT, tokenize.ENDMARKER) and not (b.type == tokenize.OP and b.string in ")]}"):
                out.append(("open", offs[a.end[0] - 1] + a.end[1], offs[b.start[0] - 1] + b.start[1]))
        return out
    data = text.encode("utf-8")
    tree = _ts_parser(lang).parse(data)
    leaves, stack = [], [tree.root_node]
    while stack:
        n = stack.pop()
        if n.type == "ERROR" or n.is_missing:
            return []
        if n.child_count == 0 or n.type in MULTI_TYPES:
            leaves.append(n)
            continue
        stack.extend(reversed(n.children))
    for a, b in zip(leaves, leaves[1:]):
        if a.end_point[0] != b.start_point[0] or b.type in ("comment", "line_comment", "block_comment") or a.type in ("comment", "line_comment", "block_comment"):
            continue
        pt = a.parent.type if a.parent is not None else ""
        if a.type == "else" and b.type == "if":
            out.append(("else-if", a.end_byte, b.start_byte))
        elif a.type == "=" and pt in SPLIT_ASSIGN_PARENTS:
            out.append(("assign", a.end_byte, b.start_byte))
        elif a.type in ("(", "[", "{") and pt in SPLIT_OPEN_PARENTS and b.type not in (")", "]", "}"):
            out.append(("open", a.end_byte, b.start_byte))
    return out


def split_lines(lang: str, text: str, r, max_sites=3) -> tuple[str, list[str]] | None:
    """the same program with up to max_sites of its split sites (every `else` | `if` first) broken over two lines; the result parses
    to the same tree (guard) - a new base program whose new gaps the edit plans and the gap sweep then fill with blank / comment lines"""
    sites = split_sites(lang, text)
    if not sites:
        return None
    first = [x for x in sites if x[0] == "else-if"]
    rest = [x for x in sites if x[0] != "else-if"]
    r.shuffle(first)
    r.shuffle(rest)
    picked = (first + rest)[:max_sites]
    data = bytearray(text.encode("utf-8"))
    for kind, a, b in sorted(picked, key=lambda x: -x[1]):
        ls = data.rfind(b"\n", 0, a) + 1
        line = data[ls:a].decode("utf-8", "replace")
        ind = _lead(line) + ("" if kind == "else-if" else "    ")
        data[a:b] = ("\n" + ind).encode("utf-8")
    new = data.decode("utf-8")
    if shape(lang, new) != shape(lang, text):
        return None
    return new, sorted({k for k, _, _ in picked})


# ------------------------------------------------------------------ the program is unchanged (oracle cross-check)
def shape(lang: str, text: str, unmap: dict | None = None):
    """statement-level fingerprint of the parse, positions dropped: equal before and after a meaning-preserving edit
    (unmap: renamed identifier -> original, applied to identifier leaves)"""
    if text.startswith(BOM):
        text = text[1:]
    if lang == "py":
        try:
            return ast.dump(ast.parse(text), include_attributes=False)
        except (SyntaxError, ValueError) as e:
            return f"<syntax error {e}>"
    tree = _ts_parser(lang).parse(text.encode("utf-8"))
    out = []

    def walk(n):
        if n.type in ("comment", "line_comment", "block_comment"):
            return
        if n.child_count == 0:
            if unmap and n.type == "identifier" and n.text.decode("utf-8", "replace") in unmap:
                out.append((n.type, unmap[n.text.decode("utf-8")].encode("utf-8")))
            else:
                out.append((n.type, n.text))
            return
        if n.type in MULTI_TYPES:
            out.append((n.type, n.text))
            return
        out.append(n.type)
        for c in n.children:
            walk(c)
        out.append(")")
    walk(tree.root_node)
    return repr(out)


def rename_related_plan(info: "Info", r, both=True) -> "Plan | None":
    """a renaming plan for a file in which some renamed local is RELATED to another identifier of the file (its name is contained in
    / contains the other one), before or after the renaming; None when the file has no such local"""
    lang = info.lang
    res = py_local_renaming(info.text, r) if lang == "py" else ts_local_renaming(lang, info.text, r)
    if res is None:
        return None
    new_lines, mapping = res
    words = set(re.findall(r"[A-Za-z_$][A-Za-z_0-9$]*", info.text))
    after = (words - set(mapping)) | set(mapping.values())
    if not any(is_related(k, words) or (both and is_related(v, after)) for k, v in mapping.items()):
        return None
    if info.final_nl and new_lines and new_lines[-1] == "":
        new_lines = new_lines[:-1]
    if len(new_lines) != info.n:
        return None
    return Plan(info, ops=[["rename", mapping, new_lines]])


def make_plan(r, info: Info, kinds: list[str], below_header: bool, n_ops: int, tag: str, base_crlf=False, base_bom=False) -> Plan:
    """a plan with up to n_ops operations drawn from `kinds` (edit kind names)"""
    plan = Plan(info, base_crlf, base_bom)
    lang = info.lang
    have = set()
    for _ in range(n_ops):
        kind = r.choice(kinds)
        if kind in ("insert_blank", "insert_comment"):
            pts = plan.insert_anchors(below_header)
            if not pts:
                continue
            o = r.choice(pts)
            if kind == "insert_blank":
                op = ["ins_blank", o, r.choice(["", "", "", "    ", "\t", "  "])]
            else:
                near = info.lines[o] if o < info.n else (info.lines[o - 1] if info.n else "")
                indent = _lead(near) if r.random() < 0.7 else r.choice(["", "    ", "  "])
                body = r.choice(NOTE_WORDS) + (f" {r.randint(0, 99)}" if r.random() < 0.5 else "")
                op = ["ins_comment", o, indent + COMMENT[lang] + r.choice([" ", "", "  "]) + body]
            plan.ops.append(op)
            if not plan.header_window_ok():
                plan.ops.pop()
                continue
        elif kind in ("trailing_ws", "trailing_ff"):
            pts = plan.trail_lines(below_header)
            if not pts:
                continue
            ws = r.choice(WS_EXOTIC if kind == "trailing_ff" else WS_PLAIN)
            for o in r.sample(pts, min(len(pts), r.choice([1, 1, 2, 5]))):
                plan.ops.append(["trail_ff" if kind == "trailing_ff" else "trail", o, ws])
        elif kind == "reindent":
            if "reindent" in have:
                continue
            mode = r.choice(["double", "tabs", "halve", "double"])
            if plan.reindent_map(mode, below_header) is None:
                continue
            plan.ops.append(["reindent", mode])
        elif kind == "to_crlf":
            if plan.final_flags()[0]:
                continue
            plan.ops.append(["crlf"])
        elif kind == "to_lf":
            if not plan.final_flags()[0]:
                continue
            plan.ops.append(["lf"])
        elif kind == "add_bom":
            if plan.final_flags()[1] or below_header:
                continue
            plan.ops.append(["bom"])
        elif kind == "drop_bom":
            if not plan.final_flags()[1] or below_header:
                continue
            plan.ops.append(["nobom"])
        elif kind == "append_code":
            if "append_code" in have:
                continue
            plan.ops.append(["append", appendix(lang, tag)])
        elif kind == "rename_locals":
            if "rename_locals" in have:
                continue
            res = py_local_renaming(info.text, r) if lang == "py" else ts_local_renaming(lang, info.text, r)
            if res is None:
                continue
            new_lines, mapping = res
            if info.final_nl and new_lines and new_lines[-1] == "":
                new_lines = new_lines[:-1]
            if len(new_lines) != info.n:
                continue
            plan.ops.append(["rename", mapping, new_lines])
        else:
            raise ValueError(kind)
        have.add(kind)
    return plan
