"""C12 — every violation points at a real location of the construct it describes.

PROVED (coq/theories/Proofs/Loc*.v): the location theory (files as line lists, line_ok / col_ok, text <-> lines), the
0-based -> 1-based conversions read from the source per violation builder, SARIF's column + 1, the builder model
(ideal = property, confinement of every listed deviation), and for every modelled linter (nesting, magic numbers, SRP,
unwrap / clone / blocking, DRY, print statements) that the model emits only recorded header positions.

VALIDATED here (parser positions are an oracle): generated programs of every modelled linter (the generators of
C01 / C02 / C03 / C16 / C17 plus a print-statement generator) are laid out with random vertical / horizontal offsets,
comment and blank lines in front of constructs, decorators / attributes, multi-line headers, CRLF line ends and no final
newline; every documented example of every linter that has a CLI command is linted under the position-only layouts; a
file-level stream covers file-placement / file-header.  The oracle on the implementation's output is the property itself:
the file is part of the run, 1 <= line <= number of lines, 0 <= column <= length of that line (bytes), the line is the
recorded line of the construct, quoted names / literals occur on that line.  Judged inside coqc by Model/LocRun.v."""
from __future__ import annotations

import copy
import json
import re
import shutil
import subprocess
from concurrent.futures import ThreadPoolExecutor
from decimal import Decimal
from pathlib import Path

from harness import coq, skel
from harness.common import (VERIF, drain_failures, make_orchestrator, parse_json_violations, pool_map, rng_for, run_cli,
                            scratch_dir)
from harness.framework import Check
from harness.props import c12_lazy, c12_tspat

PROP = "C12"
FLAGS = ["q_rs_chain_start", "q_ts_arrow_node_start", "q_ts_console_chain_start", "q_fh_header_relative", "q_col_const_unclamped"]
HEADER = "From TL Require Import Lib.Base Model.LocTypes Gen.LocGen Model.Loc Model.LocRun Actual.LocActual.\n"
PAT_HEADER = "From TL Require Import Lib.Base Model.LocTypes Gen.LocGen Gen.LocPatGen Model.Loc Model.Embed Model.LocPat.\n"
CORPUS = VERIF / "corpus" / PROP
EXT = {"py": ".py", "ts": ".ts", "js": ".js", "rs": ".rs"}
CM = {"py": "#", "ts": "//", "js": "//", "rs": "//"}
PLACEHOLDER_NAMES = {"arrow_function", "function_expression", "anonymous", "UnnamedClass"}   # names the analyzers invent
SYNTAX_NOTICE = re.compile(r"syntax[-_ ]error", re.I)


# ====================================================================== documents and layouts
def mk_doc(lang, name, lines, cons, stream):
    return {"lang": lang, "name": name, "lines": list(lines), "cons": cons, "eol": "\n", "final_nl": True, "stream": stream, "tags": []}


def con(builder, key, hrow, hcol, nrow=None, ncol=None, **extra):
    return {"builder": builder, "key": key, "hrow": hrow, "hcol": hcol, "nrow": hrow if nrow is None else nrow,
            "ncol": hcol if ncol is None else ncol, **extra}


def doc_text(doc) -> str:
    return doc["eol"].join(doc["lines"]) + (doc["eol"] if doc["final_nl"] else "")


def file_lines(text: str) -> list[str]:
    """the lines of a file as the property counts them: split at LF, a final LF terminates the last line"""
    ls = text.split("\n")
    if ls and ls[-1] == "":
        ls.pop()
    return [l[:-1] if l.endswith("\r") else l for l in ls]


def _shift_rows(doc, at_row, n):
    for c in doc["cons"]:
        if c["hrow"] >= at_row:
            c["hrow"] += n
        if c["nrow"] >= at_row:
            c["nrow"] += n


def insert_lines(doc, at_row, new_lines):
    doc["lines"][at_row:at_row] = new_lines
    _shift_rows(doc, at_row, len(new_lines))


def indent_of(s: str) -> int:
    return len(s) - len(s.lstrip(" "))


def t_vshift(doc, r):
    k = r.choice([1, 2, 3, 5, 9])
    kind = r.choice(["blank", "comment", "mixed"])
    new = []
    for j in range(k):
        new.append("" if kind == "blank" or (kind == "mixed" and j % 2) else f"{CM[doc['lang']]} pad {j}")
    insert_lines(doc, 0, new)
    doc["tags"].append("vshift")


def t_pad_before(doc, r):
    """blank / comment lines directly in front of some constructs (never inside a statement: only in front of node starts
    that begin a line)"""
    rows = sorted({c["nrow"] for c in doc["cons"] if c.get("pad_ok", True)}, reverse=True)
    did = False
    for row in rows:
        if r.random() < 0.4 and row < len(doc["lines"]):
            ind = indent_of(doc["lines"][row])
            new = [" " * ind + f"{CM[doc['lang']]} note"] if r.random() < 0.6 else [""]
            if r.random() < 0.3:
                new.append("")
            insert_lines(doc, row, new)
            did = True
    if did:
        doc["tags"].append("pad-before")


def t_wrap(doc, r):
    lang, lines = doc["lang"], doc["lines"]
    if lang == "py":
        if any(l.startswith(("from __future__", '"""', "'''", "#!")) for l in lines[:3]):
            return
        head, foot, k = "if tv_wrap_cond:", [], 4
    elif lang == "rs":
        head, foot, k = "mod tv_wrap {", ["}"], 4
    else:
        if any(l.lstrip().startswith(("export ", "import ")) for l in lines):
            return
        head, foot, k = "{", ["}"], 2
    if not any(l.strip() for l in lines):
        return
    doc["lines"] = [head] + [(" " * k + l) if l.strip() else l for l in lines] + foot
    for c in doc["cons"]:
        c["hrow"] += 1
        c["nrow"] += 1
        c["hcol"] += k
        c["ncol"] += k
    doc["tags"].append("wrap")


def t_decorate(doc, r):
    """decorator / attribute lines in front of headers; `deco` says what the grammar does with them:
    'same'  the parser's node still starts at the header keyword (Python def / class, Rust attribute, TS method,
            TS exported class: the decorator belongs to the export statement)
    'node'  the parser's node starts at the decorator (TS class that is not exported)"""
    did = False
    for c in sorted([c for c in doc["cons"] if c.get("deco")], key=lambda c: -c["nrow"]):
        if r.random() >= 0.45:
            continue
        if c["nrow"] != c["hrow"]:
            continue
        row = c["hrow"]
        if any(o is not c and o["hrow"] == row for o in doc["cons"]):
            continue
        ind = indent_of(doc["lines"][row])
        if doc["lang"] == "py":
            deco = r.choice([["@tv_deco"], ["@tv_deco", "@tv_other(1,", "          2)"], ["@functools.wraps(tv)"]])
        elif doc["lang"] == "rs":
            deco = r.choice([["#[inline]"], ["#[allow(dead_code)]", "#[inline]"], ["#[derive(Debug, Clone)]"] if c["deco"] == "struct" else ["#[inline(always)]"]])
            if c["deco"] == "struct" and deco[0].startswith("#[inline"):
                deco = ["#[derive(Debug)]"]
        else:
            deco = r.choice([["@TvDec"], ["@TvDec()", "@TvOther({ a: 1,", "  b: 2 })"]])
        new = [" " * ind + d for d in deco]
        insert_lines(doc, row, new)       # shifts c (hrow >= row) as well
        if c["deco"] == "node":
            c["nrow"], c["ncol"] = row, ind
        did = True
    if did:
        doc["tags"].append("decorated")


SPLITS = [("(&self)", ["(", "    &self,", ")"]), ("(self)", ["(", "    self,", ")"]), ("()", ["(", ")"])]


def t_multiline_header(doc, r):
    did = False
    for c in sorted([c for c in doc["cons"] if c.get("split")], key=lambda c: -c["hrow"]):
        if r.random() >= 0.4:
            continue
        row = c["hrow"]
        if any(o is not c and (o["hrow"] == row or o["nrow"] == row) for o in doc["cons"]):
            continue
        line = doc["lines"][row]
        for pat, parts in SPLITS:
            j = line.find(pat, c["hcol"])
            if j < 0:
                continue
            ind = indent_of(line)
            new = [line[:j] + parts[0]] + [" " * ind + p for p in parts[1:-1]] + [" " * ind + parts[-1] + line[j + len(pat):]]
            doc["lines"][row:row + 1] = new
            _shift_rows(doc, row + 1, len(new) - 1)
            did = True
            break
    if did:
        doc["tags"].append("multiline-header")


DECO_TARGET = re.compile(r"^(\s*)(?:async\s+def|def|class)\s")


def t_deco_text(doc, r):
    """documented Python examples (no recorded constructs): a decorator line - sometimes a multi-line decorator call - in front of `def` / `class`
    headers; ast reports the header line for decorated definitions, so every reported position must stay on the `def` / `class` line"""
    if doc["lang"] != "py":
        return
    out, did = [], False
    for l in doc["lines"]:
        mm = DECO_TARGET.match(l)
        if mm and r.random() < 0.7:
            ind = mm.group(1)
            out += [ind + d for d in r.choice([["@tv_deco"], ["@tv_deco"], ["@tv_deco(1,", "         2)"]])]
            did = True
        out.append(l)
    if did:
        doc["lines"] = out
        doc["tags"].append("decorated-text")


def t_crlf(doc, r):
    doc["eol"] = "\r\n"
    doc["tags"].append("crlf")


def t_nonl(doc, r):
    doc["final_nl"] = False
    doc["tags"].append("no-final-newline")


EXOTIC = ["\x0c", "\x0b", "\x1c", "\x1d", "\x1e", "\x85", "\u2028", "\u2029"]   # what str.splitlines() also splits at


def t_exotic(doc, r, strings=True):
    """characters that str.splitlines() treats as line boundaries but the parsers (and the property) do not: inside a
    comment, inside a string literal, and a form feed as a page break; the number of lines (split at LF) is unchanged"""
    lang = doc["lang"]
    if lang not in CM:
        return
    new = []
    for _ in range(r.choice([1, 1, 2])):
        ch = r.choice(EXOTIC)
        kind = r.choice(["comment", "comment", "string", "pagebreak"] if strings else ["comment", "comment", "pagebreak"])
        if kind == "comment":
            if lang in ("ts", "js") and ch in ("\u2028", "\u2029"):
                new.append(f"/* section{ch}break {len(new)} */")      # U+2028/9 END a `//` comment in JavaScript
            else:
                new.append(f"{CM[lang]} section{ch}break {len(new)}")
        elif kind == "pagebreak":
            new.append("\x0c")
        elif lang == "py":
            new.append(f'tv_text_{len(new)} = "a{ch}b"')
        elif lang == "rs":
            new.append(f'const TV_TEXT_{len(new)}: &str = "a{ch}b";')
        else:
            new.append(f'const tvText{len(new)} = "a{ch}b";')
    insert_lines(doc, 0, new)
    doc["tags"].append("exotic-line-chars")


def layout(doc, r, wrap_ok=True, light=False):
    """a random composition of position-tracking layout changes"""
    if r.random() < 0.5:
        t_multiline_header(doc, r)
    if r.random() < 0.6:
        t_decorate(doc, r)
    if r.random() < 0.5:
        t_pad_before(doc, r)
    if wrap_ok and r.random() < (0.15 if light else 0.35):
        t_wrap(doc, r)
    if r.random() < 0.5:
        t_vshift(doc, r)
    if r.random() < 0.3:
        t_exotic(doc, r)
    x = r.random()
    if x < 0.2:
        t_crlf(doc, r)
    if r.random() < 0.25:
        t_nonl(doc, r)
    return doc


# ====================================================================== streams of generated programs
def s_nesting(seed, i):
    r = rng_for(seed, PROP, "nest", i)
    lang = r.choice(["py", "py", "ts", "js", "rs", "rs"])
    lk = "ts" if lang == "js" else lang
    g = skel.Gen(r, skel.LANG_KINDS[lk], skel.LANG_FKINDS[lk], max_depth=5, else_single_if_ok=(lk != "py"), curried=(lk == "ts"))
    if lk == "ts":
        g.max_handlers = 1
    items = g.file()
    if lk == "ts":
        from harness.props.c01 import _one_catch
        _one_catch(items)
    text, placed = skel.render(lang, items, indent_unit=r.choice([None, None, 2, 4, 3, 8]))
    cons = []
    for f in skel.functions_of(placed):
        fk, name, line, col = f[0][1], f[0][2], f[0][3], f[0][4]
        plain_header = fk in ("FDef", "FAsyncDef", "FMethod")
        cons.append(con(f"nesting.{lk}", name, line - 1, col, fkind=fk,
                        deco=("same" if plain_header and not (lk == "ts" and fk != "FMethod") else None),
                        split=plain_header or fk == "FArrow", pad_ok=(fk != "FArrowExpr" and not (len(f[0]) > 5))))
    doc = mk_doc(lang, "src/case" + EXT[lang], text.split("\n")[:-1], cons, "nesting")
    _break_arrow_declarations(doc, r)
    layout(doc, r)
    return {"id": f"nest{i}", "stream": "nesting", "docs": [doc], "config": {"nesting": {"max_nesting_depth": r.choice([1, 1, 2])}}}


def _break_arrow_declarations(doc, r):
    """`const g = () => {`  ->  `const g =` / `  () => {` (what formatters do with long declarations): the quoted name stays on
    the declaration line, the arrow function node starts on the next line"""
    did = False
    for c in sorted([c for c in doc["cons"] if c.get("fkind") == "FArrow" and c.get("pad_ok") and c["key"] not in PLACEHOLDER_NAMES], key=lambda c: -c["hrow"]):
        row = c["hrow"]
        line = doc["lines"][row]
        head = f"const {c['key']} = "
        j = line.find(head)
        if r.random() >= 0.35 or j < 0 or j + len(head) != c["hcol"] or any(o is not c and o["hrow"] == row for o in doc["cons"]):
            continue
        ind = indent_of(line)
        doc["lines"][row:row + 1] = [line[:j + len(head) - 1], " " * (ind + 2) + line[j + len(head):]]
        _shift_rows(doc, row + 1, 1)
        c["hrow"], c["hcol"], c["nrow"], c["ncol"] = row, j + 6, row + 1, ind + 2
        c["split"] = False
        c["deco"] = None
        did = True
    if did:
        doc["tags"].append("arrow-declaration-broken")


def _magic_key(v) -> str:
    """canonical key of a numeric value: mantissa/exponent without trailing zeros; booleans by name"""
    if isinstance(v, bool):
        return "True" if v else "False"
    d = Decimal(repr(v)) if isinstance(v, float) else Decimal(v)
    if d == 0:
        return "0e0"
    sign, digits, exp = d.as_tuple()
    m = int("".join(map(str, digits)))
    while m % 10 == 0:
        m //= 10
        exp += 1
    return f"{'-' if sign else ''}{m}e{exp}"


NUM_TOKEN = re.compile(r"(?<![A-Za-z0-9_.])(?:0[xX][0-9a-fA-F_]+|0[oO][0-7_]+|0[bB][01_]+|[0-9][0-9_]*(?:\.[0-9_]*)?(?:[eE][+-]?[0-9_]+)?|\.[0-9][0-9_]*(?:[eE][+-]?[0-9_]+)?)(?:n|_?[iuf](?:8|16|32|64|128|size))?")


def _token_value(tok: str):
    """the value a numeric source token denotes (any of the three languages), None when it is not a number"""
    t = tok
    t = re.sub(r"_?(?:[iu](?:8|16|32|64|128|size)|f32|f64)$", "", t) if not re.match(r"0[xX]", t) else re.sub(r"_?(?:[iu](?:8|16|32|64|128|size))$", "", t)
    if t.endswith("n"):
        t = t[:-1]
    t = t.replace("_", "")
    try:
        if re.match(r"0[xXoObB]", t):
            return int(t, 0)
        if re.fullmatch(r"[0-9]+", t):
            return int(t, 10)
        return float(t)
    except ValueError:
        return None


def s_magic(seed, i):
    from harness.props import c02, c02_render
    r = rng_for(seed, PROP, "magic", i)
    lang = r.choice(["py", "py", "ts", "js", "rs"])
    f = c02.gen_file(r, lang)
    text = c02_render.render(f, top_offset=0)
    lines = text.split("\n")[:-1]
    lk = "ts" if lang == "js" else lang
    cons = []
    for sc in f["scopes"]:
        for s in sc["sites"]:
            row = s["line"] - 1
            pos = 0
            for lit in s["lits"]:
                if not c02_render.lit_is_numeric(lit) and not (lit[0] == "Bool"):
                    continue
                t = c02_render.lit_text(lang, lit)
                j = _find_token(lines[row], t, pos)
                if j < 0:
                    j = max(0, lines[row].find(t))
                pos = j + len(t)
                if lit[0] == "Bool":
                    key = "True" if lit[1] else "False"
                else:
                    v = _token_value(t)
                    key = _magic_key(v) if v is not None else "?"
                cons.append(con(f"magic.{lk}", key, row, j, pad_ok=(s["ctx"] not in ("Match",)), spell=t))
    name = f["name"] if "/" in f["name"] else "src/" + f["name"]
    doc = mk_doc(lang, name.lstrip("/"), lines, cons, "magic")
    _spread_literals(doc, f, lang, r)
    layout(doc, r)
    cfg = {"magic-numbers": {"allowed_numbers": r.choice([[], [0, 1], [-1, 0, 1, 2, 10, 100]]), "max_small_integer": r.choice([1, 3, 10])}}
    return {"id": f"magic{i}", "stream": "magic", "docs": [doc], "config": cfg}


def _spread_literals(doc, f, lang, r):
    """list displays and argument lists over several lines, one literal per line: `v = [1, 2]` ->  `v = [` / `    1,` / `    2,` / `]`"""
    from harness.props import c02_render
    sites = [s for sc in f["scopes"] for s in sc["sites"] if s["ctx"] in ("Elts", "Arg", "UpperTuple") and r.random() < 0.35]
    did = False
    for s in sorted(sites, key=lambda s: -s["line"]):
        row = s["line"] - 1
        line = doc["lines"][row]
        texts = [c02_render.lit_text(lang, l) for l in s["lits"]]
        many = ", ".join(texts)
        j = line.find(many)
        if j <= 0 or line[j - 1] not in "[(" or (lang == "py" and s["ctx"] == "UpperTuple"):
            continue
        ind = indent_of(line)
        new = [line[:j]] + [" " * (ind + 4) + t + "," for t in texts] + [" " * ind + line[j + len(many):]]
        mine = sorted([c for c in doc["cons"] if c["hrow"] == row], key=lambda c: c["hcol"])
        numeric_idx = [k for k, l in enumerate(s["lits"]) if c02_render.lit_is_numeric(l) or l[0] == "Bool"]
        if len(mine) != len(numeric_idx):
            continue
        doc["lines"][row:row + 1] = new
        _shift_rows(doc, row + 1, len(new) - 1)
        for c, k in zip(mine, numeric_idx):
            c["hrow"] = c["nrow"] = row + 1 + k
            c["hcol"] = c["ncol"] = ind + 4
            c["pad_ok"] = False
        did = True
    if did:
        doc["tags"].append("multiline-literals")


def _find_token(line: str, tok: str, start: int) -> int:
    j = line.find(tok, start)
    while j >= 0:
        before = line[j - 1] if j else " "
        after = line[j + len(tok)] if j + len(tok) < len(line) else " "
        if not (before.isalnum() or before in "_.") and not (after.isalnum() or after in "_."):
            return j
        j = line.find(tok, j + 1)
    return -1


def s_srp(seed, i):
    from harness.props import c16
    r = rng_for(seed, PROP, "srp", i)
    lang = r.choice(["py", "py", "ts", "ts", "js", "rs", "rs"])
    g = c16.Gen(r, lang, size=r.choice([0.5, 1]))
    tree = g.file()
    text, flat = c16.render(lang, tree, 0)
    lines = text.split("\n")[:-1]
    lk = "ts" if lang == "js" else lang
    cons = []
    if lang == "rs":
        for s in flat["structs"]:
            cons.append(con("srp.rs", s["name"], s["line"] - 1, s["col"], deco="struct"))
    else:
        for c in flat["classes"]:
            nrow, ncol = c["line"] - 1, c["col"]
            hrow = nrow
            while hrow < len(lines) and not re.search(r"\bclass\s+" + re.escape(c["name"]) + r"\b", lines[hrow]):
                hrow += 1
            if hrow >= len(lines):
                hrow = nrow
            hcol = ncol if hrow == nrow else lines[hrow].find("class ")
            exported = c["ckind"] in ("CExport", "CExportDefault", "CExportAbstract")
            deco = None
            if lang == "py":
                deco = "same"
            elif lang == "ts" and hrow == nrow and not (hrow and lines[hrow - 1].lstrip().startswith(("@", "  template"))):
                deco = "same" if exported else "node"
                if exported:        # the decorator stands in front of `export`: the reported column is unchanged
                    pass
            cons.append(con(f"srp.{lk}", c["name"], hrow, max(0, hcol), nrow, ncol, deco=deco, ckind=c["ckind"]))
    doc = mk_doc(lang, "src/case" + EXT[lang], lines, cons, "srp")
    layout(doc, r)
    return {"id": f"srp{i}", "stream": "srp", "docs": [doc], "config": {"srp": {"max_methods": r.choice([1, 2]), "max_loc": r.choice([1, 3, 10])}}}


def s_rust(seed, i):
    from harness.props import c17
    r = rng_for(seed, PROP, "rust", i)
    g = c17.Gen(r, max_depth=r.choice([1, 2, 2, 3]))
    items = g.file()

    def breaks(n):
        k = n[0]
        if k[0] == "Method" and k[4] in ("unwrap", "expect", "clone") and r.random() < 0.3:
            k[5] = True       # `recv` / `    .unwrap()` on two lines
        for c in n[1]:
            breaks(c)
    for it in items:
        breaks(it)
    text, placed = c17.render(items, top_offset=0)
    lines = text.split("\n")
    if lines and lines[-1] == "":
        lines.pop()
    cons = []

    def walk(n):
        k = n[0]
        if k[0] == "Method" and k[4] in ("unwrap", "expect", "clone"):
            sl, sc, ml, name = k[1], k[2], k[3], k[4]
            hcol = lines[ml].find("." + name + "(") if ml < len(lines) else -1
            b = "clone" if name == "clone" else "unwrap"
            cons.append(con(b, "", ml, (hcol + 1) if hcol >= 0 else sc, sl, sc, pad_ok=False, method=name))
        elif k[0] == "Call":
            cons.append(con("blocking", "", k[1], k[2], pad_ok=False))
        for c in n[1]:
            walk(c)
    for it in placed:
        walk(it)
    doc = mk_doc("rs", "src/case.rs", lines, cons, "rust")
    # only whole-file layouts: statements are not tracked line by line
    if r.random() < 0.4:
        t_exotic(doc, r)
    if r.random() < 0.5:
        t_vshift(doc, r)
    if r.random() < 0.3:
        t_wrap(doc, r)
    if r.random() < 0.2:
        t_crlf(doc, r)
    if r.random() < 0.25:
        t_nonl(doc, r)
    return {"id": f"rust{i}", "stream": "rust", "docs": [doc], "config": {}}


def s_rustchain(seed, i):
    """Rust method chains with explicit layout: every segment of the receiver chain on the same or on a new line, the
    risky call last; blocking calls inside async functions with argument lists broken over lines"""
    r = rng_for(seed, PROP, "rustchain", i)
    lines, cons = [], []
    n = [0]

    def var():
        n[0] += 1
        return f"v{n[0]}"

    def chain_stmt(ind, in_loop):
        recv = r.choice(["conf", "data", "self.items", "opt", "res"])
        head = " " * ind + f"let {var()} = "
        row0, col0 = len(lines), len(head)
        cur = head + recv
        for _ in range(r.choice([0, 0, 1, 2])):
            seg = r.choice([".get(0)", ".iter()", ".first()", ".as_ref()", ".map(|q| q)"])
            if r.random() < 0.4:
                lines.append(cur)
                cur = " " * (ind + 4) + seg
            else:
                cur += seg
        m = r.choice(["unwrap", "expect", "clone", "clone"] if in_loop else ["unwrap", "unwrap", "expect", "clone"])
        call = {"unwrap": ".unwrap()", "expect": '.expect("present")', "clone": ".clone()"}[m]
        if r.random() < 0.45:
            lines.append(cur)
            cur = " " * (ind + 4) + call
            hcol = ind + 4 + 1
        else:
            hcol = len(cur) + 1
            cur += call
        lines.append(cur + ";")
        cons.append(con("clone" if m == "clone" else "unwrap", "", len(lines) - 1, hcol, row0, col0, pad_ok=False, method=m))

    def blocking_stmt(ind):
        path = r.choice(["std::fs::read_to_string", "std::fs::write", "std::thread::sleep", "std::net::TcpStream::connect", "fs::read"])
        head = " " * ind + f"let {var()} = "
        if r.random() < 0.4:
            lines.extend([head + path + "(", " " * (ind + 4) + "arg,", " " * ind + ");"])
            cons.append(con("blocking", "", len(lines) - 3, len(head), pad_ok=False))
        else:
            lines.append(head + path + "(arg);")
            cons.append(con("blocking", "", len(lines) - 1, len(head), pad_ok=False))

    for _ in range(r.randint(1, 3)):
        is_async = r.random() < 0.5
        lines.append(("async fn " if is_async else "fn ") + f"f{len(lines)}(conf: C, data: D, opt: O, res: R) {{")
        for _ in range(r.randint(1, 4)):
            x = r.random()
            if x < 0.2:
                lines.append("    for i in 0..3 {")
                chain_stmt(8, True)
                lines.append("    }")
            elif x < 0.45 and is_async:
                blocking_stmt(4)
            else:
                chain_stmt(4, False)
        lines.append("}")
    doc = mk_doc("rs", "src/chains.rs", lines, cons, "rust")
    if r.random() < 0.45:
        t_exotic(doc, r)
    if r.random() < 0.5:
        t_vshift(doc, r)
    if r.random() < 0.3:
        t_wrap(doc, r)
    if r.random() < 0.2:
        t_crlf(doc, r)
    if r.random() < 0.25:
        t_nonl(doc, r)
    return {"id": f"rustchain{i}", "stream": "rust", "docs": [doc], "config": {}}


def s_rustmulti(seed, i):
    """several Rust files linted in ONE run (one Orchestrator, one rule instance per linter): per-file state of an analyzer
    must not leak into the next file's positions or quoted snippets"""
    r = rng_for(seed, PROP, "rustmulti", i)
    docs = []
    for j in range(r.choice([2, 3, 3])):
        c = s_rustchain(seed, 1000 * (i + 1) + j)
        d = c["docs"][0]
        d["name"] = f"src/m{j}_{'abc'[j]}.rs"
        docs.append(d)
    return {"id": f"rustmulti{i}", "stream": "rust", "docs": docs, "config": {}}


def s_dry(seed, i):
    from harness.props import c03, c03_gen
    from harness.props import c03_pymodel as pm
    r = rng_for(seed, PROP, "dry", i)
    proj = c03_gen.gen_project(r, "ord")
    docs = []
    voff = r.choice([0, 0, 2, 5])
    for f in sorted(proj["files"], key=lambda f: f["name"]):
        lines = [pm.render_line(f["lang"], l) for l in f["lines"]]
        cons = []
        for row, l in enumerate(f["lines"]):
            kind, indent, code, _cmt = l
            if kind != "D" and code.strip():
                cons.append(con("dry", "", row, len(indent)))
        d = mk_doc(f["lang"], f["name"], lines, cons, "dry")
        if voff:
            insert_lines(d, 0, [f"{CM[f['lang']]} pad {j}" if j % 2 == 0 else "" for j in range(voff)])
            d["tags"].append("vshift")
        if r.random() < 0.25:
            t_exotic(d, r, strings=False)
        docs.append(d)
    x = r.random()
    for d in docs:
        if x < 0.2:
            t_crlf(d, r)
        elif x < 0.4:
            t_nonl(d, r)
    return {"id": f"dry{i}", "stream": "dry", "docs": docs, "config": c03.dry_config({"W": proj["W"], "k": proj["k"]})}


CONST_POOL = ["MAX_RETRY_COUNT", "RETRY_BACKOFF_MS", "REQUEST_TIMEOUT_MS", "DEFAULT_PAGE_SIZE", "CACHE_TTL_SECONDS", "LISTEN_PORT",
              "IDLE_TIMEOUT_SECONDS", "MAX_POOL_CONNECTIONS", "BUFFER_BYTES", "API_VERSION_TAG"]


def _const_file(r, lang, name, shared, own, pad=0):
    """a module declaring constants: TS/JS in multi-line, multi-declarator `const A = 1,` / `  B = 2;` statements (with and
    without `export`, blank lines between declarators), Python with plain, annotated and parenthesised multi-line assignments"""
    names = list(shared) + list(own)
    r.shuffle(names)
    lines, cons = [f"{CM[lang]} settings of {name}"] + [""] * pad, []
    b = "dry.constant.py" if lang == "py" else "dry.constant.ts"
    val = {n: (abs(hash(n)) % 9000 + 10) if False else 10 + 7 * CONST_POOL.index(n) if n in CONST_POOL else 1 for n in names}
    if lang == "py":
        for n in names:
            form = r.choice(["plain", "plain", "ann", "paren"])
            if form == "plain":
                lines.append(f"{n} = {val[n]}")
                cons.append(con(b, n, len(lines) - 1, 0))
            elif form == "ann":
                lines.append(f"{n}: int = {val[n]}")
                cons.append(con(b, n, len(lines) - 1, 0))
            else:
                lines.extend([f"{n} = (", f"    {val[n]}", ")"])
                cons.append(con(b, n, len(lines) - 3, 0))
            if r.random() < 0.3:
                lines.append("")
        lines.extend(["", "def describe():", "    return 0"])
    else:
        i = 0
        while i < len(names):
            k = r.choice([1, 2, 3, 3])
            grp = names[i:i + k]
            i += k
            head = r.choice(["const ", "export const "])
            for j, n in enumerate(grp):
                last = j == len(grp) - 1
                if j == 0:
                    lines.append(f"{head}{n} = {val[n]}" + (";" if last else ","))
                    cons.append(con(b, n, len(lines) - 1, len(head)))
                else:
                    if r.random() < 0.3:
                        lines.append("")
                    lines.append(f"  {n} = {val[n]}" + (";" if last else ","))
                    cons.append(con(b, n, len(lines) - 1, 2))
            if r.random() < 0.4:
                lines.append("")
        lines.extend(["", "function describe() {", "  return 0;", "}"])
    for c in cons:
        c["pad_ok"] = False
    return lines, cons


def s_dryconst(seed, i):
    """duplicate-CONSTANT findings of the DRY rule: the same constants declared in two or three modules"""
    r = rng_for(seed, PROP, "dryconst", i)
    lang = r.choice(["py", "ts", "ts", "js"])
    shared = r.sample(CONST_POOL, r.choice([1, 2, 3]))
    rest = [n for n in CONST_POOL if n not in shared]
    docs = []
    for j in range(r.choice([2, 2, 3])):
        own = r.sample(rest, r.choice([0, 1, 2]))
        lines, cons = _const_file(r, lang, f"mod{j}", shared, own, pad=r.choice([0, 0, 2, 5]))
        d = mk_doc(lang, f"app/mod{j}_{'xyz'[j]}" + EXT[lang], lines, cons, "dryconst")
        if r.random() < 0.25:
            t_exotic(d, r, strings=False)
        if r.random() < 0.2:
            t_crlf(d, r)
        if r.random() < 0.2:
            t_nonl(d, r)
        docs.append(d)
    return {"id": f"dryconst{i}", "stream": "dryconst", "docs": docs, "config": {"dry": {"enabled": True, "min_duplicate_lines": 4}}}


def s_history(seed, i):
    """a long-lived Linter (src.api.Linter) lints a project, files are shortened / deleted, it lints again: every violation of the
    LAST run must name a file of that run and a line of that file as it is now (cross-file rules: DRY code and constants)"""
    r = rng_for(seed, PROP, "history", i)
    lang = r.choice(["py", "py", "ts"])
    shared = r.sample(CONST_POOL, r.choice([2, 3]))
    block = (["def shared_work(a, b):", "    total = a + b", "    total = total * 2", "    total = total - 1", "    total = total + b", "    return total"] if lang == "py"
             else ["function sharedWork(a, b) {", "  let total = a + b;", "  total = total * 2;", "  total = total - 1;", "  total = total + b;", "  return total;", "}"])
    v1, v2 = [], []
    for j in range(3):
        name = f"settings/part{j}_{'pqr'[j]}" + EXT[lang]
        lines, cons = _const_file(r, lang, f"part{j}", shared, [], pad=r.choice([6, 9, 12]) if j == 0 else r.choice([0, 1]))
        d1 = mk_doc(lang, name, lines + [""] + block, [], "history")
        v1.append(d1)
        if j == 0:      # rewritten much shorter: its constants move up, the duplicated block disappears
            l2, c2 = _const_file(r, lang, f"part{j}", shared[:1], [], pad=0)
            v2.append(mk_doc(lang, name, l2, c2, "history"))
        elif j == 1:
            d2 = mk_doc(lang, name, lines + [""] + block, cons, "history")
            v2.append(d2)
        # j == 2: deleted before the second run
    return {"id": f"history{i}", "stream": "history", "docs": v2, "steps": [v1, v2], "config": {"dry": {"enabled": True, "min_duplicate_lines": 4}}}


def _dry_norm(line: str) -> str:
    """normalize_line of the DRY token hasher (comment markers cut where they stand, whitespace collapsed) - only used to compare
    the first lines of two occurrences the implementation itself declared equal"""
    for m in ("#", "//"):
        if m in line:
            line = line[: line.index(m)]
    return " ".join(line.split())


CONSOLE = ["log", "warn", "error", "debug", "info"]


def s_print(seed, i):
    """print / console calls at arbitrary depth and column, multi-line argument lists, calls inside expressions,
    `builtins.print`, method chains broken over lines"""
    r = rng_for(seed, PROP, "print", i)
    lang = r.choice(["py", "py", "ts", "js"])
    unit = r.choice([2, 4]) if lang != "py" else r.choice([4, 4, 2, 8])
    lines, cons = [], []
    n = [0]

    def var():
        n[0] += 1
        return f"v{n[0]}"

    def call(level):
        ind = " " * (unit * level)
        form = r.choice(["plain", "plain", "multi", "expr", "qualified", "chain"])
        if lang == "py":
            if form == "plain":
                lines.append(f"{ind}print({var()})")
                cons.append(con("print.py", "", len(lines) - 1, len(ind)))
            elif form == "multi":
                lines.extend([f"{ind}print(", f"{ind}    {var()},", f"{ind}    sep='',", f"{ind})"])
                cons.append(con("print.py", "", len(lines) - 4, len(ind)))
            elif form == "expr":
                head = f"{ind}{var()} = [0, "
                lines.append(head + f"print({var()})]")
                cons.append(con("print.py", "", len(lines) - 1, len(head)))
            elif form == "qualified":
                lines.append(f"{ind}builtins.print({var()})")
                cons.append(con("print.py", "", len(lines) - 1, len(ind)))
            else:
                head = f"{ind}{var()} = ("
                lines.extend([head, f"{ind}    print({var()})", f"{ind})"])
                cons.append(con("print.py", "", len(lines) - 2, len(ind) + 4))
        else:
            b = "print.ts"
            m = r.choice(CONSOLE)
            if form in ("plain", "qualified"):
                lines.append(f"{ind}console.{m}({var()});")
                cons.append(con(b, m, len(lines) - 1, len(ind)))
            elif form == "multi":
                lines.extend([f"{ind}console.{m}(", f"{ind}  {var()},", f"{ind});"])
                cons.append(con(b, m, len(lines) - 3, len(ind)))
            elif form == "expr":
                head = f"{ind}const {var()} = [0, "
                lines.append(head + f"console.{m}({var()})];")
                cons.append(con(b, m, len(lines) - 1, len(head)))
            else:   # the member access is broken over two lines: `console` / `.log(...)`
                lines.extend([f"{ind}console", f"{ind}  .{m}({var()});"])
                cons.append(con(b, m, len(lines) - 1, len(ind) + 3, len(lines) - 2, len(ind)))

    def block(level, depth):
        for _ in range(r.randint(1, 3)):
            x = r.random()
            ind = " " * (unit * level)
            if x < 0.45 or depth <= 0:
                call(level)
            elif x < 0.6:
                lines.append(f"{ind}{var()} = 1" if lang == "py" else f"{ind}let {var()} = 1;")
            elif lang == "py":
                lines.append(ind + r.choice([f"if {var()}:", f"for i in {var()}:", f"while {var()}:", f"def f{len(lines)}():", f"class K{len(lines)}:"]))
                block(level + 1, depth - 1)
            else:
                lines.append(ind + r.choice([f"if ({var()}) {{", f"for (const k of {var()}) {{", f"function f{len(lines)}() {{"]))
                block(level + 1, depth - 1)
                lines.append(ind + "}")
    if lang == "py":
        lines.append("import builtins")
    block(0, r.choice([0, 1, 2, 3]))
    if not cons:
        call(0)
    doc = mk_doc(lang, "src/case" + EXT[lang], lines, cons, "print")
    for c in cons:
        c["pad_ok"] = False
    if r.random() < 0.35:
        t_exotic(doc, r)
    if r.random() < 0.5:
        t_vshift(doc, r)
    if r.random() < 0.3:
        t_wrap(doc, r)
    if r.random() < 0.2:
        t_crlf(doc, r)
    if r.random() < 0.25:
        t_nonl(doc, r)
    return {"id": f"print{i}", "stream": "print", "docs": [doc], "config": {}}


def s_cqsts(seed, i):
    """CQS on TypeScript / JavaScript: functions that mix a query (`const d = load(x)`) with a command (`save(d)`) as function declarations
    (plain / async / exported), arrow functions and function expressions bound to a const, and class methods - at random indentation;
    arrow declarations are broken after `=` as formatters do; then the position-only layouts"""
    r = rng_for(seed, PROP, "cqsts", i)
    lang = r.choice(["ts", "ts", "js"])
    ann = (lambda t: ": " + t) if lang == "ts" else (lambda t: "")
    lines, cons = [], []
    names = r.sample(["fetchAndStore", "loadThenSave", "g", "refreshCache", "syncUser", "pullAndPush", "readWrite", "touchAll"], r.choice([1, 2, 3, 4]))
    in_class = []
    for n in names:
        kind = r.choice(["decl", "decl", "async", "export", "arrow", "arrow", "arrow", "fexpr", "method"])
        if kind == "method":
            in_class.append(n)
            continue
        body = [f"  const data = load{r.choice(['', 'Data', 'Row'])}(id);", f"  save{r.choice(['', 'Data', 'Row'])}(data);", "  return data;"]
        row = len(lines)
        if kind in ("decl", "async", "export"):
            pre = {"decl": "", "async": "async ", "export": "export "}[kind]
            lines.append(f"{pre}function {n}(id{ann('string')}) {{")
            hcol = len("export ") if kind == "export" else 0
            cons.append(con("cqs.ts", n, row, hcol, fkind="FDef", pad_ok=(kind != "export")))
            lines += body + ["}"]
        elif kind == "arrow":
            head = f"const {n} = "
            lines.append(f"{head}(id{ann('string')}) => {{")
            cons.append(con("cqs.ts", n, row, len(head), fkind="FArrow", pad_ok=True))
            lines += body + ["};"]
        else:
            head = f"const {n} = "
            lines.append(f"{head}function (id{ann('string')}) {{")
            cons.append(con("cqs.ts", n, row, len(head), fkind="FExpr", pad_ok=True))
            lines += body + ["};"]
        if r.random() < 0.5:
            lines.append("")
    if in_class:
        lines.append(f"class Store{i} {{")
        for n in in_class:
            mod = r.choice(["", "", "async ", "static "])
            row = len(lines)
            lines.append(f"  {mod}{n}(id{ann('string')}) {{")
            cons.append(con("cqs.ts", n, row, 2, fkind="FMethod", pad_ok=True))
            lines += ["    const data = this.load(id);", "    this.save(data);", "    return data;", "  }"]
        lines.append("}")
    doc = mk_doc(lang, "src/store" + EXT[lang], lines, cons, "cqsts")
    _break_arrow_declarations(doc, r)
    layout(doc, r, wrap_ok=(not any(l.startswith("export ") for l in lines)), light=True)
    return {"id": f"cqsts{i}", "stream": "cqsts", "docs": [doc], "config": {}}


TEMPORAL = ["currently", "recently", "will be", "soon", "formerly", "planned"]


def s_header(seed, i):
    """file-header linter: a Python module docstring header with all mandatory fields but a temporal phrase at a known
    line; comment / blank lines in front of the docstring; files whose first line is empty"""
    r = rng_for(seed, PROP, "header", i)
    pre = r.choice([[], [], ["#!/usr/bin/env python3"], ["# coding: utf-8", ""], [""], ["", ""]])
    fields = ["Purpose: Parses things", "", "Scope: Parsing", "", "Overview: Reads input and parses it.", "",
              "Dependencies: none", "", "Exports: parse", "", "Interfaces: parse(text)", "", "Implementation: recursive descent"]
    phrase = r.choice(TEMPORAL)
    at = r.choice([j for j, f in enumerate(fields) if f])
    drop = r.random() < 0.3
    if drop:
        fields = [f for f in fields if not f.startswith("Scope")]
        at = min(at, len(fields) - 1)
        while not fields[at]:
            at -= 1
    fields[at] = fields[at] + f" It {phrase} works."
    lines = pre + ['"""'] + fields + ['"""', "", "def parse(text):", "    return text"]
    hrow = len(pre) + 1 + at
    cons = [con("file-header.atemporal", phrase, hrow, lines[hrow].find(phrase), at, 0),
            con("file-header.missing", "", 0, 0)]
    doc = mk_doc("py", "src/parser_mod.py", lines, cons, "header")
    if r.random() < 0.2:
        t_crlf(doc, r)
    if r.random() < 0.2:
        t_nonl(doc, r)
    return {"id": f"header{i}", "stream": "header", "docs": [doc], "config": {}}


def s_filelevel(seed, i):
    """file-placement (line 1, column 0 by construction) and file-header on empty and one-line files"""
    r = rng_for(seed, PROP, "filelevel", i)
    content = r.choice(["", "", "\n", "x = 1\n", "x = 1", "\n\nx = 1\n"])
    name = r.choice(["src/debug_dump.tmp", "src/notes.txt", "scratch/tmpfile.py", "src/empty_module.py"])
    lines = file_lines(content)
    cons = [con("file-placement", "", 0, 0), con("file-header.missing", "", 0, 0)]
    doc = mk_doc("py" if name.endswith(".py") else "txt", name, lines, cons, "filelevel")
    doc["raw"] = content
    cfg = {"file-placement": {"global_deny": [{"pattern": r".*\.tmp$", "reason": "no temporary files"}, {"pattern": r"^scratch/", "reason": "no scratch"}],
                              "directories": {"src": {"allow": [r".*\.py$"]}}}}
    return {"id": f"filelevel{i}", "stream": "filelevel", "docs": [doc], "config": cfg}


# ---------------------------------------------------------------------- documented examples (every linter)
def docs_cases(seed, variants):
    from translator import docs2cases
    from harness.props import c19
    ext = docs2cases.extract()
    out = []
    for n, ex in enumerate(ext["examples"]):
        files = c19.frag_files(ex)
        for vname in variants:
            r = rng_for(seed, PROP, "docs", ex["id"], vname)
            docs = []
            for f in files:
                d = mk_doc(ex["lang"], f["name"], f["code"].split("\n")[:-1] if f["code"].endswith("\n") else f["code"].split("\n"), [], "docs")
                for step in vname.split("+"):
                    if d is None:
                        break
                    if step == "vshift":
                        t_vshift(d, r)
                    elif step == "wrap":
                        before = len(d["tags"])
                        t_wrap(d, r)
                        if len(d["tags"]) == before:
                            d = None
                    elif step == "deco":
                        before = len(d["tags"])
                        t_deco_text(d, r)
                        if len(d["tags"]) == before:
                            d = None
                    elif step == "crlf":
                        t_crlf(d, r)
                    elif step == "nonl":
                        t_nonl(d, r)
                    elif step == "exotic":
                        t_exotic(d, r, strings=(ex["linter"] not in ("file-header", "lazy-ignores", "dry", "stringly-typed")))
                if d is None:
                    docs = None
                    break
                docs.append(d)
            if docs:
                out.append({"id": f"docs:{ex['id']}:{vname}", "stream": "docs:" + ex["linter"], "docs": docs, "config": ex.get("config") or {},
                            "doc_ref": f"{ex['doc']}:{ex['doc_line']}"})
    return out, ext


# ====================================================================== running the implementation
def run_case(case):
    """lint every file of the case (in-process; case['via'] == 'cli' additionally through the CLI with json and sarif)"""
    if case.get("steps"):
        return run_history(case)
    with scratch_dir("tv-c12-") as d:
        paths, texts = [], {}
        for doc in case["docs"]:
            p = d / doc["name"]
            p.parent.mkdir(parents=True, exist_ok=True)
            raw = doc.get("raw")
            text = raw if raw is not None else doc_text(doc)
            p.write_bytes(text.encode("utf-8"))
            paths.append(p)
            texts[doc["name"]] = text
        out = {"v": [], "failures": [], "texts": texts}
        try:
            o = make_orchestrator(d, copy.deepcopy(case["config"]))
            vs = o.lint_files(paths)
        except Exception as e:  # noqa: BLE001
            out["error"] = f"{type(e).__name__}: {e}"
            out["failures"] = drain_failures()
            return out
        roots = sorted({str(d) + "/", str(d.resolve()) + "/"}, key=len, reverse=True)
        for v in vs:
            msg = v.message
            for root in roots:      # DRY quotes absolute paths of the other occurrences: make them project-relative
                msg = msg.replace(root, "")
            out["v"].append([v.rule_id, _rel(v.file_path, d), v.line, v.column, msg])
        out["failures"] = drain_failures()
        if case["stream"] == "lazy":
            try:
                out["lazy"] = {doc["name"]: c12_lazy.detector_views(p) for doc, p in zip(case["docs"], paths)}
            except Exception as e:  # noqa: BLE001 - the scanners changed shape: visible as a broken correspondence
                out["lazy_error"] = f"{type(e).__name__}: {e}"
        if case.get("via") == "cli":
            out["cli"] = _run_cli_views(case, d, paths)
        return out


def run_history(case):
    """one Linter object, several runs over a changing project; the violations and file contents of the LAST run are returned"""
    import yaml
    from harness.common import ensure_repo_on_path, install_failure_tap
    ensure_repo_on_path()
    install_failure_tap()
    from src.api import Linter
    with scratch_dir("tv-c12h-") as d:
        (d / ".thailint.yaml").write_text(yaml.safe_dump(case["config"]))
        out = {"v": [], "failures": [], "texts": {}}
        try:
            linter = Linter(project_root=str(d))
            vs = []
            for step in case["steps"]:
                keep = set()
                for doc in step:
                    p = d / doc["name"]
                    p.parent.mkdir(parents=True, exist_ok=True)
                    p.write_bytes(doc_text(doc).encode("utf-8"))
                    keep.add(p)
                for p in list(d.rglob("*")):
                    if p.is_file() and p.name != ".thailint.yaml" and p not in keep:
                        p.unlink()
                out["texts"] = {doc["name"]: doc_text(doc) for doc in step}
                target = d / Path(step[0]["name"]).parts[0]
                vs = linter.lint(str(target))
        except Exception as e:  # noqa: BLE001
            out["error"] = f"{type(e).__name__}: {e}"
            out["failures"] = drain_failures()
            return out
        roots = sorted({str(d) + "/", str(d.resolve()) + "/"}, key=len, reverse=True)
        for v in vs:
            msg = v.message
            for root in roots:
                msg = msg.replace(root, "")
            out["v"].append([v.rule_id, _rel(v.file_path, d), v.line, v.column, msg])
        out["failures"] = drain_failures()
        return out


def _rel(fp, d: Path) -> str:
    try:
        return str(Path(fp).resolve().relative_to(d.resolve()))
    except (ValueError, OSError):
        return str(fp)


def _run_cli_views(case, d: Path, paths):
    import yaml
    cfgp = d / "tv-config.yaml"
    cfgp.write_text(yaml.safe_dump(case["config"] or {}))
    views = {}
    for fmt in ("json", "sarif"):
        rc, so, se = run_cli([case["cmd"], "--format", fmt, "--config", str(cfgp), *[str(p) for p in paths]], cwd=d)
        if rc not in (0, 1):
            views[fmt] = {"error": f"rc={rc} stderr={se[-300:]}"}
            continue
        if fmt == "json":
            vs = parse_json_violations(so)
            views[fmt] = {"error": "unparsable json"} if vs is None else {"v": [[v["rule_id"], _rel(v["file_path"], d), v["line"], v["column"], v["message"]] for v in vs]}
        else:
            try:
                docj = json.loads(so[so.find("{"):])
                res = []
                for run in docj["runs"]:
                    for x in run["results"]:
                        loc = x["locations"][0]["physicalLocation"]
                        res.append([x["ruleId"], _rel(loc["artifactLocation"]["uri"], d), loc["region"]["startLine"], loc["region"]["startColumn"], x["message"]["text"]])
                views[fmt] = {"v": res}
            except (ValueError, KeyError, IndexError) as e:
                views[fmt] = {"error": f"unparsable sarif: {e}"}
    return views


# ====================================================================== canonicalising reports
_msg_res = None


def msg_regexes():
    """message formats read from the source (translator/items_loc.py, fail-closed) as regexes with named groups"""
    global _msg_res
    if _msg_res is None:
        from translator import items_loc
        res = {}
        for name, parts in items_loc.message_rows():
            pat, seen = "", {}
            for kind, v in parts:
                if kind == "lit":
                    pat += re.escape(v)
                else:
                    g = re.sub(r"\W", "_", v).strip("_")
                    if g in seen:
                        pat += f"(?P={g})"
                    else:
                        seen[g] = True
                        pat += f"(?P<{g}>.*?)"
            res[name] = re.compile("^" + pat + "$", re.S)
        _msg_res = res
    return _msg_res


IDENT = re.compile(r"[A-Za-z_][A-Za-z_0-9]*")
PY_KEYWORDS = {"in", "is", "not", "None", "and", "or", "if", "len", "hasattr", "isinstance", "True", "False"}


def _idents(*exprs):
    out = []
    for e in exprs:
        for t in IDENT.findall(e or ""):
            if t not in PY_KEYWORDS and t not in out:
                out.append(t)
    return out


def _lang_of(name: str) -> str:
    for k, e in (("py", ".py"), ("ts", ".ts"), ("ts", ".tsx"), ("js", ".js"), ("js", ".jsx"), ("rs", ".rs")):
        if name.endswith(e):
            return k
    return "?"


def canon(rule: str, msg: str, fname: str, line_text: str):
    """(builder, key, quoted tokens that must occur on the reported line, header keywords one of which must occur on it)"""
    R = msg_regexes()
    lang = _lang_of(fname)
    lk = "ts" if lang == "js" else lang

    def m(name):
        return R[name].match(msg)
    if rule == "nesting.excessive-depth":
        mm = m("nesting." + lk) if "nesting." + lk in R else None
        if mm:
            name = mm.group(1)
            return f"nesting.{lk}", name, ([] if name in PLACEHOLDER_NAMES else [name]), []
    elif rule == "magic-numbers.numeric-literal":
        mm = m("magic." + lk) if "magic." + lk in R else None
        if mm:
            txt = mm.group(1)
            if txt in ("True", "False"):
                return f"magic.{lk}", txt, [txt if lang == "py" else txt.lower()], []
            try:
                val = int(txt, 0) if re.fullmatch(r"-?(\d+|0[xX][0-9a-fA-F]+)", txt) else float(txt)
            except ValueError:
                return f"magic.{lk}", "?", [txt], []
            spell = None
            for tk in NUM_TOKEN.finditer(line_text):
                tv = _token_value(tk.group(0))
                if tv is not None and (tv == val or tv == -val):
                    spell = tk.group(0)
                    break
            return f"magic.{lk}", _magic_key(abs(val) if not isinstance(val, bool) else val), [spell if spell is not None else txt], []
    elif rule == "srp.violation":
        mm = m("srp")
        if mm:
            name = mm.group(1)
            return f"srp.{lk}", name, ([] if name in PLACEHOLDER_NAMES else [name]), (["struct "] if lang == "rs" else ["class "])
    elif rule.startswith("unwrap-abuse."):
        mm = m("unwrap.unwrap") or m("unwrap.expect")
        if mm:
            return "unwrap", "", [mm.group("context")], []
    elif rule.startswith("clone-abuse."):
        mm = m("clone.loop") or m("clone.chain") or m("clone.unnecessary")
        if mm:
            return "clone", "", [mm.group("context")], []
    elif rule.startswith("blocking-async."):
        mm = m("blocking.fs") or m("blocking.sleep") or m("blocking.net")
        if mm:
            return "blocking", "", [mm.group("context")], []
    elif rule == "dry.duplicate-code":
        if m("dry") or R["dry"].match(msg.split(". Also found in: ")[0]):
            return "dry", "", [], []
        mm = re.match(r"^Duplicate constant '(.*?)' defined in ", msg, re.S)
        if mm:
            return "dry.constant." + ("py" if lang == "py" else "ts"), mm.group(1), [mm.group(1)], []
        mm = re.match(r"^Similar constants found: (.*?) in \d+ files\. ", msg, re.S)
        if mm:      # the constant of THIS location is one of the quoted names
            return "dry.constant.similar", "", [], re.findall(r"'([^']+)'", mm.group(1))
    elif rule == "improper-logging.print-statement":
        if lang == "py" and m("print.py"):
            return "print.py", "", ["print"], []
        mm = m("print.ts")
        if mm:
            return "print.ts", mm.group("method"), [mm.group("method")], []
    elif rule == "stateless-class.violation":
        mm = m("stateless")
        if mm:
            return "stateless", mm.group(1), [mm.group(1)], ["class "]
    elif rule == "method-property.should-be-property":
        for j in (3, 2, 1, 0):
            mm = m(f"method-property.{j}")
            if mm:
                return "", mm.group("method_name"), [mm.group("method_name")], ["def "]
    elif rule.startswith("lbyl."):
        mm = m(rule) if rule in R else None
        if mm:
            gd = mm.groupdict()
            primary = [gd.get(k) for k in ("key_expression", "dict_name", "object_name", "path_expression", "collection_name",
                                           "variable_name", "string_name", "divisor_name") if gd.get(k)]
            return "", "", _idents(*primary), ["if ", "elif ", "if("]
    elif rule == "cqs":
        mm = m("cqs")
        if mm:
            own = mm.group("full_name").split(".")[-1]
            return ("cqs." + lk if lk in ("py", "ts") else ""), own, ([] if own in PLACEHOLDER_NAMES else [own]), []
    elif rule == "performance.string-concat-loop":
        mm = m("performance.concat")
        if mm:
            return "", "", [mm.group("variable_name"), "+="], []
    elif rule == "performance.regex-in-loop":
        mm = m("performance.regex")
        if mm:
            return "", "", [mm.group("method_name").split(".")[-1]], []
    elif rule == "lazy-ignores.unjustified":
        mm = m("lazy.unjustified")
        if mm:
            return "", "", [mm.group("raw_text")], []
    elif rule == "lazy-ignores.orphaned":
        mm = m("lazy.orphaned")
        if mm:
            return "", "", [], []        # a header entry: the header line is reported; nothing is quoted from that line
    elif rule.startswith("stringly-typed."):
        vals = re.findall(r"'([^']+)'", msg.split(" Also ")[0])
        return "", "", [], vals
    elif rule.startswith("collection-pipeline."):
        mm = re.match(r"^For loop over '(.*?)' has ", msg, re.S)
        return "", "", (_idents(mm.group(1))[:1] if mm else []), ["for "]
    elif rule == "improper-logging.conditional-verbose":
        mm = re.search(r"around ([A-Za-z_.]+)\(\)", msg)
        return "", "", ([mm.group(1).split(".")[-1]] if mm else []), []
    elif rule == "file-header.validation":
        mm = m("file-header.atemporal")
        if mm:
            ph = re.search(r'"([^"]+)"', mm.group("description"))
            if ph:
                j = line_text.lower().find(ph.group(1).lower())
                return "file-header.atemporal", ph.group(1), [line_text[j:j + len(ph.group(1))] if j >= 0 else ph.group(1)], []
            return "file-header.atemporal", "", [], []
        if m("file-header.missing"):
            return "file-header.missing", "", [], []
        return "file-header.other", "", [], []
    elif rule == "file-placement":
        return "file-placement", "", [], []
    return None


# ====================================================================== Coq encoding
def sanitize(s: str) -> str:
    """byte-for-byte image with every byte outside printable ASCII replaced by `?` (lengths in bytes are kept)"""
    return "".join(chr(b) if 32 <= b < 127 else "?" for b in s.encode("utf-8"))


def cstr(s: str) -> str:
    return '"' + sanitize(s).replace('"', '""') + '"'


def coq_judge(lines, cons, reports) -> str:
    ls = coq.coq_list([cstr(l) for l in lines])
    cs = coq.coq_list([f"K {cstr(c['builder'])} {cstr(c['key'])} {c['hrow']} {c['hcol']} {c['nrow']} {c['ncol']}" for c in cons])
    rs = coq.coq_list([f"R {cstr(r['builder'])} {cstr(r['key'])} {r['line']} {r['col']} {coq.coq_list([cstr(q) for q in r['quoted']])} "
                       f"{coq.coq_list([cstr(h) for h in r['hdrs']])} {coq.coq_bool(r['recorded'])}" for r in reports])
    return f"Eval vm_compute in (judge loc_actual {ls} {cs} {rs})."


def _run_shard(args):
    path, th = args
    p = subprocess.run(["timeout", "600", "coqc", "-Q", str(th), "TL", "-w", "-notation-overridden,-abstract-large-number", str(path)],
                       capture_output=True, text=True, cwd=str(path.parent))
    return p.returncode, p.stdout, p.stderr


def eval_shards_th(workdir: Path, shards, th: Path, header: str = None):
    workdir.mkdir(parents=True, exist_ok=True)
    jobs = []
    for i, body in enumerate(shards):
        p = workdir / f"cases_{i}.v"
        p.write_text((header or HEADER) + "\n" + body + "\n")
        jobs.append((p, th))
    with ThreadPoolExecutor(max_workers=8) as ex:
        outs = list(ex.map(_run_shard, jobs))
    results = []
    for (rc, so, se), (p, _) in zip(outs, jobs):
        if rc != 0:
            raise RuntimeError(f"coqc failed on {p.name} (rc={rc}): {se[-1500:]}")
        results.append(coq.parse_nat_lists(so))
    return results


JUDGE_CONE = [("Model", "LocTypes.v"), ("Gen", "LocGen.v"), ("Model", "Loc.v"), ("Model", "LocRun.v"), ("Actual", "LocActual.v")]


PAT_CONE = JUDGE_CONE + [("Gen", "LocPatGen.v"), ("Model", "Embed.v"), ("Model", "LocPat.v")]


def recorded_layer_theories(dst: Path, cone=None) -> Path | None:
    """When the current generated layer (or the model on top of it) no longer builds, the judge can still be run with the
    generated layer recorded for the unchanged tree (coq/Gen.expected/Loc*Gen.v.txt).  This discharges nothing (the run is already
    failed by the broken obligation); it only lets the search exhibit a concrete input on which the changed implementation
    reports a wrong location."""
    cone = cone or JUDGE_CONE
    th = dst / "theories"
    for sub in ("Lib", "Model", "Gen", "Actual"):
        (th / sub).mkdir(parents=True, exist_ok=True)
    for f in (coq.TH / "Lib").glob("*.vo"):
        shutil.copy(f, th / "Lib" / f.name)
    for sub, name in cone:
        if sub == "Gen":
            snap = coq.COQ / "Gen.expected" / (name + ".txt")
            if not snap.exists():
                return None
            (th / sub / name).write_text(snap.read_text())
        else:
            shutil.copy(coq.TH / sub / name, th / sub / name)
        p = subprocess.run(["timeout", "300", "coqc", "-Q", str(th), "TL", "-w", "-notation-overridden", str(th / sub / name)],
                           capture_output=True, text=True, cwd=str(dst))
        if p.returncode != 0:
            return None
    return th


# ====================================================================== pattern-linter models (Model/LocPat.v)
PAT_RULES = {"lbyl.": "lbyl", "method-property.": "method-property", "stateless-class.": "stateless-class", "collection-pipeline.": "collection-pipeline",
             "cqs": "cqs", "performance.string-concat-loop": "perf-concat", "performance.regex-in-loop": "perf-regex"}
PAT_NODE_CLASSES = ("If", "For", "AsyncFor", "While", "FunctionDef", "AsyncFunctionDef", "ClassDef", "With", "Try", "Match", "AugAssign", "Assign", "Call", "Return")


def py_nodes_term(text: str):
    """statement-level nodes of the REAL parse tree (parser oracle) as leaves of Model/Embed.v: class, lineno, col_offset, name"""
    import ast as pyast
    try:
        tree = pyast.parse(text)
    except (SyntaxError, ValueError):
        return None
    out = []
    for n in pyast.walk(tree):
        cls = type(n).__name__
        if cls in PAT_NODE_CLASSES and hasattr(n, "lineno"):
            out.append(f"PN {cstr(cls)} {n.lineno} {n.col_offset} {cstr(getattr(n, 'name', '') or '')}")
    return coq.coq_list(out)


def pat_name(linter: str, msg: str) -> str:
    R = msg_regexes()
    if linter == "method-property":
        for j in (3, 2, 1, 0):
            mm = R[f"method-property.{j}"].match(msg)
            if mm:
                return mm.group(1)
    if linter == "stateless-class":
        mm = R["stateless"].match(msg)
        if mm:
            return mm.group(1)
    if linter == "cqs":
        mm = R["cqs"].match(msg)
        if mm:
            return mm.group(1).split(".")[-1]
    return ""


_ts_parser = None


def ts_tree_term(text: str, limit=1500):
    """image of the tree-sitter tree (TypeScript grammar, as the analyzers use for .ts and .js): named nodes only, text kept for
    identifier / property_identifier leaves"""
    global _ts_parser
    if _ts_parser is None:
        import tree_sitter_typescript as tst
        from tree_sitter import Language, Parser
        _ts_parser = Parser(Language(tst.language_typescript()))
    root = _ts_parser.parse(text.encode("utf-8")).root_node
    count = [0]

    def conv(n):
        count[0] += 1
        if count[0] > limit:
            raise OverflowError
        kids = [conv(c) for c in n.children if c.is_named]
        txt = n.text.decode("utf-8", "replace") if n.type in ("identifier", "property_identifier") and n.text is not None else ""
        return f"TN {cstr(n.type)} {n.start_point[0]} {n.start_point[1]} {cstr(txt)} {coq.coq_list(kids)}"
    try:
        return conv(root)
    except (OverflowError, RecursionError):
        return None


def pattern_jobs(cases, impls, markers):
    """(kind, payload, Coq command) for every file the pattern models can judge"""
    jobs = []
    for ci, (case, im) in enumerate(zip(cases, impls)):
        if "error" in im:
            continue
        for doc in case["docs"]:
            rel = doc["name"]
            text = im["texts"].get(rel)
            if text is None:
                continue
            vs = [v for v in im["v"] if v[1] == rel]
            if doc["lang"] == "py":
                by = {}
                for rule, _f, line, col, msg in vs:
                    for pre, linter in PAT_RULES.items():
                        if (rule.startswith(pre) if pre.endswith(".") else rule == pre) and isinstance(line, int) and isinstance(col, int) and line >= 0 and col >= 0:
                            by.setdefault(linter, []).append((line, col, pat_name(linter, msg), rule, msg))
                if by:
                    nodes = py_nodes_term(text)
                    if nodes is None:
                        continue
                    for linter, reps in by.items():
                        rs = coq.coq_list([f"({l}, {c}, {cstr(n)})" for l, c, n, _r, _m in reps])
                        jobs.append(("pat", ci, rel, reps, f"Eval vm_compute in (judge_pat {cstr(linter)} {nodes} {rs})."))
            elif doc["lang"] in ("ts", "js") and "console" in text:
                if any(m in "/" + rel for m in markers) or re.search(r"thailint|noqa|eslint-disable|@ts-ignore", text):
                    continue
                tree = ts_tree_term(text)
                if tree is None:
                    continue
                mine = []
                for rule, _f, line, col, msg in vs:
                    if rule == "improper-logging.print-statement":
                        mm = msg_regexes()["print.ts"].match(msg)
                        mine.append((line, col, mm.group(1) if mm else "?"))
                rs = coq.coq_list([f"({l}, {c}, {cstr(m)})" for l, c, m in mine])
                jobs.append(("console", ci, rel, mine, f"Eval vm_compute in (judge_console console_default_methods ({tree}) {rs})."))
    return jobs


# ====================================================================== decision
def classify_unmodelled(rep, lines, cons=()):
    """deviation class of a failing report that the builder model does not explain (documented examples, file-level
    violations, misread literals): a precise key or None"""
    rule, line, col = rep["rule"], rep["line"], rep["col"]
    n = len(lines)
    if rep.get("sl_differs") and rep.get("sl_text") is not None and (rep["quoted"] or rep["hdrs"]) and not rep["recorded"]:
        # the file holds characters str.splitlines() splits at (form feed, VT, FS/GS/RS, NEL, U+2028/9) and the violation is
        # numbered in THAT line list: everything quoted stands on line `line` of text.splitlines(), not of the file
        t = sanitize(rep["sl_text"])
        if all(sanitize(q) in t for q in rep["quoted"]) and (not rep["hdrs"] or any(sanitize(h) in t for h in rep["hdrs"])) \
                and col <= len(rep["sl_text"].encode("utf-8")):
            return "splitlines_numbering[" + rule.split(".")[0] + "]"
    if rule in ("file-placement", "file-header.validation") and n == 0 and line == 1 and col in (0, 1):
        return "file_level_empty_file"
    if not (1 <= line <= n):
        if rep["builder"] == "file-header.atemporal" and not rep["recorded"]:
            return "q_fh_header_relative"
        return None
    lt = lines[line - 1]
    blt = len(lt.encode("utf-8"))
    if rep["builder"] == "file-header.atemporal" and not rep["recorded"]:
        # the phrase stands on another line: the violation is numbered inside the header text
        ph = rep["key"]
        elsewhere = bool(ph) and ph.lower() not in lt.lower() and any(ph.lower() in l.lower() for l in lines)
        if elsewhere or not ph:
            return "q_fh_header_relative" if col <= blt else "q_fh_header_relative+q_col_const_unclamped"
    if rule == "file-header.validation" and not rep["recorded"] and col == 1 and blt == 0:
        return "q_col_const_unclamped"
    if rep["builder"] == "magic.rs" and rep["recorded"] and col <= blt:
        # C02's q_rs_hex_suffix_clash seen from C12: 0x1f32 is read as 0x1, the message names a value that is not on the line
        for c in cons:
            if c["builder"] == "magic.rs" and c["hrow"] == line - 1:
                mm = re.fullmatch(r"(0[xX][0-9a-fA-F_]*?)_?(f32|f64)", c.get("spell", ""))
                if mm and len(mm.group(1)) > 2:
                    try:
                        if _magic_key(int(mm.group(1).replace("_", ""), 16)) == rep["key"]:
                            return "magic_rs_hex_suffix_misread"
                    except ValueError:
                        pass
    return None


def run(tier: str, seed: int, replay: str | None = None) -> int:
    chk = Check(PROP, tier, seed)
    chk.rule = ("generated programs of every modelled linter (generators of C01/C02/C03/C16/C17 and a print / console generator) laid out with "
                "random vertical and horizontal offsets, blank / comment lines in front of constructs, decorators / attributes, multi-line headers, "
                "CRLF, no final newline, characters str.splitlines() splits at (FF, VT, FS/GS/RS, NEL, U+2028/9) in comments, string literals and as page breaks; "
                "several Rust files in one run; duplicate-constant projects (Python, TS/JS multi-line multi-declarator const statements); CQS-violating TypeScript / JavaScript functions "
                "(declarations, arrow functions / function expressions bound to a const - also broken after `=` -, class methods); histories with one "
                "long-lived Linter (lint, shorten / delete files, lint again: the last run is judged); lazy-ignores text files (directives and pytest skips inside / outside "
                "triple-quoted regions, string literals, both quote styles, escaped quotes, exotic line boundaries: the two scanners are compared with their model, list equality); every documented example of every CLI linter under position-only layouts (as is, shifted down, wrapped "
                "in a block, CRLF, no final newline, decorators in front of Python def / class headers); generated file headers and file-level cases (empty files); each file is linted with "
                "every rule (in-process Orchestrator; a fraction through the CLI as JSON and SARIF) and every reported violation is judged in "
                "Coq against the property and the builder model; a case is non-trivial when it yields at least one judged violation; distinct = "
                "distinct (stream, rendered files)")
    chk.trusted_base += [
        "parser positions (CPython ast lineno / col_offset, tree-sitter start_point) are an ORACLE: the proofs are about models whose inputs carry "
        "recorded header positions; that the real parsers report those positions for the rendered text is validated by this run, not proved",
        "harness renderers and the layout transformations of harness/props/c12.py (their bookkeeping scheme is proved in Proofs/LocRender.v, the Python code is not)",
        "the message canonicaliser (regexes built from the message f-strings read from the source; which quoted token is the construct's own name is a hand-written table)",
        "columns are compared in bytes (CPython col_offset and tree-sitter columns are UTF-8 byte offsets)",
        "which constructs a linter flags is out of scope here (C01/C02/C03/C16/C17/C19): every reported violation is judged, a missing one is not noticed",
    ]
    res = chk.build(["theories/Props/C12.v"], ["LocGen", "LocPatGen", "LocLazyGen", "LocTsPatGen"], known_v=["theories/Props/C12Known.v"])
    judge_built = all(f"theories/{sub}/{name}" in res.compiled for sub, name in JUDGE_CONE)
    pat_built = judge_built and all(f in res.compiled for f in ("theories/Gen/LocPatGen.v", "theories/Model/LocPat.v"))
    tspat_built = judge_built and all(f"theories/{sub}/{name}" in res.compiled for sub, name in PAT_CONE + c12_tspat.TS_CONE_EXTRA)
    lazy_built = all(f"theories/{sub}/{name}" in res.compiled for sub, name in c12_lazy.LAZY_CONE)
    load_known_d(chk)
    scale = chk.budget_scale()
    q = 1 if tier == "quick" else 10
    counts = {"nesting": 60 * q, "magic": 45 * q, "srp": 45 * q, "rust": 60 * q, "rustchain": 30 * q, "rustmulti": 12 * q, "dryconst": 24 * q, "history": 8 * q, "dry": 16 * q, "print": 40 * q, "header": 14 * q, "filelevel": 10 * q, "lazy": 36 * q, "cqsts": 24 * q}
    gens = {"nesting": s_nesting, "magic": s_magic, "srp": s_srp, "rust": s_rust, "rustchain": s_rustchain, "rustmulti": s_rustmulti, "dryconst": s_dryconst, "history": s_history, "dry": s_dry, "print": s_print, "header": s_header, "filelevel": s_filelevel, "lazy": c12_lazy.s_lazy, "cqsts": s_cqsts}
    if replay:
        cases = [json.loads(Path(replay).read_text())["violation"]["case"]]
        ext = {"unparsable": [], "unknown_docs": []}
    else:
        cases = corpus_cases()
        for name, fn in gens.items():
            for i in range(counts[name] * scale):
                try:
                    cases.append(fn(seed, i))
                except Exception as e:  # noqa: BLE001 - a generator of another check changed shape: visible, not fatal
                    chk.notes.append(f"generator {name} #{i} failed: {type(e).__name__}: {e}")
                    chk.broken.append(f"Model:generator {name} raised {type(e).__name__}: {str(e)[:200]}")
                    break
        variants = ["base", "vshift", "wrap", "crlf", "nonl", "exotic", "deco"]
        if tier != "quick":
            variants += ["deco+vshift", "wrap+deco", "exotic+crlf", "wrap+exotic", "vshift+crlf", "wrap+vshift", "wrap+nonl", "vshift+nonl", "wrap+crlf", "vshift+vshift"]
        dcs, ext = docs_cases(seed, variants)
        cases += dcs
        if ext["unknown_docs"]:
            chk.notes.append("documents the example extractor does not know: " + ", ".join(ext["unknown_docs"]))
        # a fixed fraction through the CLI (JSON + SARIF views)
        ncli = 0
        for c in cases:
            cmd = CLI_OF_STREAM.get(c["stream"].split(":")[0] if not c["stream"].startswith("docs:") else "docs:" + c["stream"][5:])
            if cmd and ncli < (10 if tier == "quick" else 60) and rng_for(seed, PROP, "cli", c["id"]).random() < 0.04:
                c["via"], c["cmd"] = "cli", cmd
                ncli += 1
    impls = pool_map(run_case, cases, procs=8)
    # ---- canonicalise, group per file, judge in Coq
    jobs = []        # (case index, file name, lines, constructs, reports)
    for ci, (case, im) in enumerate(zip(cases, impls)):
        if "error" in im:
            continue
        by_doc = {d["name"]: d for d in case["docs"]}
        per_file = {}
        for rule, rel, line, col, msg in im["v"]:
            per_file.setdefault(rel, []).append((rule, line, col, msg))
        for rel, vs in per_file.items():
            if rel not in by_doc:
                chk.violation({"reason": "a violation names a file that was not part of the run", "file": rel, "violations": vs[:3], "case": slim(case)})
                continue
            doc = by_doc[rel]
            lines = file_lines(im["texts"][rel])
            builders_recorded = {c["builder"] for c in doc["cons"]}
            reps = []
            for rule, line, col, msg in vs:
                if SYNTAX_NOTICE.search(rule) or msg.startswith("Syntax error"):
                    chk.dist("excluded:syntax-error-notice")
                    continue
                if not isinstance(line, int) or not isinstance(col, int) or line < 0 or col < 0:
                    chk.violation({"reason": "line / column is not a non-negative integer", "violation": [rule, rel, line, col, msg], "case": slim(case)})
                    continue
                lt = lines[line - 1] if 1 <= line <= len(lines) else ""
                try:
                    cn = canon(rule, msg, rel, lt)
                except (IndexError, KeyError) as e:      # a message variable was renamed in the source: judged generically, visibly
                    cn = None
                    if not any(n.startswith(f"message format of {rule}") for n in chk.notes):
                        chk.notes.append(f"message format of {rule} changed shape ({type(e).__name__}: {e}): its quoted names are not checked in this run")
                if cn is None:
                    chk.dist("uncanonicalised:" + rule)
                    cn = ("", "", [], [])
                b, key, quoted, hdrs = cn
                recorded = b in builders_recorded and doc["stream"] != "docs"
                sl = im["texts"][rel].splitlines()
                reps.append({"rule": rule, "msg": msg, "sl_text": (sl[line - 1] if 1 <= line <= len(sl) else None), "sl_differs": len(sl) != len(lines), "builder": b, "key": key if recorded or b.startswith("file-header") else "", "line": line, "col": col,
                             "quoted": quoted, "hdrs": hdrs, "recorded": recorded})
            if reps:
                jobs.append((ci, rel, lines, doc["cons"], reps))
    verdicts = [None] * len(jobs)
    with scratch_dir("tv-c12-coq-") as wd:
        shards, index = [], []
        per = 25
        for s in range(0, len(jobs), per):
            chunk = list(range(s, min(len(jobs), s + per)))
            shards.append("\n".join(coq_judge(jobs[j][2], [c for c in jobs[j][3] if any(c["builder"] == r["builder"] for r in jobs[j][4])], jobs[j][4]) for j in chunk))
            index.append(chunk)
        try:
            th = coq.TH
            if not judge_built:
                th = recorded_layer_theories(wd / "recorded")
                if th is None:
                    raise RuntimeError("the judge does not build and no recorded generated layer is available")
                chk.notes.append("the judge was evaluated with the generated layer recorded for the unchanged tree (coq/Gen.expected/LocGen.v.txt): "
                                 "the current one no longer builds; this only serves to exhibit a failing input")
            outs = eval_shards_th(wd / "shards", shards, th)
            for chunk, out in zip(index, outs):
                if len(out) != len(chunk):
                    raise RuntimeError(f"expected {len(chunk)} results, got {len(out)}")
                for j, o in zip(chunk, out):
                    verdicts[j] = o
        except RuntimeError as e:
            chk.broken.append(f"Model:evaluation of the location model failed ({str(e)[:400]})")
    # ---- decide
    judged_cases = set()
    cand_all = None
    mismatches = []
    for (ci, rel, lines, cons, reps), ver in zip(jobs, verdicts):
        case = cases[ci]
        if ver is None:
            continue
        judged_cases.add(ci)
        for rep, bits in zip(reps, ver):
            bits = [bool(b) for b in bits]
            spec_ok, ideal_ok, cand = bits[0], bits[1], bits[2:]
            chk.traces_validated += 1
            chk.dist("rule:" + rep["rule"])
            if rep["recorded"]:
                chk.dist("judged-against-recorded-construct:" + rep["builder"])
                cand_all = cand if cand_all is None else [a and b for a, b in zip(cand_all, cand)]
            payload = {"file": rel, "violation": [rep["rule"], rel, rep["line"], rep["col"], rep["msg"][:300]],
                       "line_text": lines[rep["line"] - 1] if 1 <= rep["line"] <= len(lines) else None, "n_lines": len(lines)}
            if spec_ok:
                if rep["recorded"] and not cand[0]:
                    mismatches.append({"level": "observable", "detail": "the reported position satisfies the property but is not the position the builder model "
                                       "(line / column expressions read from the source) predicts under the claimed quirk vector", **payload, "case": slim(case)})
                continue
            if rep["recorded"]:
                relevant = [FLAGS[i] for i in range(len(FLAGS)) if not cand[1 + i]]
                if cand[0] and ideal_ok and relevant:
                    for k in relevant:
                        chk.known_finding(k, {**payload, "case": slim(case)})
                    continue
            key = classify_unmodelled(rep, lines, cons)
            if key:
                for k in key.split("+"):
                    chk.known_finding(k, {**payload, "case": slim(case)})
            elif rep["recorded"]:
                chk.violation({"reason": "a reported violation does not point at the recorded location of its construct", **payload,
                               "quoted": rep["quoted"], "model_actual_matches_impl": cand[0], "model_ideal_satisfies_property": ideal_ok, "case": slim(case)})
            else:
                chk.violation({"reason": "a reported violation violates the location property (line / column range, quoted name on the line, header keyword)",
                               **payload, "quoted": rep["quoted"], "header_keywords": rep["hdrs"], "case": slim(case)})
    # ---- Rust safety linters: the snippet quoted after the colon IS the text of the reported line (stripped)
    for ci, (case, im) in enumerate(zip(cases, impls)):
        if "error" in im:
            continue
        ftexts = {name: file_lines(t) for name, t in im["texts"].items()}
        for rule, rel, line, col, msg in im["v"]:
            if not rule.startswith(("unwrap-abuse.", "clone-abuse.", "blocking-async.")) or rel not in ftexts:
                continue
            cn = canon(rule, msg, rel, "")
            if not cn or not cn[2] or not (isinstance(line, int) and 1 <= line <= len(ftexts[rel])):
                continue
            chk.dist("rust-snippet:checked")
            if cn[2][0] != ftexts[rel][line - 1].strip():
                chk.violation({"reason": "the source snippet quoted in the message is not the text of the reported line",
                               "violation": [rule, rel, line, col, msg[:300]], "line_text": ftexts[rel][line - 1], "quoted": cn[2][0], "case": slim(case)})
    # ---- DRY: the reported line is the FIRST line of the block: its normalised text is the normalised text of the first
    #      line of every other occurrence the message names (occurrences are line-for-line equal after normalisation)
    for ci, (case, im) in enumerate(zip(cases, impls)):
        if "error" in im:
            continue
        ftexts = {name: file_lines(t) for name, t in im["texts"].items()}
        for rule, rel, line, col, msg in im["v"]:
            if rule != "dry.duplicate-code" or ". Also found in: " not in msg or not msg.startswith("Duplicate code (") or rel not in ftexts:
                continue
            mm = re.match(r"^Duplicate code \((\d+) lines, ", msg)
            mine = ftexts[rel]
            if not mm or not (1 <= line <= len(mine)):
                continue
            for part in msg.split(". Also found in: ", 1)[1].split(", "):
                pm_ = re.fullmatch(r"(.*):(\d+)-(\d+)", part, re.S)
                if not pm_ or pm_.group(1) not in ftexts:
                    chk.dist("dry-ref:unresolved")
                    continue
                other, st, en = ftexts[pm_.group(1)], int(pm_.group(2)), int(pm_.group(3))
                chk.dist("dry-ref:checked")
                if not (1 <= st <= en <= len(other)):
                    chk.violation({"reason": "DRY: a location named in the message lies outside its file", "violation": [rule, rel, line, col, msg[:300]], "case": slim(case)})
                elif _dry_norm(mine[line - 1]) != _dry_norm(other[st - 1]):
                    chk.violation({"reason": "DRY: the reported line is not the first line of the duplicated block (its code differs from the first line of the "
                                             "other occurrence named in the message)", "violation": [rule, rel, line, col, msg[:300]],
                                   "line_text": mine[line - 1], "other_first_line": other[st - 1], "case": slim(case)})
    # ---- pattern-linter models: Python detectors report the position of a node of the class read from the source (parse tree = oracle);
    #      the TypeScript console detector is modelled in full: model output = implementation output
    try:
        from translator import items_locpat
        markers = [x for x in re.findall(r'"([^"]*)"', items_locpat.console_test_markers())]
        pj = pattern_jobs(cases, impls, markers)
    except Exception as e:  # noqa: BLE001
        pj = []
        chk.broken.append(f"Model:pattern-linter jobs could not be built ({type(e).__name__}: {str(e)[:200]})")
    if pj:
        with scratch_dir("tv-c12-pat-") as wd:
            shards, index = [], []
            per = 20
            for s0 in range(0, len(pj), per):
                chunk = list(range(s0, min(len(pj), s0 + per)))
                shards.append("\n".join(pj[j][4] for j in chunk))
                index.append(chunk)
            try:
                pth = coq.TH
                if not pat_built:
                    pth = recorded_layer_theories(wd / "recorded", PAT_CONE)
                    if pth is None:
                        raise RuntimeError("the pattern-linter models do not build and no recorded generated layer is available")
                    chk.notes.append("the pattern-linter models were evaluated with the recorded generated layer (coq/Gen.expected/LocPatGen.v.txt)")
                outs = eval_shards_th(wd / "shards", shards, pth, PAT_HEADER)
                for chunk, out in zip(index, outs):
                    if len(out) != len(chunk):
                        raise RuntimeError(f"expected {len(chunk)} results, got {len(out)}")
                    for j, bits in zip(chunk, out):
                        kind, ci, rel, reps, _cmd = pj[j]
                        case = cases[ci]
                        if kind == "pat":
                            for (l, c, n, rule, msg), ok in zip(reps, bits):
                                chk.traces_validated += 1
                                chk.dist("pattern-model:" + rule.split(".")[0])
                                if not ok:
                                    chk.violation({"reason": "a pattern-linter violation is not at the position of a node of the class its detector reports on "
                                                             "(lineno / col_offset of an If / FunctionDef / ClassDef / For node of the parse tree, name matching)",
                                                   "violation": [rule, rel, l, c, msg[:300]], "case": slim(case)})
                        else:
                            chk.traces_validated += 1
                            chk.dist("console-model:files")
                            chk.dist("console-model:reports", len(reps))
                            if not bits[0]:
                                chk.violation({"reason": "the TypeScript console detector does not report exactly what its proved model (Model/LocPat.v: console_collect) "
                                                         "computes for the tree-sitter tree of this file", "file": rel, "impl": reps[:8], "case": slim(case)})
            except RuntimeError as e:
                chk.broken.append(f"Model:evaluation of the pattern-linter models failed ({str(e)[:400]})")
    # ---- lazy-ignores: the two text scanners against their model (Model/LocLazy.v), every rule-level violation against the model's directives
    lj = []
    try:
        lj = c12_lazy.lazy_jobs(cases, impls, msg_regexes()["lazy.unjustified"])
    except Exception as e:  # noqa: BLE001
        chk.broken.append(f"Model:lazy-ignores jobs could not be built ({type(e).__name__}: {str(e)[:200]})")
    for case, im in zip(cases, impls):
        if im.get("lazy_error"):
            chk.broken.append(f"Model:lazy-ignores scanners could not be run as the harness expects ({im['lazy_error'][:200]})")
            break
    if lj:
        with scratch_dir("tv-c12-lazy-") as wd:
            per = 12
            shards = ["\n".join(lj[j][4] for j in range(s0, min(len(lj), s0 + per))) for s0 in range(0, len(lj), per)]
            try:
                lth = coq.TH
                if not lazy_built:
                    lth = recorded_layer_theories(wd / "recorded", c12_lazy.LAZY_CONE)
                    if lth is None:
                        raise RuntimeError("the lazy-ignores scanner model does not build and no recorded generated layer is available")
                    chk.notes.append("the lazy-ignores scanner model was evaluated with the recorded generated layer (coq/Gen.expected/LocLazyGen.v.txt)")
                outs = [o for sh in eval_shards_th(wd / "shards", shards, lth, c12_lazy.LAZY_HEADER) for o in sh]
                if len(outs) != len(lj):
                    raise RuntimeError(f"expected {len(lj)} results, got {len(outs)}")
                c12_lazy.decide(chk, cases, lj, outs, slim)
            except RuntimeError as e:
                chk.broken.append(f"Model:evaluation of the lazy-ignores scanner model failed ({str(e)[:400]})")
    # ---- TypeScript pattern linters (string-concat-loop, cqs): every violation is (row + 1, column) of a node of the type read from the source
    tj = []
    try:
        tj = c12_tspat.tspat_jobs(cases, impls, ts_tree_term)
    except Exception as e:  # noqa: BLE001
        chk.broken.append(f"Model:TypeScript pattern-linter jobs could not be built ({type(e).__name__}: {str(e)[:200]})")
    if tj:
        with scratch_dir("tv-c12-tspat-") as wd:
            per = 20
            shards = ["\n".join(tj[j][4] for j in range(s0, min(len(tj), s0 + per))) for s0 in range(0, len(tj), per)]
            try:
                tth = coq.TH
                if not tspat_built:
                    tth = recorded_layer_theories(wd / "recorded", PAT_CONE + c12_tspat.TS_CONE_EXTRA)
                    if tth is None:
                        raise RuntimeError("the TypeScript pattern-linter model does not build and no recorded generated layer is available")
                    chk.notes.append("the TypeScript pattern-linter model was evaluated with the recorded generated layer (coq/Gen.expected/LocTsPatGen.v.txt)")
                outs = [o for sh in eval_shards_th(wd / "shards", shards, tth, c12_tspat.TS_HEADER) for o in sh]
                if len(outs) != len(tj):
                    raise RuntimeError(f"expected {len(tj)} results, got {len(outs)}")
                c12_tspat.decide(chk, cases, tj, outs, slim)
            except RuntimeError as e:
                chk.broken.append(f"Model:evaluation of the TypeScript pattern-linter model failed ({str(e)[:400]})")
    # ---- documented multi-line chains, SARIF / JSON views, bookkeeping
    for ci, (case, im) in enumerate(zip(cases, impls)):
        texts = tuple(sorted((d["name"], doc_text(d) if d.get("raw") is None else d["raw"]) for d in case["docs"]))
        chk.count([case["stream"], texts], ci in judged_cases)
        chk.dist("stream:" + case["stream"].split(":")[0])
        for d in case["docs"]:
            chk.dist("lang:" + d["lang"])
            for t in d["tags"]:
                chk.dist("layout:" + t)
        if "error" in im:
            chk.dist("run-error:" + im["error"].split(":")[0])
            if case["stream"].startswith("docs"):
                chk.notes.append(f"{case['id']}: the run raised {im['error'][:120]} (configuration of a documented example)")
            else:
                chk.violation({"reason": "the run raised", "error": im["error"], "case": slim(case)})
            continue
        if im["failures"]:
            chk.violation({"reason": "a rule failed internally (swallowed exception) during the run", "failures": im["failures"][:3], "case": slim(case)})
        if "cli" in im:
            check_cli_views(chk, case, im)
        chk.sample({"id": case["id"], "file": case["docs"][0]["name"], "layout": case["docs"][0]["tags"], "text": doc_text(case["docs"][0])[:500],
                    "violations": [v[:4] for v in im["v"][:4]]}, 4)
    if cand_all is not None and not cand_all[0]:
        alt = [i for i, ok in enumerate(cand_all) if ok]
        names = ["actual"] + [f"actual without {f}" for f in FLAGS] + ["ideal"]
        if alt:
            # a listed deviation is no longer observed: every theorem is stated for all quirk vectors, the property is still shown
            chk.notes.append("implementation no longer matches the claimed quirk vector but matches on every judged report: " + names[alt[0]] +
                             " (a listed defect is no longer observed)")
            mismatches = []
    for mm_ in mismatches[:20]:
        chk.correspondence_broken(mm_)
    if ext.get("unparsable"):
        chk.extra_cov["doc_examples_unparsable"] = len(ext["unparsable"])
    return chk.finish()


CLI_OF_STREAM = {"lazy": "lazy-ignores", "nesting": "nesting", "magic": "magic-numbers", "srp": "srp", "print": "improper-logging", "header": "file-header",
                 "docs:lbyl": "lbyl", "docs:method-property": "method-property", "docs:stateless-class": "stateless-class", "docs:pipeline": "pipeline",
                 "docs:perf": "perf", "docs:lazy-ignores": "lazy-ignores", "docs:unwrap-abuse": "unwrap-abuse", "docs:clone-abuse": "clone-abuse",
                 "docs:blocking-async": "blocking-async", "docs:improper-logging": "improper-logging", "docs:magic-numbers": "magic-numbers",
                 "docs:nesting": "nesting", "docs:srp": "srp", "docs:file-header": "file-header"}


def check_cli_views(chk, case, im):
    """the CLI's JSON view repeats the in-process positions of its command's rules; SARIF = (line, column + 1)"""
    views = im["cli"]
    for fmt, v in views.items():
        if "error" in v:
            chk.violation({"reason": f"CLI {case['cmd']} --format {fmt} failed", "detail": v["error"], "case": slim(case)})
            return
    names = {d["name"] for d in case["docs"]}
    inproc = {(r, f, l, c) for r, f, l, c, _ in im["v"]}
    for r, f, l, c, msg in views["json"]["v"]:
        chk.dist("cli-json-violation")
        if f not in names:
            chk.violation({"reason": "CLI JSON: file_path is not a file of the run", "violation": [r, f, l, c, msg[:200]], "case": slim(case)})
        elif (r, f, l, c) not in inproc:
            chk.violation({"reason": "CLI JSON position differs from the in-process position", "violation": [r, f, l, c, msg[:200]], "case": slim(case)})
    js = sorted((r, f, l, c + 1) for r, f, l, c, _ in views["json"]["v"])
    sf = sorted((r, f, l, c) for r, f, l, c, _ in views["sarif"]["v"])
    chk.dist("cli-sarif-result", len(sf))
    if js != sf:
        chk.violation({"reason": "SARIF regions are not (line, column + 1) of the JSON violations", "json": js[:5], "sarif": sf[:5], "case": slim(case)})


def _slim_doc(d):
    return {k: d[k] for k in ("lang", "name", "lines", "cons", "eol", "final_nl", "stream", "tags") if k in d} | ({"raw": d["raw"]} if "raw" in d else {})


def slim(case):
    return {"id": case["id"], "stream": case["stream"], "config": case["config"], "via": case.get("via", "api"), "cmd": case.get("cmd"),
            **({"steps": [[_slim_doc(d) for d in st] for st in case["steps"]]} if case.get("steps") else {}),
            "docs": [{k: d[k] for k in ("lang", "name", "lines", "cons", "eol", "final_nl", "stream", "tags") if k in d} | ({"raw": d["raw"]} if "raw" in d else {})
                     for d in case["docs"]]}


def load_known_d(chk):
    """known.d/C12.json is authoritative for this check (known_findings.json is assembled from it by the lead)"""
    p = VERIF / "known.d" / "C12.json"
    if p.exists():
        for f in json.loads(p.read_text()).get("findings", []):
            if f.get("property") == PROP and f.get("status") == "known":
                chk.known["known"].setdefault(f["key"], f)


def corpus_cases():
    out = []
    for p in sorted(CORPUS.glob("*.json")):
        c = json.loads(p.read_text())
        c["id"] = "corpus:" + p.stem
        out.append(c)
    return out
